"""C20 - entanglement and information measures satisfy their definitions.

TableExplorer (DESIGN.md section 3, C20): bounded-exhaustive over subsystem
dimension lists x named state kinds x representations x every ordered
(possibly non-contiguous) subsystem choice x transformations (one fixed
generic local unitary per subsystem, subsystem relabellings), on the REAL
``quimb.calc`` routines, against plain-numpy textbook definitions
(``c20_ref``: eigenvalues of Hermitian matrices, singular values of the
reshaped ket, einsum partial traces; no quimb import there).

Tables (each one ``table.run`` with its own counters in the evidence):

  bip      entropy / entropy_subsys / tr_sqrt(_subsys) / schmidt_gap / mutinf /
           logneg / negativity / partial_transpose for every ordered proper
           subsystem subset, and mutinf_subsys / logneg_subsys for every
           ordered disjoint pair of subsets (shortcut path == generic path ==
           reference), ket == projector == sparse ket, bounds on quimb's own
           outputs (S(A)=S(B), I=2S(A), logneg=log2(2N+1), symmetry)
  pair     fidelity x squared, trace_distance x isherm for every ordered pair
           of 10 state kinds x ket/dop/sparse forms, bounds (Fuchs-van de
           Graaf on quimb's own values), global-unitary invariance
  twoq     concurrence, quantum_discord, one_way_classical_information for
           every ordered pair of qubit subsystems, local-unitary invariance,
           brute-force discord reference (grid + zoom over the Bloch sphere)
  chan     purify, kraus_op, projector, measure, simulate_counts, dephase
  decomp   pauli_decomp, bell_decomp, correlation, pauli_correlations,
           ent_cross_matrix, qid, is_degenerate, is_eigenvector, page_entropy
  lazy     lazy_ptr_linop / lazy_ptr_ppt_linop dense forms and mat-vecs

Conventions established on the real code (not defects):
  * subsystem arguments are sets: the order inside ``sysa`` is irrelevant and
    ``ptr`` keeps subsystems in ascending order;
  * ``mutinf_subsys`` / ``entropy_subsys`` / ``logneg_subsys`` /
    ``schmidt_gap`` / ``tr_sqrt_subsys`` are fed kets only;
  * ``entropy`` / ``tr_sqrt`` / ``purify`` / ``kraus_op`` are fed operators;
  * sparse DENSITY OPERATORS are not supported by the spectral measures
    (``np.asarray(sparse)``): those calls are counted as rejections per entry
    point (table ``UNSUPPORTED``); everything else must work and agree;
  * sqrt-based quantities are compared at 1e-6 (sqrt amplifies eigenvalue
    noise 1e-17 to 3e-9 per null eigenvalue) or through their squares;
  * sparse inputs are not combined with dimension-1 subsystems (C15's known
    dim_compress finding lives there).
"""

from __future__ import annotations

import itertools
import sys

import numpy as np

from .. import core, table, ref
from ..alphabet import dims_lists, fill
from . import c20_ref as R

TOL = 1e-8  # eigenvalue-sum quantities
TOL_SQRT = 2e-6  # sqrt-of-eigenvalue quantities
_Q = {}


def _qu():
    if "qu" not in _Q:
        import quimb

        _Q["qu"] = quimb
    return _Q["qu"]


def _sp():
    import scipy.sparse as sp

    return sp


def _dense(x):
    return np.asarray(x.toarray()) if _sp().issparse(x) else np.asarray(x)


def _num(x):
    """scalar result -> python complex/float (1x1 containers accepted)."""
    x = _dense(x) if not np.isscalar(x) else x
    x = np.asarray(x)
    if x.size != 1:
        raise TypeError("expected a scalar, got shape %s" % (x.shape,))
    v = complex(x.reshape(-1)[0])
    return v.real if abs(v.imag) < 1e-12 else v


def _prod(xs):
    p = 1
    for x in xs:
        p *= int(x)
    return p


def _tl(x):
    if isinstance(x, (list, tuple)):
        return [_tl(v) for v in x]
    return x


# (entry, form) pairs that quimb does not support (sparse density operators
# into dense-only spectral code): an exception there is a counted rejection.
UNSUPPORTED = {
    ("entropy", "sdop"),
    ("tr_sqrt", "sdop"),
    ("mutinf", "sdop"),
    ("logneg", "sdop"),
    ("negativity", "sdop"),
    ("partial_transpose", "sdop"),
    ("partial_transpose", "sket"),
    ("purify", "sdop"),
    ("measure", "sdop"),
    ("kraus_op", "sdop"),
    ("fidelity", "sdop-dop"),
    ("fidelity", "sdop-sdop"),
    ("trace_distance", "sdop-sdop"),
    ("trace_distance", "sdop-sket"),
    ("trace_distance", "sket-sdop"),
    ("concurrence", "sdop"),
    ("quantum_discord", "sdop"),
    ("quantum_discord", "sket"),
    ("dephase", "sket"),
    ("simulate_counts", "sket"),
    ("simulate_counts", "sdop"),
}


class _Acc:
    """collects the results of one cell."""

    def __init__(self, cellkey):
        self.cellkey = cellkey
        self.res = []
        self.n = 0

    def bad(self, sub, entry, fail, msg, **extra):
        sig = {"entry": entry, "fail": fail, "root": "none"}
        sig.update(extra)
        self.res.append(table.bad(core.problem("%s %s [%s]: %s" % (entry, self.cellkey, sub, msg), **sig), sub=sub))

    def rej(self, what, sub):
        self.res.append(table.rejected(what, sub=sub))

    def emit(self, sub, nontrivial=True, outcome=None):
        """one ok record for the evaluations that held since the last emit"""
        if self.n:
            self.res.append(table.ok(key=(self.cellkey, sub), nontrivial=nontrivial, outcome=outcome, evals=self.n, sub=sub))
        self.n = 0

    def call(self, sub, entry, f, form="dop", uform=None, **extra):
        """run f() on the real code; exception -> rejection (UNSUPPORTED) or
        violation.  Returns (True, value) or (False, None)."""
        try:
            return True, f()
        except Exception as ex:
            if (entry, uform or form) in UNSUPPORTED:
                self.rej("%s:%s:%s" % (entry, uform or form, type(ex).__name__), sub)
            else:
                self.bad(sub, entry, "exc:" + type(ex).__name__, "raised %s: %s" % (type(ex).__name__, str(ex)[:160]), form=form, **extra)
            return False, None

    def val(self, sub, entry, f, exp, tol=TOL, form="dop", **extra):
        """scalar measure == reference"""
        okc, got = self.call(sub, entry, f, form=form, **extra)
        if not okc:
            return None
        try:
            g = _num(got)
        except Exception as ex:
            self.bad(sub, entry, "type", "result is not a scalar: %r (%s)" % (type(got), ex), form=form, **extra)
            return None
        if not (np.isfinite(np.real(g)) and abs(g - exp) <= tol * max(1.0, abs(exp))):
            self.bad(sub, entry, "mismatch", "got %r, reference %r" % (g, exp), form=form, **extra)
            return None
        self.n += 1
        return g

    def mat(self, sub, entry, f, exp, tol=TOL, form="dop", **extra):
        okc, got = self.call(sub, entry, f, form=form, **extra)
        if not okc:
            return None
        try:
            g = _dense(got)
        except Exception as ex:
            self.bad(sub, entry, "type", "result not array-like: %r (%s)" % (type(got), ex), form=form, **extra)
            return None
        exp = np.asarray(exp)
        if g.shape != exp.shape:
            self.bad(sub, entry, "shape", "shape %s, expected %s" % (g.shape, exp.shape), form=form, **extra)
            return None
        if not (np.all(np.isfinite(g)) and float(np.max(np.abs(g - exp))) <= tol * max(1.0, float(np.max(np.abs(exp))))):
            self.bad(sub, entry, "mismatch", "max abs err %.3g vs reference" % float(np.max(np.abs(g - exp))), form=form, **extra)
            return None
        self.n += 1
        return got

    def bound(self, sub, entry, name, cond, msg, **extra):
        if cond:
            self.n += 1
        else:
            self.bad(sub, entry, "bound:" + name, msg, **extra)


# --------------------------------------------------------------------------- #
#                              state alphabet                                 #
# --------------------------------------------------------------------------- #

PURE = ("gen", "real", "prod", "ghz", "basis")
MIXED = ("r2", "full", "diag", "maxmix", "prodmix", "ghzmix")


def _g(shape, key, dtype="complex128"):
    return fill("generic", tuple(int(s) for s in shape), dtype, key=("c20",) + tuple(key))


def _nket(v):
    v = np.asarray(v).reshape(-1, 1)
    return v / np.linalg.norm(v)


def _ghz(dims):
    m = min(d for d in dims if d > 1)
    x = np.zeros(dims, dtype=complex)
    for i in range(m):
        x[tuple(i if d > 1 else 0 for d in dims)] = 1.0
    return _nket(x)


def _ket(dims, kind, key=()):
    dims = [int(d) for d in dims]
    D = _prod(dims)
    k = ("ket", kind, tuple(dims)) + tuple(key)
    if kind == "gen":
        return _nket(_g((D,), k))
    if kind == "real":
        return _nket(_g((D,), k, "float64")).astype(float)
    if kind == "prod":
        v = np.ones((1,), dtype=complex)
        for i, d in enumerate(dims):
            v = np.kron(v, _nket(_g((d,), k + (i,))).reshape(-1))
        return _nket(v)
    if kind == "ghz":
        return _ghz(dims)
    if kind == "basis":
        v = np.zeros((D, 1), dtype=complex)
        v[(2 * D) // 3, 0] = 1.0
        return v
    raise KeyError(kind)


def _full(d, key):
    b = _g((d, d), key)
    r = b @ b.conj().T + 0.1 * np.eye(d)
    return r / np.trace(r).real


def _rho(dims, kind, key=()):
    dims = [int(d) for d in dims]
    D = _prod(dims)
    k = ("rho", kind, tuple(dims)) + tuple(key)
    if kind in PURE:
        return R.dop(_ket(dims, kind, key))
    if kind == "r2":
        b = _g((D, 2), k)
        r = b @ b.conj().T
        return r / np.trace(r).real
    if kind == "r3":
        b = _g((D, 3), k)
        r = b @ b.conj().T
        return r / np.trace(r).real
    if kind == "full":
        return _full(D, k)
    if kind == "diag":
        p = fill("positive", (D,), "float64", key=("c20",) + k)
        return np.diag(p / p.sum()).astype(complex)
    if kind == "maxmix":
        return np.eye(D, dtype=complex) / D
    if kind == "prodmix":
        r = np.eye(1, dtype=complex)
        for i, d in enumerate(dims):
            r = np.kron(r, _full(d, k + (i,)))
        return r / np.trace(r).real
    if kind == "ghzmix":
        return 0.7 * R.dop(_ghz(dims)) + 0.3 * np.eye(D) / D
    raise KeyError(kind)


def _rank(kind, D):
    return {"r2": min(2, D), "r3": min(3, D)}.get(kind, 1 if kind in PURE else D)


def _lu(dims, key=()):
    us = [fill("unitary", (d, d), "complex128", key=("c20", "lu", i, int(d)) + tuple(key)) for i, d in enumerate(dims)]
    return ref.kron(*us)


def _transform(x, dims, tf):
    """returns (x', dims', imap) with imap[old subsystem] = new subsystem."""
    dims = [int(d) for d in dims]
    n = len(dims)
    x = np.asarray(x)
    if tf == "id":
        return x, dims, list(range(n))
    if tf == "lu":
        U = _lu(dims)
        if x.shape[0] == x.shape[1] and x.shape[0] > 1:
            return U @ x @ U.conj().T, dims, list(range(n))
        return U @ x, dims, list(range(n))
    if tf.startswith("perm:"):
        p = [int(c) for c in tf[5:]]
        y = ref.permute(x, dims, p)
        return y, [dims[i] for i in p], [p.index(j) for j in range(n)]
    raise KeyError(tf)


def _as(x, form):
    """representation: ket / proj / dop -> qarray; nd -> ndarray; sket/sdop/
    sproj -> csr"""
    qu = _qu()
    x = np.asarray(x)
    if form in ("ket", "dop", "proj"):
        return qu.qarray(x)
    if form == "nd":
        return np.array(x)
    return _sp().csr_matrix(x)


def _ordered_subsets(n, kmin=1, kmax=None):
    kmax = n if kmax is None else kmax
    out = []
    for k in range(kmin, kmax + 1):
        out += list(itertools.permutations(range(n), k))
    return out


def _ordered_pairs(n):
    """ordered disjoint non-empty (sysa, sysb), each an ordered tuple"""
    subs = _ordered_subsets(n, 1, n - 1)
    return [(a, b) for a in subs for b in subs if not set(a) & set(b)]


def _tfs(n, quick):
    perms = ["perm:" + "".join(map(str, p)) for p in itertools.permutations(range(n)) if list(p) != list(range(n))]
    if quick and n >= 3:
        perms = ["perm:" + "".join(map(str, p)) for p in (tuple(range(1, n)) + (0,), tuple(reversed(range(n))))]
    elif n >= 4:  # cyclic shift, reversal, one transposition of non-neighbours
        perms = ["perm:" + "".join(map(str, p)) for p in (tuple(range(1, n)) + (0,), tuple(reversed(range(n))), (2, 1, 0) + tuple(range(3, n)))]
    return ["id", "lu"] + perms


# --------------------------------------------------------------------------- #
#                         table 1: bipartite measures                          #
# --------------------------------------------------------------------------- #


def bip_cell(cell, common):
    qu = _qu()
    dims0 = [int(d) for d in cell["dims"]]
    kind = cell["kind"]
    tf = cell["tf"]
    n = len(dims0)
    D = _prod(dims0)
    pure = kind in PURE
    sparse_ok = 1 not in dims0
    acc = _Acc("dims=%s kind=%s tf=%s" % (tuple(dims0), kind, tf))
    x0 = _ket(dims0, kind) if pure else _rho(dims0, kind)
    rho0 = R.dop(x0) if pure else x0
    x1, dims, imap = _transform(x0, dims0, tf)
    rho1 = R.dop(x1) if pure else x1
    if pure:
        forms = [("ket", _as(x1, "ket")), ("proj", _as(rho1, "proj"))]
        if sparse_ok:
            forms.append(("sket", _as(x1, "sket")))
        if kind == "gen":
            forms.append(("nd", _as(x1, "nd")))
    else:
        forms = [("dop", _as(rho1, "dop"))]
        if sparse_ok and kind in ("full", "r2") and tf == "id":
            forms.append(("sdop", _as(rho1, "sdop")))
    ketforms = [(f, o) for f, o in forms if f in ("ket", "sket", "nd")]
    allforms = forms

    # ---- whole-state quantities (no subsystem argument) ---------------- #
    if not pure:
        s_all = R.entropy(rho0)
        rk = _rank(kind, D)
        ts = float(np.sum(np.sqrt(np.clip(R.evals(rho0), 0, None))))
        for f, o in forms:
            acc.val("entropy|%s" % f, "entropy", lambda: qu.entropy(o), s_all, form=f)
            if f == "dop":
                if rk < D and D > 2:
                    acc.val("entropy|rank=%d" % rk, "entropy", lambda: qu.entropy(o, rank=rk), s_all, form=f, opt="rank")
                acc.val("entropy|evals", "entropy", lambda: qu.entropy(np.linalg.eigvalsh(rho1)), s_all, form="evals")
                acc.val("tr_sqrt|%s" % f, "tr_sqrt", lambda: qu.tr_sqrt(o), ts, tol=TOL_SQRT, form=f)
                if rk < D and D > 2:
                    acc.val("tr_sqrt|rank=%d" % rk, "tr_sqrt", lambda: qu.tr_sqrt(o, rank=rk), ts, tol=TOL_SQRT, form=f, opt="rank")
            elif f == "sdop":
                acc.val("tr_sqrt|%s" % f, "tr_sqrt", lambda: qu.tr_sqrt(o), ts, tol=TOL_SQRT, form=f)
        acc.bound("entropy-range", "entropy", "range", -1e-9 <= s_all <= np.log2(D) + 1e-9, "reference entropy out of range")
        acc.emit("whole", nontrivial=kind not in ("maxmix",), outcome="whole:" + ("mixed" if not pure else "pure"))

    # ---- one subsystem set --------------------------------------------- #
    refs = {}

    def refs_for(sa0):
        key = tuple(sorted(sa0))
        if key not in refs:
            d = {}
            if pure:
                s = R.schmidt(x0, dims0, key)
                lam = s**2
                d["S"] = R.entropy_p(lam)
                d["I"] = 2 * d["S"]
                d["ptn"] = float(np.sum(s) ** 2)
                lam2 = np.sort(lam)[::-1]
                d["gap"] = float(lam2[0] - (lam2[1] if len(lam2) > 1 else 0.0))
                d["trs"] = float(np.sum(s))
            else:
                d["I"] = R.mutinf(rho0, dims0, key)
                d["ptn"] = R.pt_norm(rho0, dims0, key)
            d["N"] = max(0.0, (d["ptn"] - 1) / 2)
            d["LN"] = max(0.0, float(np.log2(d["ptn"])))
            refs[key] = d
        return refs[key]

    subsets = _ordered_subsets(n, 1, n - 1) if n > 1 else []
    got_by_set = {}
    for sa0 in subsets:
        sa = [imap[j] for j in sa0]
        rf = refs_for(sa0)
        dA = _prod(dims0[j] for j in sa0)
        dB = D // dA
        tag = "sysa=%s" % (tuple(sa0),)
        spell = [("list", list(sa))]
        if len(sa) == 1:
            spell.append(("int", sa[0]))
        if len(sa) > 1:
            spell = [("tuple", tuple(sa))]
        for sname, s_arg in spell:
            st = "%s/%s" % (tag, sname)
            if pure:
                for f, o in ketforms:
                    g = acc.val("entropy_subsys|%s|%s" % (f, st), "entropy_subsys", lambda: qu.entropy_subsys(o, dims, s_arg), rf["S"], form=f)
                    if g is not None and f == "ket":
                        got_by_set.setdefault(("S", tuple(sorted(sa0))), g)
                        acc.bound("entropy_subsys|%s" % st, "entropy_subsys", "range", -1e-9 <= g <= np.log2(min(dA, dB)) + 1e-9, "S(A)=%r outside [0, log2 min(dA,dB)]" % g, form=f)
                    acc.val("tr_sqrt_subsys|%s|%s" % (f, st), "tr_sqrt_subsys", lambda: qu.calc.tr_sqrt_subsys(o, dims, s_arg), rf["trs"], tol=TOL_SQRT, form=f)
                    root = "sz_a==1" if dA == 1 else "none"
                    acc.val("schmidt_gap|%s|%s" % (f, st), "schmidt_gap", lambda: qu.schmidt_gap(o, dims, s_arg), rf["gap"], form=f, root=root)
            for f, o in allforms:
                sq = TOL_SQRT if f in ("ket", "sket", "nd") else TOL
                gi = acc.val("mutinf|%s|%s" % (f, st), "mutinf", lambda: qu.mutinf(o, dims, s_arg), rf["I"], form=f)
                gl = acc.val("logneg|%s|%s" % (f, st), "logneg", lambda: qu.logneg(o, dims, s_arg), rf["LN"], tol=sq, form=f)
                gn = acc.val("negativity|%s|%s" % (f, st), "negativity", lambda: qu.negativity(o, dims, s_arg), rf["N"], tol=sq, form=f)
                if f in ("ket", "dop"):
                    if gi is not None:
                        got_by_set.setdefault(("I", tuple(sorted(sa0))), gi)
                        acc.bound("mutinf|%s" % st, "mutinf", "range", -1e-9 <= gi <= 2 * np.log2(min(dA, dB)) + 1e-9, "I(A:B)=%r outside [0, 2 log2 min(dA,dB)]" % gi, form=f)
                    if gn is not None:
                        got_by_set.setdefault(("N", tuple(sorted(sa0))), gn)
                    if gl is not None and gn is not None:
                        acc.bound("logneg-neg|%s" % st, "logneg", "log2(2N+1)", abs(gl - np.log2(2 * gn + 1)) <= 1e-7, "logneg=%r but log2(2 negativity + 1)=%r" % (gl, np.log2(2 * gn + 1)), form=f)
                if sname != "int" and not (f == "nd" and len(sa) > 1):
                    exp = ref.partial_transpose(rho1, dims, sorted(sa))
                    acc.mat("partial_transpose|%s|%s" % (f, st), "partial_transpose", lambda: qu.partial_transpose(o, dims, s_arg), exp, form=f)
        if not pure and rk < D and D > 2 and "dop" in dict(forms):
            o = dict(forms)["dop"]
            acc.val("mutinf|rank|%s" % tag, "mutinf", lambda: qu.mutinf(o, dims, list(sa), rank=rk), rf["I"], form="dop", opt="rank")
        nt = dA > 1 and dB > 1
        acc.emit(tag, nontrivial=nt, outcome="bip:%s:%s" % ("pure" if pure else "mixed", "ent" if rf["N"] > 1e-6 else "ppt"))

    # ---- default arguments: dims=(2, 2), sysa=0 -------------------------- #
    if dims0 == [2, 2] and tf == "id":
        rf = refs_for((0,))
        for f, o in allforms:
            sq = TOL_SQRT if f in ("ket", "sket", "nd") else TOL
            acc.val("mutinf|%s|defaults" % f, "mutinf", lambda: qu.mutinf(o), rf["I"], form=f, opt="defaults")
            acc.val("logneg|%s|defaults" % f, "logneg", lambda: qu.logneg(o), rf["LN"], tol=sq, form=f, opt="defaults")
            acc.val("negativity|%s|defaults" % f, "negativity", lambda: qu.negativity(o), rf["N"], tol=sq, form=f, opt="defaults")
            acc.mat("partial_transpose|%s|defaults" % f, "partial_transpose", lambda: qu.partial_transpose(o), ref.partial_transpose(rho1, [2, 2], [0]), form=f, opt="defaults")
        acc.emit("defaults", nontrivial=True, outcome="defaults")

    # ---- bounds on quimb's own outputs: complement symmetry ------------- #
    for (what, key), g in sorted(got_by_set.items()):
        comp = tuple(i for i in range(n) if i not in key)
        if comp and (what, comp) in got_by_set and key < comp:
            g2 = got_by_set[(what, comp)]
            tol = 1e-7 if what != "N" else 1e-5
            acc.bound("%s-symmetry|%s" % (what, key), {"S": "entropy_subsys", "I": "mutinf", "N": "negativity"}[what], "complement-symmetry", abs(g - g2) <= tol, "%s(A)=%r but %s(complement)=%r" % (what, g, what, g2))
        if pure and what == "I" and ("S", key) in got_by_set:
            acc.bound("I=2S|%s" % (key,), "mutinf", "I=2S", abs(g - 2 * got_by_set[("S", key)]) <= 1e-7, "pure state: I=%r, 2 S(A)=%r" % (g, 2 * got_by_set[("S", key)]))
    acc.emit("bounds", nontrivial=n > 1, outcome="bounds")

    # ---- two disjoint sets of a pure state: shortcut vs generic path ---- #
    if pure and n >= 2:
        ket = dict(forms)["ket"]
        pcache = {}
        for sa0, sb0 in _ordered_pairs(n):
            sa = [imap[j] for j in sa0]
            sb = [imap[j] for j in sb0]
            key = (tuple(sorted(sa0)), tuple(sorted(sb0)))
            if key not in pcache:
                rab, dab, aloc = R.reduced_pair(rho0, dims0, sa0, sb0)
                pcache[key] = (R.mutinf(rab, dab, aloc) if len(dab) > len(aloc) else 0.0, R.logneg(rab, dab, aloc))
            mi, ln = pcache[key]
            tag = "sysa=%s sysb=%s" % (tuple(sa0), tuple(sb0))
            covers = _prod(dims0) == _prod(dims0[j] for j in sa0) * _prod(dims0[j] for j in sb0)  # sz_c == 1: quimb's pure-bipartition shortcut
            a_arg = sa[0] if len(sa) == 1 and (sa[0] + len(sb)) % 2 == 0 else list(sa)
            b_arg = tuple(sb)
            for f, o in ketforms:
                acc.val("mutinf_subsys|%s|%s" % (f, tag), "mutinf_subsys", lambda: qu.mutinf_subsys(o, dims, a_arg, b_arg), mi, form=f, path="bipartition" if covers else "traced")
                acc.val("logneg_subsys|%s|%s" % (f, tag), "logneg_subsys", lambda: qu.logneg_subsys(o, dims, a_arg, b_arg), ln, tol=TOL_SQRT, form=f, path="bipartition" if covers else "traced")
                if f == "ket":  # approximation switched off explicitly: same exact path
                    acc.val("mutinf_subsys|%s|%s|thresh=None" % (f, tag), "mutinf_subsys", lambda: qu.mutinf_subsys(o, dims, a_arg, b_arg, approx_thresh=None), mi, form=f, path="bipartition" if covers else "traced", opt="approx_thresh=None")
                    acc.val("logneg_subsys|%s|%s|thresh=None" % (f, tag), "logneg_subsys", lambda: qu.logneg_subsys(o, dims, a_arg, b_arg, approx_thresh=None), ln, tol=TOL_SQRT, form=f, path="bipartition" if covers else "traced", opt="approx_thresh=None")
            # generic quimb path: trace out, then the density-operator routine
            if not covers:
                ab = sorted(sa + sb)
                dab = [dims[i] for i in ab]
                aloc = [ab.index(i) for i in sa]
                okc, red = acc.call("ptr|%s" % tag, "ptr", lambda: qu.ptr(ket, dims, ab), form="ket")
                if okc:
                    acc.val("mutinf(ptr)|%s" % tag, "mutinf", lambda: qu.mutinf(red, dab, aloc), mi, form="dop", path="generic")
                    acc.val("logneg(ptr)|%s" % tag, "logneg", lambda: qu.logneg(red, dab, aloc), ln, form="dop", path="generic")
            dA = _prod(dims0[j] for j in sa0)
            dB = _prod(dims0[j] for j in sb0)
            acc.emit(tag, nontrivial=dA > 1 and dB > 1, outcome="pairs:%s:%s" % ("bipartition" if covers else "traced", "ent" if ln > 1e-6 else "ppt"))
    return acc.res


def bip_cells(tier):
    quick = tier == "quick"
    cells = []
    if quick:
        dl = [d for d in dims_lists((1, 2, 3, 4), maxlen=3, maxD=16) if _prod(d) >= 2]
    else:
        dl = [d for d in dims_lists((1, 2, 3, 4, 5), maxlen=3, maxD=36) if _prod(d) >= 2]
        dl += [d for d in dims_lists((1, 2, 3), maxlen=4, maxD=24, minlen=4) if _prod(d) >= 2]
    for dims in dl:
        n = len(dims)
        for kind in PURE + MIXED:
            if n == 1 and kind in PURE:
                continue
            for tf in _tfs(n, quick):
                if n == 1 and tf != "id":
                    continue
                if tf != "id" and kind in ("basis", "maxmix", "diag", "real"):
                    continue  # invariant by construction or covered by the untransformed cell
                if n >= 4 and tf != "id" and kind in ("prod", "ghzmix"):
                    continue
                cells.append({"dims": list(dims), "kind": kind, "tf": tf})
    return cells



# --------------------------------------------------------------------------- #
#                 table 2: fidelity / trace distance of two states            #
# --------------------------------------------------------------------------- #

PAIR_KINDS = ("k1", "k1ph", "k2", "korth", "p1", "f1", "f2", "r2", "diag", "mm")
_KETS = ("k1", "k1ph", "k2", "korth")
_RAY = {"k1": "k1", "k1ph": "k1", "k2": "k2", "korth": "korth"}


def _pair_state(D, kind):
    """(is_ket, array)"""
    k1 = _nket(_g((D,), ("pair", "k1", D)))
    if kind == "k1":
        return True, k1
    if kind == "k1ph":
        return True, k1 * np.exp(0.7j)
    if kind == "k2":
        return True, _nket(_g((D,), ("pair", "k2", D)))
    if kind == "korth":
        v = _g((D,), ("pair", "k3", D)).reshape(-1, 1)
        v = v - k1 * (k1.conj().T @ v)
        return True, _nket(v)
    if kind == "p1":
        return False, R.dop(k1)
    if kind == "f1":
        return False, _full(D, ("pair", "f1", D))
    if kind == "f2":
        return False, _full(D, ("pair", "f2", D))
    if kind == "r2":
        return False, _rho([D], "r2", ("pair",))
    if kind == "diag":
        return False, _rho([D], "diag", ("pair",))
    if kind == "mm":
        return False, np.eye(D, dtype=complex) / D
    raise KeyError(kind)


def pair_cell(cell, common):
    qu = _qu()
    D = int(cell["D"])
    ka, kb = cell["a"], cell["b"]
    gu = bool(cell["gu"])
    acc = _Acc("D=%d a=%s b=%s gu=%s" % (D, ka, kb, gu))
    ia, xa = _pair_state(D, ka)
    ib, xb = _pair_state(D, kb)
    ra = R.dop(xa) if ia else xa
    rb = R.dop(xb) if ib else xb
    F = R.fidelity(ra, rb)
    F2 = None
    if ia or ib:  # closed form: <psi|sigma|psi>
        F2 = float(np.real(np.trace(ra @ rb)))
        F = np.sqrt(max(F2, 0.0))
    T = R.trace_distance(ra, rb)
    if gu:
        U = fill("unitary", (D, D), "complex128", key=("c20", "pair", "gu", D))
        xa = U @ xa if ia else U @ xa @ U.conj().T
        xb = U @ xb if ib else U @ xb @ U.conj().T
    fa = [("ket", _as(xa, "ket")), ("sket", _as(xa, "sket"))] if ia else [("dop", _as(xa, "dop")), ("sdop", _as(xa, "sdop"))]
    fb = [("ket", _as(xb, "ket")), ("sket", _as(xb, "sket"))] if ib else [("dop", _as(xb, "dop")), ("sdop", _as(xb, "sdop"))]
    if gu:  # sparse forms only on the untransformed pair
        fa, fb = fa[:1], fb[:1]
    same_ray = ia and ib and _RAY[ka] == _RAY[kb]
    rankdef = (not ia and ka in ("p1", "r2")) or (not ib and kb in ("p1", "r2"))
    got = {}
    for (na, oa), (nb, ob) in itertools.product(fa, fb):
        form = "%s-%s" % (na, nb)
        base = "%s-%s" % (na.lstrip("s"), nb.lstrip("s"))
        sub = form
        # ---- fidelity --------------------------------------------------
        for squared in (False, True):
            okc, g = acc.call("fidelity|%s|sq=%s" % (sub, squared), "fidelity", lambda: qu.fidelity(oa, ob, squared=squared), form=base, uform=form, squared=squared)
            if not okc:
                continue
            try:
                g = _num(g)
            except Exception as ex:
                acc.bad("fidelity|%s|sq=%s" % (sub, squared), "fidelity", "type", "not a scalar: %s" % ex, form=base, squared=squared)
                continue
            if F2 is not None:
                # compare through the square: exact to 1e-12 whatever the size of F
                gg = g if squared else g * g
                good = abs(gg - F2) <= 1e-9 and (squared or abs(g - F) <= 1e-6)
            else:
                tol = 5e-4 if rankdef else 1e-7  # sqrt applied twice to eigenvalue noise: 1e-17 -> 3e-9 -> 5e-5 per null direction
                e = F * F if squared else F
                good = abs(g - e) <= tol
            if not (np.isfinite(g) and good):
                acc.bad("fidelity|%s|sq=%s" % (sub, squared), "fidelity", "mismatch", "got %r, reference F=%r (squared=%s)" % (g, F, squared), form=base, squared=squared)
                continue
            acc.n += 1
            acc.bound("fidelity-range|%s|sq=%s" % (sub, squared), "fidelity", "range", -1e-9 <= g <= 1 + 1e-6, "fidelity %r outside [0, 1]" % g, form=base, squared=squared)
            if form == base and not squared:
                got["F"] = g
        # ---- trace distance ----------------------------------------------
        for isherm in (True, False):
            root = "same-ray" if (same_ray and base == "ket-ket") else "none"
            okc, g = acc.call("trace_distance|%s|isherm=%s" % (sub, isherm), "trace_distance", lambda: qu.trace_distance(oa, ob, isherm=isherm), form=base, uform=form, root=root)
            if not okc:
                continue
            try:
                g = _num(g)
            except Exception as ex:
                acc.bad("trace_distance|%s" % sub, "trace_distance", "type", "not a scalar: %s" % ex, form=base, root=root)
                continue
            if base == "ket-ket":
                good = abs(g * g - T * T) <= 1e-9 and abs(g - T) <= 1e-6 + (1e-7 if same_ray else 0)
            else:
                good = abs(g - T) <= 1e-8
            if not (np.isfinite(g) and good):
                acc.bad("trace_distance|%s|isherm=%s" % (sub, isherm), "trace_distance", "mismatch", "got %r, reference %r" % (g, T), form=base, root=root, isherm=isherm)
                continue
            acc.n += 1
            acc.bound("trace_distance-range|%s" % sub, "trace_distance", "range", -1e-12 <= g <= 1 + 1e-9, "trace distance %r outside [0, 1]" % g, form=base)
            if form == base and isherm:
                got["T"] = g
    if "F" in got and "T" in got:
        f, t = got["F"], got["T"]
        acc.bound("fuchs-van-de-graaf", "fidelity", "fuchs-van-de-graaf", 1 - f <= t + 1e-6 and t <= np.sqrt(max(0.0, 1 - f * f)) + 1e-5, "1-F=%r <= T=%r <= sqrt(1-F^2)=%r violated" % (1 - f, t, np.sqrt(max(0.0, 1 - f * f))))
    acc.emit("pair", nontrivial=ka != kb, outcome="pair:%s:%s" % ("ket" if ia else "dop", "ket" if ib else "dop") + (":same-ray" if same_ray else ""))
    return acc.res


def pair_cells(tier):
    quick = tier == "quick"
    cells = []
    for D in (2, 3, 4, 6, 8) if quick else (2, 3, 4, 5, 6, 8, 9, 12, 16):
        for a in PAIR_KINDS:
            for b in PAIR_KINDS:
                for gu in (False, True):
                    cells.append({"D": D, "a": a, "b": b, "gu": gu})
    return cells



# --------------------------------------------------------------------------- #
#          table 3: two-qubit measures (concurrence, discord, owci)           #
# --------------------------------------------------------------------------- #

TWOQ_KINDS_22 = ("gen", "real", "prod", "ghz", "basis", "r2", "r3", "full", "diag", "maxmix", "prodmix", "ghzmix", "cq", "qc", "werner", "fixed1")
TWOQ_KINDS_N = ("gen", "ghz", "r3", "full")


_FIXED1 = np.array(
    [
        [-0.325 + 0.6j, -0.575 - 0.645j],
        [0.487 - 0.933j, -0.664 + 0.944j],
        [-0.747 - 0.09j, 0.03 + 0.923j],
        [0.683 - 0.886j, -0.829 - 0.933j],
    ]
)


def _twoq_state(dims, kind, v=0):
    """(is_ket, array); v selects another member of the same named kind"""
    if kind in PURE:
        return True, _ket(dims, kind, ("twoq", v))
    if kind == "cq":  # classical on the SECOND qubit: sum_j p_j rho_j (x) |j><j|
        r0, r1 = _full(2, ("twoq", "cq", 0)), _full(2, ("twoq", "cq", 1))
        return False, 0.35 * np.kron(r0, np.diag([1.0, 0.0])) + 0.65 * np.kron(r1, np.diag([0.0, 1.0]))
    if kind == "qc":  # classical on the FIRST qubit
        r0, r1 = _full(2, ("twoq", "cq", 0)), _full(2, ("twoq", "cq", 1))
        return False, 0.35 * np.kron(np.diag([1.0, 0.0]), r0) + 0.65 * np.kron(np.diag([0.0, 1.0]), r1)
    if kind == "werner":
        return False, 0.6 * R.dop(R.BELL[0]) + 0.4 * np.eye(4) / 4
    if kind == "fixed1":  # explicit rank-2 state (independent of VERIF_SEED) on which the bounded optimiser is known to stop at the pole
        r = _FIXED1 @ _FIXED1.conj().T
        return False, r / np.trace(r).real
    return False, _rho(dims, kind, ("twoq", v))


def _discord_class(got, land, cache):
    """where does quimb's value sit in the reference landscape?"""
    if "min" not in cache:
        cache["min"] = land.minimum()
    mn = cache["min"]
    if got < mn - 1e-7:
        return "below", mn
    if got <= mn + 2e-6:
        return "global", mn
    if "edges" not in cache:
        cache["edges"] = land.edge_minima()
    if any(abs(got - e) <= 2e-6 for e in cache["edges"]):
        return "trap", mn
    return "other", mn


def twoq_cell(cell, common):
    qu = _qu()
    dims0 = [int(d) for d in cell["dims"]]
    kind, tf = cell["kind"], cell["tf"]
    a0, b0 = int(cell["a"]), int(cell["b"])
    n = len(dims0)
    v = int(cell.get("v", 0))
    acc = _Acc("dims=%s kind=%s v=%d a=%d b=%d tf=%s" % (tuple(dims0), kind, v, a0, b0, tf))
    isk, x0 = _twoq_state(dims0, kind, v)
    rho0 = R.dop(x0) if isk else x0
    x1, dims, imap = _transform(x0, dims0, tf)
    rho1 = R.dop(x1) if isk else x1
    a, b = imap[a0], imap[b0]
    # reduced state in the order (A, B) = (a0, b0); local unitaries / relabelling do not change the values
    rab = ref.ptrace(rho0, dims0, [a0, b0])
    forms = [("ket", _as(x1, "ket")), ("proj", _as(rho1, "proj"))] if isk else [("dop", _as(rho1, "dop"))]
    if 1 not in dims0 and tf == "id" and kind in ("gen", "full"):
        forms.append(("sket" if isk else "sdop", _as(x1, "sket" if isk else "sdop")))
    # ---- concurrence (symmetric in a, b) ---------------------------------
    C = R.concurrence(rab)
    if isk and n == 2:
        v = np.asarray(x0).reshape(-1)
        C = float(2 * abs(v[0] * v[3] - v[1] * v[2]))
    for f, o in forms:
        if n == 2 and (a, b) == (0, 1):
            acc.val("concurrence|%s|default" % f, "concurrence", lambda: qu.concurrence(o), C, tol=TOL_SQRT, form=f)
        acc.val("concurrence|%s" % f, "concurrence", lambda: qu.concurrence(o, dims, a, b), C, tol=TOL_SQRT, form=f)
    acc.bound("concurrence-range", "concurrence", "range", -1e-12 <= C <= 1 + 1e-9, "reference concurrence out of range")
    acc.emit("concurrence", nontrivial=C > 1e-6, outcome="concurrence:" + ("ent" if C > 1e-6 else "zero"))
    # ---- quantum discord D(A|B), measurement on B = sysb --------------------
    # the landscape (and hence where the optimiser can get trapped) is that of the TRANSFORMED state; its minimum is invariant
    land = R.Discord(ref.ptrace(rho1, dims, [a, b]))
    cache = {}
    if tf != "id":
        m0, m1 = R.Discord(rab).minimum(), land.minimum()
        cache["min"] = m1
        if abs(m0 - m1) > 1e-6:
            raise AssertionError("harness: discord reference not invariant under %s on %s: %r vs %r" % (tf, acc.cellkey, m0, m1))
    closed = None
    rank_ab = int(np.sum(R.evals(rab) > 1e-10))
    if rank_ab == 1:
        closed = R.entropy(ref.ptrace(rab, [2, 2], [0]))  # pure: discord = entanglement entropy
    elif kind in ("prod", "basis", "diag", "maxmix", "prodmix") or (kind == "cq" and b0 == 1) or (kind == "qc" and b0 == 0):
        closed = 0.0  # product, or classical on the measured side
    dforms = forms[:1] if not (kind == "gen" and n == 2) else forms[:2]
    dforms = dforms + [fo for fo in forms if fo[0] in ("sket", "sdop")]
    for f, o in dforms:
        sub = "quantum_discord|%s" % f
        okc, g = acc.call(sub, "quantum_discord", lambda: qu.quantum_discord(o, dims, a, b), form=f)
        if not okc:
            continue
        try:
            g = float(np.real(_num(g)))
        except Exception as ex:
            acc.bad(sub, "quantum_discord", "type", "not a scalar: %s" % ex, form=f)
            continue
        cls, mn = _discord_class(g, land, cache)
        if closed is not None and abs(mn - closed) > 1e-6:
            raise AssertionError("harness: discord reference %r disagrees with closed form %r on %s" % (mn, closed, acc.cellkey))
        if cls == "global":
            acc.n += 1
            continue
        if cls == "trap":
            acc.bad(sub, "quantum_discord", "above-min", "returned %r = a minimum of the landscape restricted to the boundary of the (theta, phi) box; minimum over measurement directions is %r" % (g, mn), form=f, root="angle-bound-trap")
            continue
        if a > b:
            # is it the discord with the roles exchanged?
            land2 = R.Discord(ref.ptrace(rho1, dims, [b, a]))
            c2, mn2 = _discord_class(g, land2, {})
            if c2 in ("global", "trap"):
                acc.bad(sub, "quantum_discord", "roles-swapped", "sysa=%d sysb=%d: returned %r = D(%d|%d) [%s]; D(%d|%d) = %r" % (a, b, g, b, a, c2, a, b, mn), form=f, root="sysa>sysb")
                continue
        acc.bad(sub, "quantum_discord", "below-min" if cls == "below" else "mismatch", "returned %r, minimum over projective measurements on B is %r" % (g, mn), form=f, root="sysa>sysb" if a > b else "none")
    mn = cache.get("min", 0.0)
    acc.emit("quantum_discord", nontrivial=mn > 1e-6, outcome="discord:" + ("closed-form" if closed is not None else "generic"))
    # ---- one-way classical information (fixed two qubits) -------------------
    if n == 2 and (a, b) == (0, 1):
        povms = {
            "z": [np.diag([1.0, 0.0]).astype(complex), np.diag([0.0, 1.0]).astype(complex)],
            "gen": [R.bloch_projector(1.1, 0.7), np.eye(2) - R.bloch_projector(1.1, 0.7)],
            "trine": [(2.0 / 3.0) * R.bloch_projector(t, 0.0) for t in (0.0, 2 * np.pi / 3, 4 * np.pi / 3)],
        }
        o = _as(rho1, "dop")
        for pname, povm in povms.items():
            exp = R.owci(rho1, povm)
            qp = [qu.qarray(e) for e in povm]
            acc.val("owci|%s" % pname, "one_way_classical_information", lambda: qu.one_way_classical_information(o, qp), exp, form="dop", povm=pname)
            acc.val("owci|%s|precomp" % pname, "one_way_classical_information", lambda: qu.one_way_classical_information(o, None, precomp_func=True)(qp), exp, form="dop", povm=pname, opt="precomp_func")
        acc.emit("owci", nontrivial=kind not in ("maxmix", "prod", "basis"), outcome="owci")
    return acc.res


def twoq_cells(tier):
    quick = tier == "quick"
    cells = []
    for kind in TWOQ_KINDS_22:
        for a, b in ((0, 1), (1, 0)):
            for tf in ("id", "lu"):
                if tf == "lu" and (a, b) == (1, 0):
                    continue
                for v in range(1 if kind not in ("gen", "r2", "r3", "full") else (3 if quick else 10)):
                    cells.append({"dims": [2, 2], "kind": kind, "v": v, "a": a, "b": b, "tf": tf})
    dl = [(2, 2, 2), (2, 3, 2), (3, 2, 2), (2, 1, 2)] if quick else [(2, 2, 2), (2, 3, 2), (3, 2, 2), (2, 2, 3), (2, 1, 2), (1, 2, 2), (2, 2, 2, 2), (2, 2, 4), (2, 3, 2, 2)]
    for dims in dl:
        qubits = [i for i, d in enumerate(dims) if d == 2]
        for kind in TWOQ_KINDS_N:
            for a, b in itertools.permutations(qubits, 2):
                tfs = ["id"]
                if a < b:
                    tfs.append("lu")
                    if not quick or dims == (2, 3, 2):
                        tfs += [t for t in _tfs(len(dims), quick) if t.startswith("perm")]
                for tf in tfs:
                    cells.append({"dims": list(dims), "kind": kind, "a": a, "b": b, "tf": tf})
    return cells



# --------------------------------------------------------------------------- #
#     table 4: purify, kraus_op, projector, measure, simulate_counts, dephase #
# --------------------------------------------------------------------------- #


def _spectrum_op(D, lam, key):
    return fill("spectrum", (D, D), "complex128", key=("c20", "spec", D) + tuple(key), lam=list(lam))


def _lams(D):
    """named spectra with gaps >= 0.5 or exact repeats"""
    out = {"nondeg": [float(i) - 0.5 * (D - 1) for i in range(D)], "pm1": [1.0 if i % 2 == 0 else -1.0 for i in range(D)]}
    if D >= 3:
        out["deg2"] = [2.0, 2.0] + [float(-i) for i in range(D - 2)]
    return out


def _chan_purify(acc, cell):
    qu = _qu()
    D = int(cell["D"])
    kind = cell["kind"]
    rho = _rho([D], kind, ("purify",))
    o = _as(rho, "dop")
    okc, psi = acc.call("purify", "purify", lambda: qu.purify(o), form="dop")
    if okc:
        v = _dense(psi)
        if v.shape != (D * D, 1):
            acc.bad("purify", "purify", "shape", "shape %s, expected %s" % (v.shape, (D * D, 1)))
        else:
            back = ref.ptrace(v, [D, D], [0])
            other = ref.ptrace(v, [D, D], [1])
            if float(np.max(np.abs(back - rho))) > 1e-8:
                acc.bad("purify", "purify", "mismatch", "tracing out the ancilla of purify(rho) gives max err %.3g (ancilla marginal err vs rho %.3g, vs rho^T %.3g)" % (float(np.max(np.abs(back - rho))), float(np.max(np.abs(other - rho))), float(np.max(np.abs(other - rho.T)))))
            else:
                acc.n += 1
                acc.bound("purify-spectrum", "purify", "S(A)=S(B)", abs(R.entropy(back) - R.entropy(other)) <= 1e-7, "marginals of the purification have different entropies")
    if 1 not in (D,) and kind == "full":
        acc.call("purify|sdop", "purify", lambda: qu.purify(_as(rho, "sdop")), form="sdop")
    acc.emit("purify", nontrivial=kind not in PURE, outcome="purify:rank%d" % _rank(kind, D))


def _kraus_set(dk, K, tp, key):
    """K operators on dimension dk; trace preserving (blocks of an isometry)
    or generic"""
    if tp:
        V = fill("isometry", (K * dk, dk), "complex128", key=("c20", "kraus", dk, K) + tuple(key))
        return [V[i * dk : (i + 1) * dk, :] for i in range(K)]
    return [_g((dk, dk), ("kraus", "gen", dk, K, i) + tuple(key)) for i in range(K)]


def _chan_kraus(acc, cell):
    qu = _qu()
    dims = [int(d) for d in cell["dims"]]
    kind = cell["kind"]
    n = len(dims)
    D = _prod(dims)
    rho = _rho(dims, kind, ("kraus",))
    o = _as(rho, "dop")
    wheres = [None] + [w for w in _ordered_subsets(n, 1, min(n, 2))]
    for where in wheres:
        dk = D if where is None else _prod(dims[i] for i in where)
        if dk == 1:
            continue
        for K, tp in ((1, True), (2, True), (3, False)):
            ek = _kraus_set(dk, K, tp, (str(where),))
            if where is None:
                full = ek
            else:
                full = [ref.embed(e, dims, list(where)) for e in ek]
            exp = sum(e @ rho @ e.conj().T for e in full)
            kw = {} if where is None else {"dims": dims, "where": list(where)}
            tag = "where=%s K=%d tp=%s" % (where, K, tp)
            spellings = [("list", [qu.qarray(e) for e in ek]), ("stack", np.stack(ek, axis=0))]
            if where is not None and len(where) == 1:
                spellings.append(("int", None))
            for sname, ekq in spellings:
                kw2 = dict(kw)
                if sname == "int":
                    kw2["where"] = where[0]
                    ekq = [np.array(e) for e in ek]
                got = acc.mat("kraus_op|%s|%s" % (tag, sname), "kraus_op", lambda: qu.kraus_op(o, ekq, check=tp, **kw2), exp, form="dop", spelling=sname, sub_where="none" if where is None else ("multi" if len(where) > 1 else "single"))
                if got is not None and tp:
                    acc.bound("kraus-trace|%s" % tag, "kraus_op", "trace", abs(np.trace(_dense(got)) - 1) <= 1e-9, "trace not preserved by a trace-preserving set")
            if not tp:
                # documented check: must refuse a set that is not trace preserving
                try:
                    qu.kraus_op(o, [qu.qarray(e) for e in ek], check=True, **kw)
                    acc.bad("kraus_op|%s|check" % tag, "kraus_op", "no-rejection", "check=True accepted a set with sum E^H E != 1", opt="check")
                except np.linalg.LinAlgError as ex:
                    acc.bad("kraus_op|%s|check" % tag, "kraus_op", "exc:LinAlgError", str(ex)[:100], opt="check")
                except ValueError:
                    acc.rej("kraus_op:check:ValueError", "kraus_op|%s|check" % tag)
                except Exception as ex:
                    acc.bad("kraus_op|%s|check" % tag, "kraus_op", "exc:" + type(ex).__name__, str(ex)[:100], opt="check")
        acc.emit("kraus where=%s" % (where,), nontrivial=where is not None and dk < D, outcome="kraus:" + ("full" if where is None else "sub%d" % len(where)))
    # dims without where (and vice versa) is a documented ValueError
    try:
        qu.kraus_op(o, [qu.eye(D)], dims=dims)
        acc.bad("kraus_op|dims-only", "kraus_op", "no-rejection", "dims without where accepted", opt="dims-only")
    except np.linalg.LinAlgError as ex:
        acc.bad("kraus_op|dims-only", "kraus_op", "exc:LinAlgError", str(ex)[:100], opt="dims-only")
    except ValueError:
        acc.rej("kraus_op:dims-without-where:ValueError", "kraus_op|dims-only")
    except Exception as ex:
        acc.bad("kraus_op|dims-only", "kraus_op", "exc:" + type(ex).__name__, str(ex)[:100], opt="dims-only")
    if 1 not in dims and kind == "full":
        acc.call("kraus_op|sdop", "kraus_op", lambda: qu.kraus_op(_as(rho, "sdop"), [qu.eye(D)]), form="sdop")


def _eig_projector(A, lam, tol=1e-9):
    w, v = np.linalg.eigh(A)
    sel = np.abs(w - lam) < tol
    vv = v[:, sel]
    return vv @ vv.conj().T, sel, w, v


def _chan_measure(acc, cell):
    """projector + measure for one observable spectrum"""
    qu = _qu()
    D = int(cell["D"])
    spec = cell["spec"]
    lam = _lams(D)[spec]
    A = _spectrum_op(D, lam, (spec,))
    Aq = qu.qarray(A)
    psi = _nket(_g((D,), ("measure", "psi", D)))
    rho = _full(D, ("measure", "rho", D))
    w, v = np.linalg.eigh(A)
    states = [("ket", psi, _as(psi, "ket")), ("dop", rho, _as(rho, "dop")), ("proj", R.dop(psi), _as(R.dop(psi), "proj")), ("sket", psi, _as(psi, "sket")), ("sdop", rho, _as(rho, "sdop")), ("nd", psi, _as(psi, "nd"))]
    for l in sorted(set(lam)) + [max(lam) + 0.37]:
        P, sel, _, _ = _eig_projector(A, l)
        for ab in (False, True):
            acc.mat("projector|lam=%g|autoblock=%s" % (l, ab), "projector", lambda: qu.projector(Aq, eigenvalue=l, autoblock=ab), P, form="op", autoblock=ab)
        acc.mat("projector|lam=%g|tuple" % l, "projector", lambda: qu.projector((w, qu.qarray(v)), eigenvalue=l), P, form="tuple")
        acc.emit("projector lam=%g" % l, nontrivial=1 < int(sel.sum()) or not sel.any(), outcome="projector:dim%d" % int(sel.sum()))
        if not sel.any():
            continue
        for f, x, o in states:
            isk = x.shape[1] == 1
            prob = float(np.real((x.conj().T @ P @ x)[0, 0])) if isk else float(np.real(np.trace(P @ x)))
            if prob < 1e-3:
                continue
            exp = P @ x / np.sqrt(prob) if isk else P @ x @ P / prob
            for aform, aobj in (("op", Aq), ("tuple", (w, qu.qarray(v)))):
                sub = "measure|%s|lam=%g|A=%s" % (f, l, aform)
                okc, out = acc.call(sub, "measure", lambda: qu.measure(o, aobj, eigenvalue=l), form=f, aform=aform)
                if not okc:
                    continue
                try:
                    res, post = out
                    post = _dense(post)
                except Exception as ex:
                    acc.bad(sub, "measure", "type", "unexpected return %r (%s)" % (type(out), ex), form=f)
                    continue
                if abs(res - l) > 1e-9:
                    acc.bad(sub, "measure", "eigenvalue", "returned eigenvalue %r, asked for %r" % (res, l), form=f)
                elif post.shape != exp.shape or float(np.max(np.abs(post - exp))) > 1e-8:
                    nrm = float(np.real(np.trace(post))) if not isk else float(np.linalg.norm(post))
                    acc.bad(sub, "measure", "mismatch", "post-measurement state differs from P x P / prob (max err %.3g, norm/trace of returned state %.6g)" % (float(np.max(np.abs(post - exp))) if post.shape == exp.shape else -1, nrm), form=f)
                else:
                    acc.n += 1
        acc.emit("measure lam=%g" % l, nontrivial=True, outcome="measure:dim%d" % int(sel.sum()))
    # random outcome path: result must be an eigenvalue of non-zero weight, state collapsed onto its eigenspace
    for f, x, o in states[:2]:
        isk = x.shape[1] == 1
        for sd in range(4):
            np.random.seed(1000 * D + sd)
            sub = "measure|%s|random seed=%d" % (f, sd)
            okc, out = acc.call(sub, "measure", lambda: qu.measure(o, Aq), form=f, opt="random")
            if not okc:
                continue
            res, post = out
            post = _dense(post)
            if min(abs(res - l) for l in lam) > 1e-9:
                acc.bad(sub, "measure", "eigenvalue", "random result %r is not an eigenvalue" % (res,), form=f, opt="random")
                continue
            P, _, _, _ = _eig_projector(A, res)
            prob = float(np.real((x.conj().T @ P @ x)[0, 0])) if isk else float(np.real(np.trace(P @ x)))
            exp = P @ x / np.sqrt(prob) if isk else P @ x @ P / prob
            if prob < 1e-12 or float(np.max(np.abs(post - exp))) > 1e-7:
                acc.bad(sub, "measure", "mismatch", "random outcome %r (prob %.3g): collapsed state wrong" % (res, prob), form=f, opt="random")
            else:
                acc.n += 1
    acc.emit("measure random", nontrivial=True, outcome="measure:random")


ND_TOLS = (None, 1e-9, 1e-6, 1e-3)  # None = the documented default 1e-12
ND_FACTORS = (0.1, 10.0, 1e3, 2e6)  # splitting / tol: <= 1/10 must be grouped, >= 10 must be resolved


def _chan_neardeg(acc, cell):
    """projector / measure on observables with NEARLY degenerate levels at a
    splitting of tol/10 (must be grouped) or >= 10 tol (must be resolved), for
    the documented default tol and explicit values.  Eigenvector conditioning:
    an operator whose eigenbasis is generic is only used for splittings >= 1e-6
    (mixing 1e-16 / splitting); smaller splittings use an exactly diagonal
    operator and the pre-diagonalised tuple form (el, ev), where no
    eigen-solver is involved."""
    qu = _qu()
    D = int(cell["D"])
    tol = ND_TOLS[int(cell["tol"])]
    teff = 1e-12 if tol is None else tol
    sep = teff * ND_FACTORS[int(cell["f"])]
    grouped = sep < teff
    lam = np.array(([1.0, 1.0 + sep, -0.5, -0.5 - 1.5 * sep, 40.0, 40.0 + sep] + [3.0 + k for k in range(max(0, D - 6))])[:D])
    U = fill("unitary", (D, D), "complex128", key=("c20", "neardeg", D))
    kw = {} if tol is None else {"tol": tol}
    psi = _nket(_g((D,), ("neardeg", "psi", D)))
    rho = _full(D, ("neardeg", "rho", D))
    variants = [("op-diag", np.eye(D, dtype=complex), 1e-9), ("tuple", U, 1e-9)]
    if sep >= 1e-6:
        variants.append(("op-generic", U, 1e-6))
    for vname, V, cmp_tol in variants:
        A = (V * lam) @ V.conj().T
        A = (A + A.conj().T) / 2
        if vname == "tuple":
            aobj = lambda: (lam.copy(), qu.qarray(V))
            targets = list(lam)
        else:
            aobj = lambda: qu.qarray(A)
            targets = list(lam) if vname == "op-diag" else list(np.linalg.eigvalsh(A))
        for ti, l in enumerate(targets):
            sel = np.abs(lam - lam[int(np.argmin(np.abs(lam - l)))]) < teff if vname == "op-generic" else np.abs(lam - l) < teff
            P = (V[:, sel]) @ V[:, sel].conj().T
            rank = int(sel.sum())
            sig = dict(form=vname, spectrum="near-degenerate", grouped=grouped, tol="default" if tol is None else "explicit")
            sub = "projector|%s|level %d" % (vname, ti)
            okc, got = acc.call(sub, "projector", lambda: qu.projector(aobj(), eigenvalue=l, **kw), **sig)
            if okc:
                g = _dense(got)
                tr = float(np.real(np.trace(g)))
                if g.shape != P.shape:
                    acc.bad(sub, "projector", "shape", "shape %s" % (g.shape,), **sig)
                elif abs(tr - rank) > 1e-6:
                    acc.bad(sub, "projector", "rank", "trace %.9g, expected rank %d (levels %s, target %.17g, tol %g, splitting %g)" % (tr, rank, lam.tolist(), l, teff, sep), **sig)
                elif float(np.max(np.abs(g @ g - g))) > cmp_tol or float(np.max(np.abs(g - g.conj().T))) > cmp_tol:
                    acc.bad(sub, "projector", "idempotence", "P is not a Hermitian idempotent", **sig)
                elif float(np.max(np.abs(g - P))) > cmp_tol:
                    acc.bad(sub, "projector", "mismatch", "max abs err %.3g vs sum of |v><v| over |el - eigenvalue| < tol" % float(np.max(np.abs(g - P))), **sig)
                else:
                    acc.n += 1
            for f, x in (("ket", psi), ("dop", rho)):
                isk = f == "ket"
                prob = float(np.real((x.conj().T @ P @ x)[0, 0])) if isk else float(np.real(np.trace(P @ x)))
                if prob < 1e-3:
                    continue
                exp = P @ x / np.sqrt(prob) if isk else P @ x @ P / prob
                sub = "measure|%s|%s|level %d" % (f, vname, ti)
                okc, out = acc.call(sub, "measure", lambda: qu.measure(_as(x, f), aobj(), eigenvalue=l, **kw), **sig)
                if not okc:
                    continue
                res, post = out
                post = _dense(post)
                nrm = float(np.linalg.norm(post)) if isk else float(np.real(np.trace(post)))
                if abs(res - l) > 1e-12:
                    acc.bad(sub, "measure", "eigenvalue", "returned %r, asked for %r" % (res, l), **sig)
                elif abs(nrm - 1) > cmp_tol:
                    acc.bad(sub, "measure", "normalisation", "post-measurement state has norm/trace %.9g (collapse probability %.6g, rank %d)" % (nrm, prob, rank), **sig)
                elif post.shape != exp.shape or float(np.max(np.abs(post - exp))) > 10 * cmp_tol:
                    acc.bad(sub, "measure", "mismatch", "post-measurement state differs from P x P / prob by %.3g" % float(np.max(np.abs(post - exp))), **sig)
                else:
                    acc.n += 1
        # random outcomes: whichever level is drawn, the state is the normalised projection onto ITS window
        if vname != "op-generic":
            for sd in range(3):
                np.random.seed(31 * D + sd)
                sub = "measure|ket|%s|random seed=%d" % (vname, sd)
                sig = dict(form=vname, spectrum="near-degenerate", grouped=grouped, tol="default" if tol is None else "explicit", opt="random")
                okc, out = acc.call(sub, "measure", lambda: qu.measure(_as(psi, "ket"), aobj(), **kw), **sig)
                if not okc:
                    continue
                res, post = out
                post = _dense(post)
                if float(np.min(np.abs(lam - res))) > 0:
                    acc.bad(sub, "measure", "eigenvalue", "random result %r is not one of the levels" % (res,), **sig)
                    continue
                sel = np.abs(lam - res) < teff
                P = V[:, sel] @ V[:, sel].conj().T
                prob = float(np.real((psi.conj().T @ P @ psi)[0, 0]))
                if abs(np.linalg.norm(post) - 1) > 1e-9:
                    acc.bad(sub, "measure", "normalisation", "random outcome %r: post-measurement ket has norm %.9g" % (res, float(np.linalg.norm(post))), **sig)
                elif float(np.max(np.abs(post - P @ psi / np.sqrt(prob)))) > 1e-8:
                    acc.bad(sub, "measure", "mismatch", "random outcome %r: collapsed state wrong" % (res,), **sig)
                else:
                    acc.n += 1
        acc.emit("neardeg %s" % vname, nontrivial=True, outcome="neardeg:%s:%s" % (vname, "grouped" if grouped else "resolved"))



def _digits(i, base, n):
    out = []
    for _ in range(n):
        out.append(i % base)
        i //= base
    return "".join(str(d) for d in reversed(out))


def _chan_counts(acc, cell):
    qu = _qu()
    pd, n, kind = int(cell["pd"]), int(cell["n"]), cell["kind"]
    dims = [pd] * n
    D = pd**n
    isk = kind in PURE
    x = _ket(dims, kind, ("counts",)) if isk else _rho(dims, kind, ("counts",))
    probs = (np.abs(x.reshape(-1)) ** 2) if isk else np.real(np.diag(x))
    root = "phys_dim!=2" if pd != 2 else "none"
    forms = [("ket" if isk else "dop", _as(x, "ket" if isk else "dop")), ("sket" if isk else "sdop", _as(x, "sket"))]
    if isk:
        forms.append(("proj", _as(R.dop(x), "proj")))
    for f, o in forms:
        for C, sd in ((1, 3), (64, 7)):
            sub = "simulate_counts|%s|C=%d" % (f, C)
            kw = {} if pd == 2 else {"phys_dim": pd}
            okc, res = acc.call(sub, "simulate_counts", lambda: qu.simulate_counts(o, C, seed=sd, **kw), form=f, root=root)
            if not okc:
                continue
            raw = np.random.default_rng(sd).choice(D, size=C, p=probs / probs.sum())
            exp = {}
            for i in raw:
                k = _digits(int(i), pd, n)
                exp[k] = exp.get(k, 0) + 1
            try:
                res = {str(k): int(c) for k, c in dict(res).items()}
            except Exception as ex:
                acc.bad(sub, "simulate_counts", "type", "unexpected return %r (%s)" % (type(res), ex), form=f, root=root)
                continue
            exp_bin = {}
            for i in raw:
                k = ("{:0>" + str(n) + "b}").format(int(i))
                exp_bin[k] = exp_bin.get(k, 0) + 1
            if sum(res.values()) != C:
                acc.bad(sub, "simulate_counts", "total", "counts sum to %d, asked for %d" % (sum(res.values()), C), form=f, root=root)
            elif res == exp:
                acc.n += 1
            elif pd != 2 and res == exp_bin:
                acc.bad(sub, "simulate_counts", "keys", "outcomes are labelled with the BINARY expansion of the basis index (%s) instead of %d digits in base %d (%s)" % (sorted(res)[:4], n, pd, sorted(exp)[:4]), form=f, root=root)
            elif any(len(k) != n or any(ch not in "0123456789"[:pd] for ch in k) for k in res):
                acc.bad(sub, "simulate_counts", "key-format", "outcome labels %s are not %d digits in base %d" % (sorted(res)[:4], n, pd), form=f, root=root)
            elif any(probs[int(k, pd)] < 1e-14 for k in res):
                acc.bad(sub, "simulate_counts", "support", "an outcome of probability zero was reported", form=f, root=root)
            else:
                acc.bad(sub, "simulate_counts", "mismatch", "counts %s differ from default_rng(seed).choice on the Born probabilities %s" % (sorted(res.items())[:4], sorted(exp.items())[:4]), form=f, root=root)
    acc.emit("simulate_counts", nontrivial=kind != "basis", outcome="counts:pd%d" % pd)


def _chan_dephase(acc, cell):
    qu = _qu()
    D = int(cell["D"])
    kind = cell["kind"]
    rho = _rho([D], kind, ("dephase",))
    forms = [("dop", _as(rho, "dop")), ("sdop", _as(rho, "sdop")), ("nd", _as(rho, "nd"))]
    for f, o in forms:
        for pp in (0.0, 0.3, 1.0):
            for rr in (None, D, 1.0, 1, 2, 0.5):
                if isinstance(rr, int) and rr > D:
                    continue
                sub = "dephase|%s|p=%g|rand_rank=%r" % (f, pp, rr)
                np.random.seed(77 + D)
                okc, got = acc.call(sub, "dephase", lambda: qu.dephase(o, pp, rand_rank=rr), form=f, opt="rand_rank" if rr is not None else "none")
                if not okc:
                    continue
                g = _dense(got)
                uniform = rr is None or (rr == D) or (rr == 1.0)
                if uniform:
                    exp = (1 - pp) * rho + pp * np.eye(D) / D
                    good = g.shape == exp.shape and float(np.max(np.abs(g - exp))) <= 1e-12
                    why = "differs from (1-p) rho + p 1/d"
                else:
                    k = rr if isinstance(rr, int) and not isinstance(rr, bool) else int(rr * D)
                    k = min(max(1, k), D)
                    delta = g - (1 - pp) * rho
                    dg = np.real(np.diag(delta))
                    off = delta - np.diag(np.diag(delta))
                    nz = dg[np.abs(dg) > 1e-13]
                    good = g.shape == rho.shape and float(np.max(np.abs(off))) <= 1e-12 and (pp == 0.0 and len(nz) == 0 or pp > 0 and len(nz) == k and float(np.max(np.abs(nz - pp / k))) <= 1e-12)
                    why = "dephaser is not p/k on exactly k=%d diagonal entries" % k
                if not good:
                    acc.bad(sub, "dephase", "mismatch", why, form=f, opt="rand_rank" if rr is not None else "none")
                else:
                    acc.n += 1
    acc.emit("dephase", nontrivial=True, outcome="dephase")


def chan_cell(cell, common):
    t = cell["t"]
    acc = _Acc(" ".join("%s=%s" % (k, cell[k]) for k in sorted(cell)))
    {"purify": _chan_purify, "kraus": _chan_kraus, "measure": _chan_measure, "counts": _chan_counts, "dephase": _chan_dephase, "neardeg": _chan_neardeg}[t](acc, cell)
    return acc.res


def chan_cells(tier):
    quick = tier == "quick"
    cells = []
    kinds = ("gen", "basis", "r2", "full", "diag", "maxmix", "ghzmix")
    for D in (2, 3, 4, 6) if quick else (2, 3, 4, 5, 6, 8):
        for kind in kinds:
            cells.append({"t": "purify", "D": D, "kind": kind})
            if kind in ("gen", "full", "r2", "diag"):
                cells.append({"t": "dephase", "D": D, "kind": kind})
        for spec in sorted(_lams(D)):
            cells.append({"t": "measure", "D": D, "spec": spec})
        if D >= 3:
            for ti in range(len(ND_TOLS)):
                for fi in range(len(ND_FACTORS)):
                    if (1e-12 if ND_TOLS[ti] is None else ND_TOLS[ti]) * ND_FACTORS[fi] <= 0.05:  # still a near-degenerate doublet
                        cells.append({"t": "neardeg", "D": D, "tol": ti, "f": fi})
    dl = [d for d in dims_lists((1, 2, 3), maxlen=3, maxD=12 if quick else 18) if _prod(d) >= 2]
    if not quick:
        dl += [(2, 2, 2, 2), (2, 1, 2, 3), (4, 2), (2, 4), (4, 4)]
    for dims in dl:
        for kind in ("gen", "full") if quick else ("gen", "full", "r2", "diag"):
            cells.append({"t": "kraus", "dims": list(dims), "kind": kind})
    for pd, ns in ((2, (1, 2, 3, 4)), (3, (1, 2)), (4, (1, 2))):
        for n in ns:
            for kind in ("gen", "ghz", "basis", "prod", "full", "diag", "r2"):
                cells.append({"t": "counts", "pd": pd, "n": n, "kind": kind})
    return cells



# --------------------------------------------------------------------------- #
#   table 5: decompositions, correlations, cross matrix, qid, predicates      #
# --------------------------------------------------------------------------- #


def _herm_op(d, key):
    return fill("hermitian", (d, d), "complex128", key=("c20", "herm", d) + tuple(key))


def _dec_pauli(acc, cell):
    qu = _qu()
    n, kind = int(cell["n"]), cell["kind"]
    dims = [2] * n
    isk = kind in PURE
    x = _ket(dims, kind, ("pdec",)) if isk else _rho(dims, kind, ("pdec",))
    rho = R.dop(x) if isk else x
    names = R.pauli_names(n)
    exp = {nm: complex(np.trace(R.pauli_string(nm) @ rho)) / 2**n for nm in names}
    forms = [("ket", _as(x, "ket")), ("proj", _as(rho, "proj")), ("sket", _as(x, "sket"))] if isk else [("dop", _as(rho, "dop")), ("sdop", _as(rho, "sdop"))]
    for f, o in forms:
        sub = "pauli_decomp|%s" % f
        okc, dec = acc.call(sub, "pauli_decomp", lambda: qu.pauli_decomp(o, mode="c"), form=f)
        if not okc:
            continue
        try:
            dec = {str(k): complex(_num(v)) for k, v in dec.items()}
            order = [abs(v) for v in dec.values()]
        except Exception as ex:
            acc.bad(sub, "pauli_decomp", "type", "unexpected return (%s)" % ex, form=f)
            continue
        if sorted(dec) != sorted(names):
            acc.bad(sub, "pauli_decomp", "keys", "names %s..." % sorted(dec)[:5], form=f)
        elif max(abs(dec[k] - exp[k]) for k in names) > 1e-9:
            k = max(names, key=lambda k: abs(dec[k] - exp[k]))
            acc.bad(sub, "pauli_decomp", "mismatch", "coefficient of %s is %r, Tr(P rho)/2^n = %r" % (k, dec[k], exp[k]), form=f)
        elif float(np.max(np.abs(sum(dec[k] * R.pauli_string(k) for k in names) - rho))) > 1e-9:
            acc.bad(sub, "pauli_decomp", "reconstruction", "sum_P c_P P != rho", form=f)
        elif any(order[i] < order[i + 1] - 1e-12 for i in range(len(order) - 1)):
            acc.bad(sub, "pauli_decomp", "order", "not sorted by descending magnitude", form=f)
        else:
            acc.n += 1
    acc.emit("pauli_decomp", nontrivial=kind != "maxmix", outcome="pauli_decomp:n%d" % n)


def _dec_bell(acc, cell):
    qu = _qu()
    n, kind = int(cell["n"]), cell["kind"]
    dims = [4] * n
    isk = kind in PURE
    x = None if kind == "belldiag" else (_ket(dims, kind, ("bdec",)) if isk else _rho(dims, kind, ("bdec",)))
    if kind == "belldiag":
        isk = False
        pr = fill("positive", (4**n,), "float64", key=("c20", "belldiag", n))
        pr = pr / pr.sum()
        x = sum(pr[i] * R.dop(ref.kron(*[R.BELL[j].reshape(-1, 1) for j in idx])) for i, idx in enumerate(itertools.product(range(4), repeat=n)))
    rho = R.dop(x) if isk else x
    exp = {}
    for idx in itertools.product(range(4), repeat=n):
        b = ref.kron(*[R.BELL[j].reshape(-1, 1) for j in idx])
        exp["".join(str(j) for j in idx)] = complex((b.conj().T @ rho @ b)[0, 0])
    forms = [("ket", _as(x, "ket"))] if isk else [("dop", _as(rho, "dop"))]
    for f, o in forms:
        sub = "bell_decomp|%s" % f
        okc, dec = acc.call(sub, "bell_decomp", lambda: qu.bell_decomp(o, mode="c"), form=f)
        if not okc:
            continue
        dec = {str(k): complex(_num(v)) for k, v in dec.items()}
        if sorted(dec) != sorted(exp):
            acc.bad(sub, "bell_decomp", "keys", "names %s..." % sorted(dec)[:5], form=f)
        elif max(abs(dec[k] - exp[k]) for k in exp) > 1e-9:
            k = max(exp, key=lambda k: abs(dec[k] - exp[k]))
            acc.bad(sub, "bell_decomp", "mismatch", "weight of %s is %r, <bell|rho|bell> = %r" % (k, dec[k], exp[k]), form=f)
        elif abs(sum(dec.values()) - 1) > 1e-9:
            acc.bad(sub, "bell_decomp", "completeness", "weights sum to %r" % sum(dec.values()), form=f)
        else:
            acc.n += 1
    acc.emit("bell_decomp", nontrivial=True, outcome="bell_decomp:n%d" % n)


def _dec_corr(acc, cell):
    qu = _qu()
    dims = [int(d) for d in cell["dims"]]
    kind = cell["kind"]
    n = len(dims)
    isk = kind in PURE
    x = _ket(dims, kind, ("corr",)) if isk else _rho(dims, kind, ("corr",))
    rho = R.dop(x) if isk else x
    forms = [("ket", _as(x, "ket")), ("proj", _as(rho, "proj"))] if isk else [("dop", _as(rho, "dop"))]
    if 1 not in dims:
        forms.append(("sket", _as(x, "sket")) if isk else ("sdop", _as(rho, "sdop")))
    allq = all(d == 2 for d in dims)
    for a, b in itertools.permutations(range(n), 2):
        if dims[a] == 1 or dims[b] == 1:
            continue
        A, B = _herm_op(dims[a], ("A", a)), _herm_op(dims[b], ("B", b))
        ea, eb = ref.embed(A, dims, [a]), ref.embed(B, dims, [b])
        exp = float(np.real(np.trace(ea @ eb @ rho) - np.trace(ea @ rho) * np.trace(eb @ rho)))
        for f, o in forms:
            for sparse in (None, True, False):
                for pre in (False, True):
                    if pre and sparse is not None:
                        continue
                    Aq, Bq = (qu.qarray(A), qu.qarray(B)) if sparse is not True else (_sp().csr_matrix(A), _sp().csr_matrix(B))
                    sub = "correlation|%s|%d,%d|sparse=%s|pre=%s" % (f, a, b, sparse, pre)
                    if pre:
                        fn = lambda: qu.correlation(None, Aq, Bq, a, b, dims=dims, precomp_func=True)(o)
                    else:
                        fn = lambda: qu.correlation(o, Aq, Bq, a, b, dims=dims, sparse=sparse)
                    acc.val(sub, "correlation", fn, exp, form=f)
            if allq:
                acc.val("correlation|%s|%d,%d|nodims" % (f, a, b), "correlation", lambda: qu.correlation(o, qu.qarray(A), qu.qarray(B), a, b), exp, form=f)
        acc.emit("correlation %d,%d" % (a, b), nontrivial=abs(exp) > 1e-9, outcome="correlation:" + ("rev" if a > b else "fwd"))
    if allq and n >= 2:
        o = forms[0][1]
        for a, b in itertools.permutations(range(n), 2):
            for ss in (("xx", "yy", "zz"), ("xz", "zy", "yx", "ix")):
                exps = []
                for s1, s2 in ss:
                    ea, eb = ref.embed(R.PAULIS[s1.upper()], dims, [a]), ref.embed(R.PAULIS[s2.upper()], dims, [b])
                    exps.append(float(np.real(np.trace(ea @ eb @ rho) - np.trace(ea @ rho) * np.trace(eb @ rho))))
                tag = "pauli_correlations|%d,%d|%s" % (a, b, "".join(ss))
                okc, got = acc.call(tag, "pauli_correlations", lambda: qu.pauli_correlations(o, ss=ss, sysa=a, sysb=b), form=forms[0][0])
                if okc:
                    try:
                        g = [float(np.real(_num(v))) for v in got]
                    except Exception as ex:
                        g = None
                        acc.bad(tag, "pauli_correlations", "type", str(ex)[:100])
                    if g is not None:
                        if len(g) != len(exps) or max(abs(u - v) for u, v in zip(g, exps)) > 1e-9:
                            acc.bad(tag, "pauli_correlations", "mismatch", "got %s, reference %s" % (g, exps))
                        else:
                            acc.n += 1
                acc.val(tag + "|sum_abs", "pauli_correlations", lambda: qu.pauli_correlations(o, ss=ss, sysa=a, sysb=b, sum_abs=True), sum(abs(v) for v in exps), opt="sum_abs")
                acc.val(tag + "|sum_abs|pre", "pauli_correlations", lambda: qu.pauli_correlations(o, ss=ss, sysa=a, sysb=b, sum_abs=True, precomp_func=True)(o), sum(abs(v) for v in exps), opt="sum_abs+precomp")
                okc, fns = acc.call(tag + "|pre", "pauli_correlations", lambda: [fn(o) for fn in qu.pauli_correlations(o, ss=ss, sysa=a, sysb=b, precomp_func=True)], opt="precomp")
                if okc:
                    g = [float(np.real(_num(v))) for v in fns]
                    if max(abs(u - v) for u, v in zip(g, exps)) > 1e-9:
                        acc.bad(tag + "|pre", "pauli_correlations", "mismatch", "got %s, reference %s" % (g, exps), opt="precomp")
                    else:
                        acc.n += 1
        acc.emit("pauli_correlations", nontrivial=True, outcome="pauli_correlations")


def _reuse_seq(dims, kind):
    """states a precomputed function is called on, in this order: the cell's
    state, two states of other kinds, then the first two AGAIN (a returned
    function must be reusable and carry no state between calls)"""
    others = [k for k in ("ghz", "full", "gen") if k != kind][:2]
    names = [kind, others[0], others[1], kind, others[0]]
    out = []
    for k, nm in enumerate(names):
        isk = nm in PURE
        x = _ket(dims, nm, ("reuse",)) if isk else _rho(dims, nm, ("reuse",))
        out.append(("%d:%s" % (k, nm), _as(x, "ket" if isk else "dop"), R.dop(x) if isk else x))
    return out


def _corr_ref(rho, dims, A, a, B, b):
    ea, eb = ref.embed(A, dims, [a]), ref.embed(B, dims, [b])
    return float(np.real(np.trace(ea @ eb @ rho) - np.trace(ea @ rho) * np.trace(eb @ rho)))


def _seq_check(acc, sub, entry, fn, seq, exps, tol=1e-9, **extra):
    """call ONE returned function on every state of the sequence"""
    for k, ((nm, o, _), e) in enumerate(zip(seq, exps)):
        call = "first" if k == 0 else "repeat"
        st = "%s|call %s" % (sub, nm)
        try:
            g = fn(o)
            if isinstance(g, (tuple, list)):
                g = [float(np.real(_num(v))) for v in g]
                good = len(g) == len(e) and all(abs(u - v) <= tol * max(1.0, abs(v)) for u, v in zip(g, e))
            else:
                g = float(np.real(_num(g)))
                good = abs(g - e) <= tol * max(1.0, abs(e))
        except Exception as ex:
            acc.bad(st, entry, "exc:" + type(ex).__name__, "call %d of the returned function raised %s: %s" % (k, type(ex).__name__, str(ex)[:120]), call=call, **extra)
            continue
        if not good:
            acc.bad(st, entry, "mismatch", "call %d of the returned function gave %r, direct definition %r" % (k, g, e), call=call, **extra)
        else:
            acc.n += 1


def _dec_reuse(acc, cell):
    """every precomp_func=True entry point: the returned function (or tuple
    of functions) is called five times (three different states, two of them
    twice), functions built for different arguments are all built BEFORE any
    is called, and every call must equal the direct definition"""
    qu = _qu()
    dims = [int(d) for d in cell["dims"]]
    kind = cell["kind"]
    n = len(dims)
    seq = _reuse_seq(dims, kind)
    allq = all(d == 2 for d in dims)
    pairs = [(a, b) for a, b in itertools.permutations(range(n), 2) if dims[a] > 1 and dims[b] > 1]
    # ---- correlation -------------------------------------------------------
    built = []
    for a, b in pairs:
        A, B = _herm_op(dims[a], ("A", a)), _herm_op(dims[b], ("B", b))
        for sparse in (None, True):
            Aq, Bq = (qu.qarray(A), qu.qarray(B)) if not sparse else (_sp().csr_matrix(A), _sp().csr_matrix(B))
            okc, fn = acc.call("correlation|%d,%d|sparse=%s|build" % (a, b, sparse), "correlation", lambda: qu.correlation(None, Aq, Bq, a, b, dims=dims, sparse=sparse, precomp_func=True), form="none", opt="precomp")
            if okc:
                built.append(("correlation|%d,%d|sparse=%s" % (a, b, sparse), fn, [_corr_ref(r, dims, A, a, B, b) for _, _, r in seq]))
    for sub, fn, exps in built:
        _seq_check(acc, sub, "correlation", fn, seq, exps, opt="precomp")
    # direct evaluation on every state of the sequence as well
    for a, b in pairs[:2]:
        A, B = _herm_op(dims[a], ("A", a)), _herm_op(dims[b], ("B", b))
        for nm, o, r in seq[:3]:
            acc.val("correlation|%d,%d|direct|%s" % (a, b, nm), "correlation", lambda: qu.correlation(o, qu.qarray(A), qu.qarray(B), a, b, dims=dims), _corr_ref(r, dims, A, a, B, b))
    acc.emit("correlation reuse", nontrivial=True, outcome="reuse:correlation")
    # ---- pauli_correlations: all four option combinations ---------------------
    if allq and n >= 2:
        built = []
        for a, b in pairs:
            for ss in (("xx", "yy", "zz"), ("xz", "zy", "yx", "ix")):
                exps = [[_corr_ref(r, dims, R.PAULIS[s1.upper()], a, R.PAULIS[s2.upper()], b) for s1, s2 in ss] for _, _, r in seq]
                tag = "pauli_correlations|%d,%d|%s" % (a, b, "".join(ss))
                for k, (nm, o, r) in enumerate(seq[:3]):
                    acc.val("%s|direct|sum_abs|%s" % (tag, nm), "pauli_correlations", lambda: qu.pauli_correlations(o, ss=ss, sysa=a, sysb=b, sum_abs=True), sum(abs(v) for v in exps[k]), opt="sum_abs")
                    okc, g = acc.call("%s|direct|%s" % (tag, nm), "pauli_correlations", lambda: qu.pauli_correlations(o, ss=ss, sysa=a, sysb=b), opt="none")
                    if okc:
                        g = [float(np.real(_num(v))) for v in g]
                        if len(g) != len(exps[k]) or max(abs(u - v) for u, v in zip(g, exps[k])) > 1e-9:
                            acc.bad("%s|direct|%s" % (tag, nm), "pauli_correlations", "mismatch", "got %s, reference %s" % (g, exps[k]), opt="none")
                        else:
                            acc.n += 1
                okc, fsum = acc.call(tag + "|sum_abs+precomp|build", "pauli_correlations", lambda: qu.pauli_correlations(seq[0][1], ss=ss, sysa=a, sysb=b, sum_abs=True, precomp_func=True), opt="sum_abs+precomp")
                if okc:
                    built.append((tag + "|sum_abs+precomp", fsum, [sum(abs(v) for v in e) for e in exps], "sum_abs+precomp"))
                okc, fns = acc.call(tag + "|precomp|build", "pauli_correlations", lambda: qu.pauli_correlations(seq[0][1], ss=ss, sysa=a, sysb=b, precomp_func=True), opt="precomp")
                if okc:
                    try:
                        fns = tuple(fns)
                        if len(fns) != len(ss):
                            raise TypeError("expected %d functions, got %d" % (len(ss), len(fns)))
                        built.append((tag + "|precomp", (lambda fs: (lambda st: [f(st) for f in fs]))(fns), exps, "precomp"))
                        # the same functions again, in reverse order
                        built.append((tag + "|precomp-reversed", (lambda fs: (lambda st: [f(st) for f in reversed(fs)][::-1]))(fns), exps, "precomp"))
                    except Exception as ex:
                        acc.bad(tag + "|precomp|build", "pauli_correlations", "type", str(ex)[:120], opt="precomp")
        for sub, fn, exps, opt in built:
            _seq_check(acc, sub, "pauli_correlations", fn, seq, exps, opt=opt)
        acc.emit("pauli_correlations reuse", nontrivial=True, outcome="reuse:pauli_correlations")
    # ---- qid ---------------------------------------------------------------------
    inds = [i for i in range(n) if dims[i] == 2]
    if inds:
        exps = []
        for _, _, r in seq:
            e = []
            for i in inds:
                t2 = 0.0
                for s_ in "XYZ":
                    op = ref.embed(R.PAULIS[s_], dims, [i])
                    t2 += float(np.linalg.svd(r @ op - op @ r, compute_uv=False)[0]) ** 2
                e.append(t2)
            exps.append(e)
        built = []
        for sc in (True, False):
            okc, fn = acc.call("qid|sparse_comp=%s|build" % sc, "qid", lambda: qu.qid(None, dims, inds, precomp_func=True, sparse_comp=sc), opt="precomp")
            if okc:
                built.append(("qid|sparse_comp=%s" % sc, fn))
        for sub, fn in built:
            _seq_check(acc, sub, "qid", fn, seq, exps, tol=1e-7, opt="precomp")
        acc.emit("qid reuse", nontrivial=True, outcome="reuse:qid")
    # ---- one_way_classical_information (two qubits) ----------------------------------
    if dims == [2, 2]:
        povms = [
            ("z", [np.diag([1.0, 0.0]).astype(complex), np.diag([0.0, 1.0]).astype(complex)]),
            ("gen", [R.bloch_projector(1.1, 0.7), np.eye(2) - R.bloch_projector(1.1, 0.7)]),
            ("trine", [(2.0 / 3.0) * R.bloch_projector(t, 0.0) for t in (0.0, 2 * np.pi / 3, 4 * np.pi / 3)]),
        ]
        pseq = [povms[0], povms[1], povms[2], povms[0], povms[1]]
        fns = []
        for nm, o, r in seq[:3]:
            if o.shape[1] == 1:
                o = _as(r, "dop")
            okc, fn = acc.call("owci|%s|build" % nm, "one_way_classical_information", lambda: qu.one_way_classical_information(o, None, precomp_func=True), opt="precomp_func")
            if okc:
                fns.append((nm, fn, r))
        for k, (pn, povm) in enumerate(pseq):  # round-robin over the three closures
            for nm, fn, r in fns:
                acc.val("owci|%s|call %d:%s" % (nm, k, pn), "one_way_classical_information", lambda: fn([qu.qarray(e) for e in povm]), R.owci(r, povm), opt="precomp_func", call="first" if k == 0 else "repeat")
        acc.emit("owci reuse", nontrivial=True, outcome="reuse:owci")


def _ent_ref(name, rho, dims):
    """reference bipartite function on a density operator over two blocks"""
    if name == "logneg":
        return R.logneg(rho, dims, [0])
    if name == "negativity":
        return R.negativity(rho, dims, [0])
    if name == "mutinf":
        return R.mutinf(rho, dims, [0])
    if name == "concurrence":
        return R.concurrence(rho)
    raise KeyError(name)


def _dec_ecm(acc, cell):
    qu = _qu()
    n, kind, blc, fname = int(cell["n"]), cell["kind"], int(cell["blc"]), cell["fn"]
    dims = [2] * n
    isk = kind in PURE
    x = _ket(dims, kind, ("ecm",)) if isk else _rho(dims, kind, ("ecm",))
    rho = R.dop(x) if isk else x
    fn = getattr(qu, fname)
    nb = n // blc
    db = 2**blc
    exp = np.full((nb, nb), np.nan)
    blocks = [list(range(i * blc, (i + 1) * blc)) for i in range(nb)]
    for i in range(nb):
        for j in range(i, nb):
            if i == j:
                ra = ref.ptrace(rho, dims, blocks[i])
                w, v = np.linalg.eigh(R.herm(ra))
                w = np.clip(w, 0, None)
                pur = sum(np.sqrt(w[k]) * np.kron(v[:, k], np.eye(db)[k]) for k in range(db))
                e = _ent_ref(fname, R.dop(pur), [db, db]) / blc
            else:
                e = _ent_ref(fname, ref.ptrace(rho, dims, blocks[i] + blocks[j]), [db, db]) / blc
            exp[i, j] = exp[j, i] = e
    o = _as(x, "ket") if isk else _as(rho, "dop")
    f = "ket" if isk else "dop"
    path = "pure-bipartition" if (isk and 2 * blc == n) else "pairs"
    for self_ent in (True, False):
        for up in (False, True):
            sub = "ent_cross_matrix|self=%s|upscale=%s" % (self_ent, up)
            e2 = exp.copy()
            if not self_ent:
                e2[np.arange(nb), np.arange(nb)] = np.nan
            if up:
                e3 = np.full((n, n), np.nan)
                for i in range(nb):
                    for j in range(nb):
                        e3[i * blc : (i + 1) * blc, j * blc : (j + 1) * blc] = e2[i, j]
                e2 = e3
            okc, got = acc.call(sub, "ent_cross_matrix", lambda: qu.ent_cross_matrix(o, sz_blc=blc, ent_fn=fn, calc_self_ent=self_ent, upscale=up), form=f, path=path)
            if not okc:
                continue
            g = np.asarray(got, dtype=float)
            if g.shape != e2.shape:
                acc.bad(sub, "ent_cross_matrix", "shape", "shape %s, expected %s" % (g.shape, e2.shape), form=f, path=path)
            elif not np.array_equal(np.isnan(g), np.isnan(e2)):
                acc.bad(sub, "ent_cross_matrix", "nan-pattern", "NaN pattern differs", form=f, path=path)
            elif np.nanmax(np.abs(g - e2), initial=0.0) > TOL_SQRT:
                acc.bad(sub, "ent_cross_matrix", "mismatch", "max err %.3g (ent_fn=%s)" % (np.nanmax(np.abs(g - e2)), fname), form=f, path=path, ent_fn=fname)
            else:
                acc.n += 1
    acc.emit("ent_cross_matrix", nontrivial=nb > 1, outcome="ecm:%s:%s" % (path, fname))


def _dec_qid(acc, cell):
    qu = _qu()
    dims = [int(d) for d in cell["dims"]]
    kind = cell["kind"]
    n = len(dims)
    isk = kind in PURE
    x = _ket(dims, kind, ("qid",)) if isk else _rho(dims, kind, ("qid",))
    rho = R.dop(x) if isk else x
    inds = [i for i in range(n) if dims[i] == 2]  # Pauli probes: qubit sites only
    if not inds:
        return
    exp2, expf = [], []
    for i in inds:
        t2 = tf_ = 0.0
        for s_ in "XYZ":
            op = ref.embed(R.PAULIS[s_], dims, [i])
            c = rho @ op - op @ rho
            t2 += float(np.linalg.svd(c, compute_uv=False)[0]) ** 2
            tf_ += float(np.sum(np.abs(c) ** 2))
        exp2.append(t2)
        expf.append(tf_)
    forms = [("ket", _as(x, "ket")), ("proj", _as(rho, "proj")), ("sket", _as(x, "sket"))] if isk else [("dop", _as(rho, "dop")), ("sdop", _as(rho, "sdop"))]
    for f, o in forms:
        for sc in (True, False):
            for variant in ("default", "fro", "int", "precomp"):
                sub = "qid|%s|sparse_comp=%s|%s" % (f, sc, variant)
                exp = exp2
                if variant == "default":
                    fn = lambda: qu.qid(o, dims, inds, sparse_comp=sc)
                elif variant == "fro":
                    if f in ("sdop",):
                        continue
                    exp = [3.0 * v for v in expf]
                    fn = lambda: qu.qid(o, dims, inds, sparse_comp=sc, norm_func=lambda m: float(np.sqrt(np.sum(np.abs(_dense(m)) ** 2))), power=2, coeff=3)
                elif variant == "int":
                    exp = exp2[-1:]
                    fn = lambda: qu.qid(o, dims, inds[-1], sparse_comp=sc)
                else:
                    fn = lambda: qu.qid(None, dims, inds, sparse_comp=sc, precomp_func=True)(o)
                okc, got = acc.call(sub, "qid", fn, form=f, sparse_comp=sc)
                if not okc:
                    continue
                try:
                    g = [float(np.real(_num(v))) for v in got]
                except Exception as ex:
                    acc.bad(sub, "qid", "type", str(ex)[:100], form=f)
                    continue
                if len(g) != len(exp) or max(abs(u - v) for u, v in zip(g, exp)) > 1e-7:
                    acc.bad(sub, "qid", "mismatch", "got %s, reference %s" % (g, exp), form=f, sparse_comp=sc)
                else:
                    acc.n += 1
    acc.emit("qid", nontrivial=True, outcome="qid")


def _dec_pred(acc, cell):
    """is_degenerate / is_eigenvector / page_entropy on inputs with a >= 40x
    margin to their thresholds"""
    qu = _qu()
    D = int(cell["D"])
    specs = {
        "nondeg": [float(i) for i in range(D)],
        "onepair": [0.0, 0.0] + [float(i) for i in range(1, D - 1)],
        "alldeg": [1.0] * D,
        "twopairs": ([0.0, 0.0, 1.0, 1.0] + [float(i) for i in range(2, D - 2)]) if D >= 4 else [0.0] * D,
    }
    for name, lam in sorted(specs.items()):
        lam = sorted(lam)
        exp = sum(1 for i in range(len(lam) - 1) if lam[i + 1] == lam[i])
        if lam[-1] == lam[0]:
            # zero spread: the relative tolerance is 0 and '<' never holds - documented as relative to the mean spacing; only the 1-d form is exact
            continue
        A = _spectrum_op(D, lam, ("degen", name))
        acc.val("is_degenerate|%s|op" % name, "is_degenerate", lambda: qu.is_degenerate(qu.qarray(A)), exp, form="op")
        acc.val("is_degenerate|%s|evals" % name, "is_degenerate", lambda: qu.is_degenerate(np.array(lam)), exp, form="evals")
    acc.emit("is_degenerate", nontrivial=True, outcome="is_degenerate")
    A = _herm_op(D, ("eigvec",))
    A = A / np.linalg.norm(A, 2)
    w, v = np.linalg.eigh(A)
    Aq = qu.qarray(A)
    for k in range(D):
        acc.val("is_eigenvector|true|%d" % k, "is_eigenvector", lambda: bool(qu.is_eigenvector(qu.qarray(v[:, [k]]), Aq, tol=1e-10)), True, form="op")
        acc.val("is_eigenvector|true-sparse|%d" % k, "is_eigenvector", lambda: bool(qu.is_eigenvector(qu.qarray(v[:, [k]]), _sp().csr_matrix(A), tol=1e-10)), True, form="sparse-op")
    mix = (v[:, [0]] + v[:, [D - 1]]) / np.sqrt(2)  # variance ((w_max - w_min)/2)^2 >= 1e-3
    if (w[-1] - w[0]) ** 2 / 4 > 1e-3:
        acc.val("is_eigenvector|false", "is_eigenvector", lambda: bool(qu.is_eigenvector(qu.qarray(mix), Aq)), False, form="op")
    d = np.diag(np.arange(D, dtype=float)).astype(complex)
    e = np.zeros((D, 1), dtype=complex)
    e[D // 2] = 1.0
    acc.val("is_eigenvector|basis-default-tol", "is_eigenvector", lambda: bool(qu.is_eigenvector(qu.qarray(e), qu.qarray(d))), True, form="op")
    acc.emit("is_eigenvector", nontrivial=True, outcome="is_eigenvector")
    for m in range(1, D + 1):
        for nn in range(1, 65 // max(m, 1) + 1):
            if m * nn < 2:
                continue
            acc.val("page_entropy|%d|%d" % (m, m * nn), "page_entropy", lambda: qu.page_entropy(m, m * nn), R.page(m, nn), form="int")
    acc.emit("page_entropy", nontrivial=True, outcome="page_entropy")


def decomp_cell(cell, common):
    t = cell["t"]
    acc = _Acc(" ".join("%s=%s" % (k, cell[k]) for k in sorted(cell)))
    {"pauli": _dec_pauli, "bell": _dec_bell, "corr": _dec_corr, "ecm": _dec_ecm, "qid": _dec_qid, "pred": _dec_pred, "reuse": _dec_reuse}[t](acc, cell)
    return acc.res


def decomp_cells(tier):
    quick = tier == "quick"
    cells = []
    for n in (1, 2, 3) if quick else (1, 2, 3, 4):
        for kind in ("gen", "ghz", "basis", "full", "r2", "diag", "maxmix"):
            cells.append({"t": "pauli", "n": n, "kind": kind})
    for n in (1, 2):
        for kind in ("gen", "full", "belldiag", "basis"):
            cells.append({"t": "bell", "n": n, "kind": kind})
    dl = [d for d in dims_lists((1, 2, 3), maxlen=3, maxD=12 if quick else 27, minlen=2) if sum(1 for x in d if x > 1) >= 2]
    if not quick:
        dl += [(2, 2, 2, 2), (2, 4), (4, 3)]
    for dims in dl:
        for kind in ("gen", "prod", "full") if quick else ("gen", "prod", "ghz", "full", "r2", "prodmix"):
            cells.append({"t": "corr", "dims": list(dims), "kind": kind})
        for kind in ("gen", "full"):
            cells.append({"t": "qid", "dims": list(dims), "kind": kind})
        for kind in ("gen", "full", "ghz"):
            cells.append({"t": "reuse", "dims": list(dims), "kind": kind})
    for n in (2, 3, 4) if quick else (2, 3, 4, 5, 6):
        for kind in ("gen", "ghz", "full", "r2"):
            if n >= 5 and kind == "full":
                continue
            for blc in (1, 2, 3):
                if blc > n or (blc == 3 and n < 6):
                    continue
                for fn in ("logneg", "negativity", "mutinf") + (("concurrence",) if blc == 1 else ()):
                    cells.append({"t": "ecm", "n": n, "kind": kind, "blc": blc, "fn": fn})
    for D in (2, 3, 4, 6, 8):
        cells.append({"t": "pred", "D": D})
    return cells


# --------------------------------------------------------------------------- #
#                 table 6: lazy partial-trace linear operators                #
# --------------------------------------------------------------------------- #


def lazy_cell(cell, common):
    qu = _qu()
    from quimb.linalg.approx_spectral import lazy_ptr_linop, lazy_ptr_ppt_linop

    dims = [int(d) for d in cell["dims"]]
    kind = cell["kind"]
    n = len(dims)
    acc = _Acc("dims=%s kind=%s" % (tuple(dims), kind))
    psi = _ket(dims, kind, ("lazy",))
    rho = R.dop(psi)
    forms = [("ket", _as(psi, "ket")), ("nd", _as(psi, "nd"))]
    for sa in _ordered_subsets(n, 1, n):
        exp = ref.ptrace(rho, dims, list(sa))  # subsystems in the order given
        dA = exp.shape[0]
        vec = _g((dA,), ("lazy", "vec", dA))
        blk = _g((dA, 2), ("lazy", "blk", dA))
        for f, o in forms:
            tag = "lazy_ptr_linop|%s|sysa=%s" % (f, sa)
            okc, L = acc.call(tag, "lazy_ptr_linop", lambda: lazy_ptr_linop(o, dims, list(sa) if len(sa) > 1 else sa[0]), form=f)
            if not okc:
                continue
            srt = "sorted" if list(sa) == sorted(sa) else "unsorted"
            if tuple(L.shape) != (dA, dA):
                acc.bad(tag, "lazy_ptr_linop", "shape", "shape %s, expected %s" % (L.shape, (dA, dA)), form=f, order=srt)
                continue
            acc.mat(tag + "|dense", "lazy_ptr_linop", lambda: L.to_dense(), exp, form=f, order=srt)
            acc.mat(tag + "|matvec", "lazy_ptr_linop", lambda: np.asarray(L @ vec).reshape(-1), exp @ vec, form=f, order=srt)
            acc.mat(tag + "|matmat", "lazy_ptr_linop", lambda: np.asarray(L @ blk), exp @ blk, form=f, order=srt)
            acc.mat(tag + "|rmatvec", "lazy_ptr_linop", lambda: np.asarray(L.H @ vec).reshape(-1), exp.conj().T @ vec, form=f, order=srt)
            acc.mat(tag + "|matvec-again", "lazy_ptr_linop", lambda: np.asarray(L @ vec).reshape(-1), exp @ vec, form=f, order=srt)
        acc.emit("lazy_ptr sysa=%s" % (sa,), nontrivial=1 < dA < _prod(dims), outcome="lazy_ptr:" + ("sorted" if list(sa) == sorted(sa) else "unsorted"))
    for sa, sb in _ordered_pairs(n) if n >= 2 else []:
        rab, dab, aloc = R.reduced_pair(rho, dims, sa, sb)
        exp = ref.partial_transpose(rab, dab, aloc)
        dAB = exp.shape[0]
        vec = _g((dAB,), ("lazy", "vec", dAB))
        for f, o in forms[:1]:
            tag = "lazy_ptr_ppt_linop|%s|sysa=%s sysb=%s" % (f, sa, sb)
            okc, L = acc.call(tag, "lazy_ptr_ppt_linop", lambda: lazy_ptr_ppt_linop(o, dims, list(sa), list(sb)), form=f)
            if not okc:
                continue
            if tuple(L.shape) != (dAB, dAB):
                acc.bad(tag, "lazy_ptr_ppt_linop", "shape", "shape %s, expected %s" % (L.shape, (dAB, dAB)), form=f)
                continue
            acc.mat(tag + "|dense", "lazy_ptr_ppt_linop", lambda: L.to_dense(), exp, form=f)
            acc.mat(tag + "|matvec", "lazy_ptr_ppt_linop", lambda: np.asarray(L @ vec).reshape(-1), exp @ vec, form=f)
            # the quantity it exists for: trace norm of the partial transpose
            acc.val(tag + "|logneg", "lazy_ptr_ppt_linop", lambda: float(np.log2(np.sum(np.abs(np.linalg.eigvalsh(R.herm(L.to_dense())))))), float(np.log2(R.pt_norm(rab, dab, aloc))), form=f)
        acc.emit("lazy_ppt sysa=%s sysb=%s" % (sa, sb), nontrivial=True, outcome="lazy_ppt:" + ("all" if len(sa) + len(sb) == n else "traced"))
    return acc.res


def lazy_cells(tier):
    quick = tier == "quick"
    cells = []
    dl = [d for d in dims_lists((1, 2, 3), maxlen=3, maxD=18, minlen=2)] if quick else [d for d in dims_lists((1, 2, 3, 4), maxlen=3, maxD=36, minlen=2)] + [(2, 2, 2, 2), (2, 1, 3, 2)]
    for dims in dl:
        if _prod(dims) < 2:
            continue
        for kind in ("gen", "ghz") if quick else ("gen", "ghz", "prod", "real"):
            cells.append({"dims": list(dims), "kind": kind})
    return cells


# TABLES is extended below
TABLES = [("bip", "bip_cell", bip_cells), ("pair", "pair_cell", pair_cells), ("twoq", "twoq_cell", twoq_cells), ("chan", "chan_cell", chan_cells), ("decomp", "decomp_cell", decomp_cells), ("lazy", "lazy_cell", lazy_cells)]


def _cost(cell):
    d = cell.get("dims")
    D = _prod(d) if d is not None else int(cell.get("D", 4))
    n = len(d) if d is not None else 1
    return D * D * (4 ** n)


def run(ctx):
    quick = ctx.tier == "quick"
    only = ctx.opts.get("only")
    ctx.rule = (
        "every cell of the tables bip / pair / twoq / chan / decomp / lazy is evaluated on the real quimb.calc routine and compared with a "
        "plain-numpy textbook definition; a case is (table, dims list, state kind, transformation (identity / fixed local unitaries / subsystem "
        "relabelling), representation (ket / projector / density operator / sparse / ndarray), ordered subsystem choice, options); it is "
        "non-trivial when both sides of the chosen bipartition have dimension > 1 (bip), the two states differ in kind (pair), or the "
        "routine's option/structure axis takes a non-default value"
    )
    ctx.bounds = {
        "dims_alphabet": "[1,2,3,4], <= 3 subsystems, total dim <= 16" if quick else "[1..5] <= 3 subsystems total dim <= 36; [1,2,3] x 4 subsystems total dim <= 24",
        "subsystem_choices": "every ordered non-empty proper subset (bip); every ordered disjoint pair of ordered subsets (mutinf_subsys / logneg_subsys / lazy ppt)",
        "transformations": "identity, one fixed generic unitary per subsystem, " + ("cyclic shift and reversal relabelling" if quick else "every relabelling (<= 3 subsystems); cyclic shift, reversal and one transposition (4 subsystems)"),
        "state_kinds_pure": list(PURE),
        "state_kinds_mixed": list(MIXED),
        "pair": "total dim in %s; all ordered pairs of %d state kinds (%s) x global unitary on/off x ket/dop/sparse forms x squared / isherm" % ("(2,3,4,6,8)" if quick else "(2,3,4,5,6,8,9,12,16)", len(PAIR_KINDS), ",".join(PAIR_KINDS)),
        "twoq": "dims (2,2) x %d kinds (generic kinds in %d members) and %s x 4 kinds; every ordered pair of qubit subsystems; identity / local unitaries / relabellings" % (len(TWOQ_KINDS_22), 3 if quick else 10, "(2,2,2),(2,3,2),(3,2,2),(2,1,2)" if quick else "9 dims lists up to 4 subsystems"),
        "chan": "purify/dephase/measure on total dim %s; kraus_op on every dims list over [1,2,3] with <= 3 subsystems and total dim <= %d, every ordered 'where' of size <= 2, K in (1,2 trace preserving, 3 generic), list/stacked/int spellings; simulate_counts phys_dim 2 (1-4 sites), 3 and 4 (1-2 sites)" % ("(2,3,4,6)" if quick else "(2,3,4,5,6,8)", 12 if quick else 18),
        "decomp": "pauli_decomp n <= %d qubits; bell_decomp n <= 2 pairs; correlation on dims lists over [1,2,3] total dim <= %d, all ordered site pairs x sparse/precomp options; ent_cross_matrix n <= %d qubits x block size x 4 functions x calc_self_ent x upscale; qid; is_degenerate / is_eigenvector / page_entropy (all m*n <= 64)" % (3 if quick else 4, 12 if quick else 27, 4 if quick else 6),
        "lazy": "dims lists over %s, every ordered subset / ordered disjoint pair" % ("[1,2,3] total dim <= 18" if quick else "[1,2,3,4] total dim <= 36 + two 4-subsystem lists"),
        "max_total_dim": 16 if quick else 36,
    }
    ctx.assumptions += [
        "total dimension 1 excluded; subsystem arguments are proper non-empty subsets (bipartitions)",
        "mutinf_subsys / entropy_subsys / logneg_subsys / tr_sqrt_subsys / schmidt_gap are fed kets only; entropy / tr_sqrt / purify / kraus_op operators only",
        "sparse density operators into dense-only spectral routines (table UNSUPPORTED in the module) count as rejections, never as violations",
        "sparse inputs are not combined with dimension-1 subsystems (C15 known finding: dim_compress unit run)",
        "sqrt-based quantities compared at 2e-6 (eigenvalue noise 1e-17 becomes 3e-9 under sqrt) or through their squares",
        "measure() is only asked to collapse onto outcomes of probability > 1e-3",
        "near-degenerate observables: splitting / tol in (0.1, 10, 1e3, 2e6) only (10x margin to the documented absolute window); generic eigenbases only for splittings >= 1e-6 (eigenvector mixing 1e-16/splitting), smaller ones with an exactly diagonal operator or the (el, ev) tuple form",
        "every precomp_func=True function is called on 5 states (3 distinct, 2 repeated), all functions of a cell are built before any is called",
        "quantum_discord is compared with the minimum over PROJECTIVE measurements on subsystem B (the set quimb optimises over)",
        "pauli_correlations(precomp_func=True) is given the state as p (its docstring says p is ignored, but the qubit count is inferred from it; p=None raises AttributeError - noted, not asserted)",
        "lazy_ptr_linop keeps the subsystems in the ORDER given in sysa (its dense form is the partial trace with that subsystem order); lazy_ptr_ppt_linop keeps A and B in ascending order and transposes A",
        "is_degenerate / is_eigenvector only on spectra with exact repeats or gaps >= 0.5, eigenvectors with variance exactly 0 / >= 1e-3 (>= 40x margin to the thresholds); zero-spread spectra excluded (relative tolerance is 0 there)",
        "qid has no docstring: reference = sum over x,y,z of coeff * norm_func([rho, sigma_i])**power with quimb's default norm (spectral), read from the code; only qubit sites probed",
    ]
    for name, fname, gen in TABLES:
        if only and name not in only.split(","):
            continue
        cells = gen(ctx.tier)
        cells = sorted(cells, key=_cost, reverse=True)
        n_ok, n_rej, n_bad = table.run(ctx, fname, cells, name=name, chunk=CHUNK.get(name, 2))
        ctx.subproducts.append("%s: %d cells complete (%d evaluation groups ok, %d documented rejections, %d violating)" % (name, len(cells), n_ok, n_rej, n_bad))


CHUNK = {"bip": 2, "twoq": 1, "pair": 8}


def replay(case):
    return table.replay(sys.modules[__name__], case)

"""C06 - applying a gate equals multiplying by the operator, in every
application mode.

TableExplorer + depth-2 histories (DESIGN.md section 3, C06).  Every cell is
``{"t": target, "steps": (step, ...)}``: the target network is built from
``alphabet.fill`` arrays, every step calls ONE real quimb gating entry point
and is followed by the full oracle:

  value    the dense form of the result (one explicit ``numpy.einsum`` over
           all tensors of the network, the labels that appear exactly once
           being the outputs - no quimb contraction involved; simple-update
           gauges enter as extra vectors on their bond label) equals the
           reference: the operator factors attached with ``tensordot`` to the
           reshaped dense state at the axes of ``where`` in the given order
           (``ref.apply_op``); transposed / adjoint application transposes /
           conjugate-transposes the operator in the reference; operators are
           handled as vectors over (upper sites, lower sites): ``upper`` acts
           with G on the upper axes, ``lower`` with G on the lower axes
           (= X G^T), ``sandwich`` with G above and conj(G) below (= G X G^+)
  outer    the set of labels appearing exactly once is unchanged
  tags     every site tag is still present; the tensor holding a site's
           physical label carries that site's tag (whenever it did before and
           the mode contracts, or tags are propagated); for lazily attached
           gates the new gate tensors carry exactly the site tags the
           ``propagate_tags`` option documents, and the requested ``tags``
  struct   class and the naming attributes (site_ind_id, site_tag_id, upper/
           lower ids, L, Lx, Ly, sites) are those of the input

Rejections are *predicted from the pre-state* (never inferred from the
failure): ``split``/``reduce-split`` need two distinct tensors sharing exactly
one bond and at most two sites; ``split-gate``/``swap-split-gate`` at most two
sites; parametrised gates on > 1 site need ``contract=False``; the 1D chain
routines need one tensor per site.  An exception where no rejection was
predicted is a violation (check='crash'); a predicted rejection that instead
returns a result is checked like any other result.

Tables (one ``table.run`` each, own counters in the evidence):

  modes     vector targets x every ordered where (size 1..3) x every contract
            mode of the geometry (generic 7 + swap+split / nonlocal / auto-mps
            in 1D) x {plain, transpose, dagger[, both]}
  ops       x operator kind (generic complex / real, identity, diagonal,
            product, swap-like) x matrix / 2k-tensor form, in-place spelling,
            where as list / 1-tuple
  tags      modes x propagate_tags in {sites, register, False, True} x tags
  chain     gate_split, gate_with_auto_swap(swap_back), swap_sites_with_compress,
            swap_site_to, gate_nonlocal(method, transpose, dims),
            gate_with_submpo (hand-built exact sub-MPO), gate_with_mpo
  lazyop    gate_with_op_lazy, gate_{upper,lower,sandwich}_with_op_lazy with full
            and sub-operators
  operator  MPO / graph operator / PEPO: gate(which=...) and the gate_upper /
            gate_lower / gate_sandwich spellings, gate_sandwich_inds,
            MPO.gate_sandwich_with_auto_swap(dagger, swap_back, contract,
            strip_exponent), MPO swaps
  simple    gate_simple(_): one site, bonded pair, long range fallback with its
            path options, gauges on all / every second bond, renorm
  raw       TensorNetwork.gate_inds on plain networks with user labels (incl.
            labels 'b', 'l0', 'r1', ..., a label given as bare str,
            parametrised gates), gate_inds_with_tn (tensor / network / split
            gate, absent labels), Tensor.gate
  reuse     depth-2 / depth-3 histories in which every step hands quimb the
            SAME operator network / sub-MPO / gate network / array object
            (gate_with_op_lazy, gate_{upper,lower,sandwich}_with_op_lazy,
            gate_with_submpo(method='lazy'), gate_with_mpo after a lazy copy,
            gate_inds_with_tn, plain gates), nothing contracted in between:
            the operator's inner labels then clash with the copy already in
            the state and must be renamed
  hist      depth-2 histories: every (accepted first step, second step) pair of
            the single-step menu of a target
  hist3     (thorough) depth-3 histories on the 3-site open MPS

Targets, see ``_targets``: open MPS L=3..5 (uniform and site dependent physical
dims, real and complex), cyclic MPS, MPO (open, cyclic), PEPS 2x2 / 2x3 / d=3,
PEPO 2x2, tree / ring / triangle / string-named graph vector and operator
networks, Dense1D, plain labelled networks, a bare Tensor.

Entry points: see ``ENTRIES``.  Conventions established on the real code (not
defects) are listed in ``ctx.assumptions``.  Not asserted: gate_fit_local_
(variational by design), the randomised / variational 1D compression methods
(C09's table), block-sparse / fermionic backends.

The chain table also runs the swap routes with quimb's default compress
options and with only a roomy max_bond (not just the exact profile), and one
MPS / MPO / graph target has non-default site_ind_id / site_tag_id.

Observations outside the documented domain (not findings): contract=True /
'split' / 'reduce-split' across a HYPER label (one label on three site tensors)
give a wrong tensor - the gating docs and pictures assume pairwise bonds, hyper
labels are documented for contraction only (C01 lists the same root: a subset
contraction without output labels sums the hyper label); a PArray gate on
ONE site with contract=True raises ImportError (autoray tensordot on the
'quimb' backend); mps.gate(contract='nonlocal') on a cyclic MPS returns the
right state as an open chain whose ``cyclic`` flag still says True (later chain
routines then fail); gate_simple(contract=...) on a non-bonded pair forwards
``contract`` into the long range compressor (TypeError).
"""

from __future__ import annotations

import collections
import itertools
import sys

import numpy as np

from .. import core, table, ref
from ..alphabet import fill

RTOL = 1e-9
TOL_COMPRESS = 1e-7  # dm / zipup style compressions (sqrt of eigenvalues)
TOL_SIMPLE = 1e-7  # simple update gauging (default smudge 1e-12, gate split cutoff 1e-10)

BASIC = (False, True, "split", "reduce-split")
SPLITG = ("split-gate", "swap-split-gate", "auto-split-gate")
GENERIC = BASIC + SPLITG
LAZY = (False,) + SPLITG
MODES_1D = ("swap+split", "nonlocal", "auto-mps")

_Q = {}


def _qtn():
    """Import quimb lazily (workers); see c09._qtn for the cotengra switch."""
    if "qtn" not in _Q:
        import quimb.tensor as qtn

        try:
            import cotengra.parallel as _cp

            _cp._IS_WORKER = True
        except Exception:  # pragma: no cover
            pass
        _Q["qtn"] = qtn
    return _Q["qtn"]


def _tt(x):
    if isinstance(x, (list, tuple)):
        return tuple(_tt(v) for v in x)
    return x


# --------------------------------------------------------------------------- #
#                       numpy side: denotation, operators                     #
# --------------------------------------------------------------------------- #


def _einsum(tensors, out):
    sym = {}
    args = []
    for a, labels in tensors:
        args.append(np.asarray(a))
        args.append([sym.setdefault(l, len(sym)) for l in labels])
    if len(sym) > 50:
        return _pairwise(tensors, out)
    args.append([sym[l] for l in out])
    return np.einsum(*args, optimize="greedy")


def _pairwise(tensors, out):
    """Same denotation for networks with more labels than numpy.einsum has
    symbols: contract two operands at a time (the pair sharing most labels),
    summing a label only when no other operand and not the output carries it
    (so hyper labels stay correct); each step is a two-operand numpy.einsum
    over local symbols."""
    ops = [(np.asarray(a), tuple(ls)) for a, ls in tensors]
    out = tuple(out)
    while len(ops) > 1:
        best = None
        for i in range(len(ops)):
            si = set(ops[i][1])
            for j in range(i + 1, len(ops)):
                n = len(si & set(ops[j][1]))
                size = ops[i][0].size * ops[j][0].size
                key = (-n, size)
                if best is None or key < best[0]:
                    best = (key, i, j)
        _, i, j = best
        (a, la), (b, lb) = ops[i], ops[j]
        rest = [ops[k] for k in range(len(ops)) if k not in (i, j)]
        elsewhere = set(out)
        for _, ls in rest:
            elsewhere |= set(ls)
        keep = [l for l in dict.fromkeys(la + lb) if l in elsewhere]
        loc = {}
        for l in la + lb:
            loc.setdefault(l, len(loc))
        if len(loc) > 50:
            raise core.HarnessError("too many labels on one pair for the einsum denotation: %d" % len(loc))
        c = np.einsum(a, [loc[l] for l in la], b, [loc[l] for l in lb], [loc[l] for l in keep])
        ops = rest + [(c, tuple(keep))]
    a, la = ops[0]
    loc = {l: n for n, l in enumerate(dict.fromkeys(la))}
    for l in out:
        if l not in loc:
            raise KeyError(l)
    return np.einsum(a, [loc[l] for l in la], [loc[l] for l in out])


def _scan(tn, gauges=None):
    """-> (list of (array, labels), label multiplicities)."""
    ts = [(np.asarray(t.data), tuple(t.inds)) for t in tn.tensor_map.values()]
    cnt = collections.Counter(l for _, ls in ts for l in ls)
    if gauges:
        for ix in sorted(gauges, key=str):
            if ix in cnt:
                ts.append((np.asarray(gauges[ix]), (ix,)))
    return ts, cnt


def _dense(tn, labels, gauges=None):
    ts, cnt = _scan(tn, gauges)
    x = _einsum(ts, labels)
    ex = getattr(tn, "exponent", 0.0)
    if ex:
        x = x * 10.0 ** float(ex)
    return x


def _op(kind, dw, key):
    """Operator on sites of dimensions ``dw`` (matrix D x D, factors in the
    order of ``dw``).  Kinds exist because the code branches on them."""
    dw = tuple(int(d) for d in dw)
    D = int(np.prod(dw))
    k = len(dw)
    if kind == "generic":
        return fill("generic", (D, D), "complex128", key=("c06op", key))
    if kind == "real":
        return fill("generic", (D, D), "float64", key=("c06op", key))
    if kind == "identity":
        return np.eye(D, dtype="complex128")
    if kind == "diag":
        return np.diag(fill("generic", (D,), "complex128", key=("c06op", key)) + 1.5)
    if kind == "product":
        out = np.eye(1)
        for n, d in enumerate(dw):
            out = np.kron(out, fill("generic", (d, d), "complex128", key=("c06op", key, n)))
        return out
    if kind == "swaplike":
        # G[o0 o1 i0 i1] = X[o0, i1] Y[o1, i0]: rank one across the gate
        assert k == 2
        X = fill("generic", (dw[0], dw[1]), "complex128", key=("c06op", key, "x"))
        Y = fill("generic", (dw[1], dw[0]), "complex128", key=("c06op", key, "y"))
        return np.einsum("ad,bc->abcd", X, Y).reshape(D, D)
    raise KeyError(kind)


def _flagged(G, f):
    if f == "n":
        return G
    if f == "t":
        return G.T
    if f in ("d", "b"):  # 'b': dagger and transpose both given; transpose is implied by dagger
        return G.conj().T
    raise KeyError(f)


def _flag_kw(f):
    return {"n": {}, "t": {"transpose": True}, "d": {"dagger": True}, "b": {"dagger": True, "transpose": True}}[f]


# --------------------------------------------------------------------------- #
#                                   worlds                                    #
# --------------------------------------------------------------------------- #


class World:
    """tn: the live quimb object; kind: 'vec' | 'op' | 'raw' | 'tensor';
    sites: site names in reference order; dims: physical dims; ref: dense
    reference (axes = sites for vec; upper sites then lower sites for op);
    labels: outer labels in reference axis order; gauges: simple update bond
    weights (part of the denotation) or None."""

    gauges = None
    fam = None


def _mps_arrays(dims, bond, cyclic, dtype, key, phys2=False):
    L = len(dims)
    arrs = []
    for i, d in enumerate(dims):
        shp = []
        if cyclic or i > 0:
            shp.append(bond[(i - 1) % L])
        if cyclic or i < L - 1:
            shp.append(bond[i])
        shp.append(d)
        if phys2:
            shp.append(d)
        arrs.append(fill("generic", shp, dtype, key=("c06", key, i)))
    return arrs


def _bonds(L, bond):
    if isinstance(bond, int):
        return (bond,) * L
    return tuple(bond[i % len(bond)] for i in range(L))


GRAPHS = {
    # name: (sites, edges)
    "tree": ((0, 1, 2, 3), ((0, 1), (1, 2), (1, 3))),
    "ring": ((0, 1, 2, 3), ((0, 1), (1, 2), (2, 3), (3, 0))),
    "named": (("a", "bb", "c"), (("a", "bb"), ("bb", "c"))),
    "tri": ((0, 1, 2), ((0, 1), (1, 2), (0, 2))),
}


def _graph_tensors(name, dims, D, key, op=False, idfmt=("k{}", "b{}"), tagfmt="I{}"):
    qtn = _qtn()
    sites, edges = GRAPHS[name]
    inds = {s: [] for s in sites}
    shp = {s: [] for s in sites}
    for n, (a, b) in enumerate(edges):
        bix = "_e%s%d" % (key[-1] if isinstance(key[-1], str) else "", n)
        for s in (a, b):
            inds[s].append(bix)
            shp[s].append(D)
    ts = []
    for n, s in enumerate(sites):
        inds[s].append(idfmt[0].format(s))
        shp[s].append(dims[n])
        if op:
            inds[s].append(idfmt[1].format(s))
            shp[s].append(dims[n])
        ts.append(qtn.Tensor(fill("generic", shp[s], "complex128", key=("c06", key, n)), inds[s], tags=[tagfmt.format(s)]))
    return sites, ts


def _custom(tspec):
    """targets with non-default site / tag naming carry a trailing 'custom'"""
    return tspec[-1] == "custom"


def build(tspec):
    qtn = _qtn()
    tspec = _tt(tspec)
    fam = tspec[0]
    w = World()
    w.fam = fam
    w.tspec = tspec
    w.cache = {}  # operator / gate objects re-used by later steps of a history ('reuse' steps)
    if fam in ("mps", "cmps"):
        _, dims, bond, dtype = tspec[:4]
        L = len(dims)
        arrs = _mps_arrays(dims, _bonds(L, bond), fam == "cmps", dtype, tspec)
        names = {"site_ind_id": "q{}", "site_tag_id": "S{}"} if _custom(tspec) else {}
        w.tn = qtn.MatrixProductState(arrs, shape="lrp", **names)
        w.kind, w.sites, w.dims = "vec", tuple(range(L)), tuple(dims)
    elif fam in ("mpo", "cmpo"):
        _, dims, bond, dtype = tspec[:4]
        L = len(dims)
        arrs = _mps_arrays(dims, _bonds(L, bond), fam == "cmpo", dtype, tspec, phys2=True)
        names = {"upper_ind_id": "u{}", "lower_ind_id": "d{}", "site_tag_id": "S{}"} if _custom(tspec) else {}
        w.tn = qtn.MatrixProductOperator(arrs, shape="lrud", **names)
        w.kind, w.sites, w.dims = "op", tuple(range(L)), tuple(dims)
    elif fam == "peps":
        _, Lx, Ly, D, d = tspec
        cnt = [0]

        def ff(shape):
            cnt[0] += 1
            return fill("generic", shape, "complex128", key=("c06", tspec, cnt[0]))

        w.tn = qtn.PEPS.from_fill_fn(ff, Lx, Ly, D, phys_dim=d)
        w.kind = "vec"
        w.sites = tuple((i, j) for i in range(Lx) for j in range(Ly))
        w.dims = (d,) * (Lx * Ly)
    elif fam == "pepo":
        _, Lx, Ly, D, d = tspec
        cnt = [0]

        def ff(shape):
            cnt[0] += 1
            return fill("generic", shape, "complex128", key=("c06", tspec, cnt[0]))

        w.tn = qtn.PEPO.from_fill_fn(ff, Lx, Ly, D, phys_dim=d)
        w.kind = "op"
        w.sites = tuple((i, j) for i in range(Lx) for j in range(Ly))
        w.dims = (d,) * (Lx * Ly)
    elif fam in ("gvec", "gop"):
        _, name, dims, D = tspec[:4]
        idfmt, tagfmt = (("q{}", "d{}"), "S{}") if _custom(tspec) else (("k{}", "b{}"), "I{}")
        sites, ts = _graph_tensors(name, dims, D, tspec[:4], op=(fam == "gop"), idfmt=idfmt, tagfmt=tagfmt)
        tn = qtn.TensorNetwork(ts)
        if fam == "gvec":
            tn.view_as_(qtn.TensorNetworkGenVector, sites=sites, site_tag_id=tagfmt, site_ind_id=idfmt[0])
            w.kind = "vec"
        else:
            tn.view_as_(qtn.TensorNetworkGenOperator, sites=sites, site_tag_id=tagfmt, upper_ind_id=idfmt[0], lower_ind_id=idfmt[1])
            w.kind = "op"
        w.tn, w.sites, w.dims = tn, tuple(sites), tuple(dims)
    elif fam == "dense1d":
        _, dims = tspec
        # Dense1D takes one phys_dim: uniform dims only
        x = fill("generic", (int(np.prod(dims)),), "complex128", key=("c06", tspec))
        w.tn = qtn.Dense1D(x, phys_dim=dims[0])
        w.kind, w.sites, w.dims = "vec", tuple(range(len(dims))), tuple(dims)
    elif fam == "raw":
        # plain TensorNetwork with user labels; chain A[l0,x] B[x,l1,y] C[y,l2,l3]
        _, labels, dims = tspec
        A = qtn.Tensor(fill("generic", (dims[0], 2), "complex128", key=("c06", tspec, 0)), (labels[0], "_x"), tags=["A"])
        B = qtn.Tensor(fill("generic", (2, dims[1], 3), "complex128", key=("c06", tspec, 1)), ("_x", labels[1], "_y"), tags=["B"])
        C = qtn.Tensor(fill("generic", (3, dims[2], dims[3]), "complex128", key=("c06", tspec, 2)), ("_y", labels[2], labels[3]), tags=["C"])
        w.tn = qtn.TensorNetwork([A, B, C])
        w.kind, w.sites, w.dims = "raw", tuple(labels), tuple(dims)
    elif fam == "tensor":
        _, labels, dims = tspec
        w.tn = qtn.Tensor(fill("generic", dims, "complex128", key=("c06", tspec)), labels, tags=["T"])
        w.kind, w.sites, w.dims = "tensor", tuple(labels), tuple(dims)
    else:
        raise KeyError(fam)
    w.labels = _labels_of(w)
    if w.kind == "tensor":
        w.ref = np.asarray(w.tn.data).copy()
    else:
        w.ref = _dense(w.tn, w.labels)
    return w


def _labels_of(w):
    tn = w.tn
    if w.kind == "vec":
        return tuple(tn.site_ind(s) for s in w.sites)
    if w.kind == "op":
        return tuple(tn.upper_ind(s) for s in w.sites) + tuple(tn.lower_ind(s) for s in w.sites)
    return tuple(w.sites)


def _idx(w, where):
    return [w.sites.index(_tt(s)) for s in where]


# --------------------------------------------------------------------------- #
#                      pre-state facts and predicted rejections               #
# --------------------------------------------------------------------------- #


def _holder(tn, ix):
    tids = tn.ind_map.get(ix, ())
    return tuple(sorted(tids))


def _predict_gate_inds(tn, inds, mode, isparam=False):
    """Documented rejection of tensor_network_gate_inds on this pre-state, or
    None.  Returns a short reason string."""
    k = len(inds)
    if isparam and mode not in (False, "auto-split-gate") and k > 1:
        return "parametrized-multisite-contract"
    if k == 1:
        return None
    if mode in ("split-gate", "swap-split-gate") and k > 2:
        return "split-gate>2sites"
    if mode in ("split", "reduce-split"):
        tids = sorted({t for ix in inds for t in _holder(tn, ix)})
        if len(tids) == 1:
            return None
        if k > 2:
            return "split>2sites"
        if len(tids) != 2:
            return "split:not-two-tensors"
        ta, tb = (tn.tensor_map[t] for t in tids)
        nshared = len(set(ta.inds) & set(tb.inds))
        if nshared != 1:
            return "split:%d-shared-bonds" % nshared
    return None


def _predict_sandwich(tn, up, lo, mode):
    k = len(up)
    if k == 2 and mode in ("split", "reduce-split"):
        tids = sorted({t for ix in tuple(up) + tuple(lo) for t in _holder(tn, ix)})
        if len(tids) != 2:
            return "sandwich-split:%d-tensors" % len(tids)
        for u, l in zip(up, lo):
            if _holder(tn, u) != _holder(tn, l):
                return "sandwich-split:upper-lower-apart"
        ta, tb = (tn.tensor_map[t] for t in tids)
        nshared = len(set(ta.inds) & set(tb.inds))
        if nshared != 1:
            return "sandwich-split:%d-shared-bonds" % nshared
        return None
    return _predict_gate_inds(tn, up, mode) or _predict_gate_inds(tn, lo, mode)


def _chain_like(w):
    """One tensor per site, each holding its site's physical label(s) and
    exactly its own site tag: what the 1D chain routines assume."""
    tn = w.tn
    if tn.num_tensors != len(w.sites):
        return False
    for s in w.sites:
        tids = tn.tag_map.get(tn.site_tag(s), ())
        if len(tids) != 1:
            return False
        (tid,) = tids
        t = tn.tensor_map[tid]
        want = (tn.site_ind(s),) if w.kind == "vec" else (tn.upper_ind(s), tn.lower_ind(s))
        if any(ix not in t.inds for ix in want):
            return False
    return True


def _site_tag_state(w):
    """site -> does the tensor holding the site's physical label(s) carry the
    site tag (pre-state fact used by the tag oracle)."""
    tn = w.tn
    out = {}
    for s in w.sites:
        ok = True
        for ix in _site_labels(w, s):
            for tid in _holder(tn, ix):
                if tn.site_tag(s) not in tn.tensor_map[tid].tags:
                    ok = False
        out[s] = ok
    return out


def _site_labels(w, s):
    tn = w.tn
    if w.kind == "vec":
        return (tn.site_ind(s),)
    return (tn.upper_ind(s), tn.lower_ind(s))


STRUCT_ATTRS = ("site_ind_id", "site_tag_id", "upper_ind_id", "lower_ind_id", "L", "Lx", "Ly", "nsites")


def _struct(tn):
    d = {"class": type(tn).__name__}
    for a in STRUCT_ATTRS:
        try:
            d[a] = getattr(tn, a)
        except AttributeError:
            pass
        except Exception as ex:  # pragma: no cover
            d[a] = "<%s>" % type(ex).__name__
    try:
        d["sites"] = tuple(tn.sites)
    except Exception:
        pass
    return d


# --------------------------------------------------------------------------- #
#                                  the plan                                   #
# --------------------------------------------------------------------------- #


class Plan:
    skip = None  # reason: the step is not offered on this pre-state
    reject = None  # reason: a documented rejection is predicted
    rej_types = (ValueError,)
    call = None  # () -> result network
    newref = None  # ndarray
    newdims = None
    tol = RTOL
    gated = ()  # sites acted on (for the tag oracle)
    lazy = False  # gate tensors are attached, not contracted
    pt = None  # effective propagate_tags option (lazy modes)
    utags = ()  # user tags expected on the gate tensors / gated tensors
    check_tags = True
    check_struct = True
    scale_free = False  # compare up to a positive factor (renorm=True)
    root = None
    which = None  # for operators: which labels of the gated sites


def _G_form(G, dw, form):
    if form == "ten":
        return G.reshape(tuple(dw) * 2)
    return G


def _where_arg(where, st):
    """A one-site ``where`` is passed bare unless the step says otherwise."""
    where = _tt(where)
    if len(where) == 1 and not st.get("wt"):
        return where[0]
    if st.get("wl"):
        return list(where)
    return where


def _compress_kw(mode, st=None):
    """default profile: max_bond=None, cutoff=0.0 (exact); 'co' = 'default'
    passes nothing (quimb's cutoff 1e-10 - nothing of the generic data is that
    small), 'mb' only a roomy max_bond."""
    co = (st or {}).get("co")
    if co == "default":
        return {}
    if co == "mb":
        return {"max_bond": 64}
    return {} if mode in (False, True) else {"max_bond": None, "cutoff": 0.0}


def _default_pt(w):
    if w.fam in ("mps", "cmps", "dense1d", "peps"):
        return "sites"
    return False


def _vec_apply(w, Geff, where, which="site"):
    n = len(w.sites)
    idx = _idx(w, where)
    if w.kind == "vec" or w.kind == "raw":
        return ref.apply_op(Geff, w.ref, w.dims, idx).reshape(w.dims)
    dims2 = tuple(w.dims) + tuple(w.dims)
    x = w.ref
    if which in ("upper", "sandwich"):
        x = ref.apply_op(Geff, x, dims2, idx).reshape(dims2)
    if which == "lower":
        x = ref.apply_op(Geff, x, dims2, [n + i for i in idx]).reshape(dims2)
    if which == "sandwich":
        x = ref.apply_op(Geff.conj(), x, dims2, [n + i for i in idx]).reshape(dims2)
    return x


def p_gate(w, st):
    """tn.gate(G, where, contract=, transpose/dagger=, propagate_tags=, tags=)
    on vector networks (1D dispatcher, 2D, arbitrary geometry) and on operator
    networks (which = None/'sandwich'/'both'/'upper'/'lower' or the
    gate_upper / gate_lower / gate_sandwich spellings)."""
    p = Plan()
    tn = w.tn
    where = _tt(st["w"])
    k = len(where)
    mode = st["m"]
    dw = [w.dims[i] for i in _idx(w, where)]
    kindop, form = st.get("op", ("generic", "mat"))
    G = _op(kindop, dw, (kindop, tuple(dw), st.get("n", 0)))
    Geff = _flagged(G, st.get("f", "n"))
    Garg = _G_form(G, dw, form)
    if st.get("reuse"):
        # the same array object for every application (the reference keeps its own copy)
        G = _op(kindop, dw, (kindop, tuple(dw), "reuse"))
        Geff = _flagged(G, st.get("f", "n"))
        Garg = w.cache.setdefault(("G", kindop, tuple(dw), form), _G_form(G.copy(), dw, form))
    kw = dict(contract=mode)
    kw.update(_compress_kw(mode, st))
    kw.update(_flag_kw(st.get("f", "n")))
    if "pt" in st:
        kw["propagate_tags"] = st["pt"]
        p.pt = st["pt"]
    else:
        p.pt = _default_pt(w)
    if st.get("tags"):
        kw["tags"] = st["tags"]
        p.utags = (st["tags"],)
    which = None
    meth = "gate_" if st.get("inp") else "gate"
    if w.kind == "op":
        sp = st.get("which", None)  # None, 'upper', 'lower', 'sandwich', 'both', or 'm:upper' etc = method spelling
        if isinstance(sp, str) and sp.startswith("m:"):
            which = sp[2:]
            meth = "gate_" + which + ("_" if st.get("inp") else "")
        else:
            which = {None: "sandwich", "both": "sandwich"}.get(sp, sp)
            if sp is not None:
                kw["which"] = sp
        up = tuple(tn.upper_ind(s) for s in where)
        lo = tuple(tn.lower_ind(s) for s in where)
        if which == "sandwich":
            p.reject = _predict_sandwich(tn, up, lo, mode)
        else:
            p.reject = _predict_gate_inds(tn, up if which == "upper" else lo, mode)
        p.which = which
    else:
        inds = tuple(tn.site_ind(s) for s in where)
        if mode in MODES_1D:
            eff = mode
            if mode == "auto-mps":
                eff = True if k == 1 else ("swap+split" if k == 2 else "nonlocal")
            if k == 1:
                eff = True
            if eff in ("swap+split", "nonlocal"):
                if eff == "nonlocal" and w.fam == "cmps":
                    # tensor_network_1d_compress documents open boundaries only (it returns an
                    # open chain while the object's ``cyclic`` flag stays True)
                    p.skip = "nonlocal-open-boundary-only"
                elif not _chain_like(w):
                    p.skip = "1d-mode-needs-chain"
                elif eff == "swap+split" and k > 2:
                    p.reject = "swap+split>2sites"
                p.check_tags = True
                p.utags = ()  # the chain routines take no tags
            mode_eff = eff
            if eff == "nonlocal" and st.get("f", "n") in ("d", "b"):
                p.root = "1d-dispatch-nonlocal-dagger"
            if eff == "nonlocal" and tn.site_tag_id != "I{}" and not p.skip:
                p.root = "custom-site-tag-id"
            if eff == "swap+split" and k == 2 and st.get("f", "n") != "n" and st.get("co") and abs(where[0] - where[1]) != 1:
                p.root = "swap-flags-reach-the-swaps"
        else:
            mode_eff = mode
            p.reject = _predict_gate_inds(tn, inds, mode)
        p.mode_eff = mode_eff
    p.lazy = mode in LAZY
    p.gated = where
    fn = getattr(tn, meth)
    wa = _where_arg(where, st)
    p.call = lambda: fn(Garg, wa, **kw)
    p.newref = _vec_apply(w, Geff, where, which or "site")
    if st.get("co"):
        p.tol = 1e-8  # default cutoff 1e-10
    return p


def p_gate_inds(w, st):
    """TensorNetwork.gate_inds on a plain network with user labels."""
    p = Plan()
    tn = w.tn
    where = _tt(st["w"])
    mode = st["m"]
    dw = [w.dims[i] for i in _idx(w, where)]
    kindop, form = st.get("op", ("generic", "mat"))
    G = _op(kindop, dw, (kindop, tuple(dw), st.get("n", 0)))
    Geff = _flagged(G, st.get("f", "n"))
    Garg = _G_form(G, dw, form)
    isparam = bool(st.get("param"))
    if isparam:
        qtn = _qtn()
        Gt = G.reshape(tuple(dw) * 2)
        from quimb.tensor.tensor_core import PArray

        Garg = PArray(_param_fn, Gt)
    kw = dict(contract=mode)
    kw.update(_compress_kw(mode))
    kw.update(_flag_kw(st.get("f", "n")))
    if st.get("tags"):
        kw["tags"] = st["tags"]
        p.utags = (st["tags"],)
    inds = where
    if st.get("str"):  # one label given as a bare string (documented: str or sequence of str)
        assert len(where) == 1
        inds = where[0]
        p.root = "inds-as-str" if len(where[0]) != 1 else None
    p.reject = _predict_gate_inds(tn, where, mode, isparam)
    if isparam and len(where) == 1 and mode in (True, "split", "reduce-split"):
        # PArray gates are not part of the documented domain of gate_inds; only
        # what its own error message promises is exercised (lazy attachment
        # works, multi-site contraction is rejected)
        p.skip = "parametrized-one-site-contract-undocumented"
        return p
    p.lazy = mode in LAZY
    p.check_tags = False
    if mode in ("split-gate", "swap-split-gate", "auto-split-gate") and len(where) == 2 and len(tn.ind_map.get("b", ())) == 1:
        p.root = "outer-label-b-present"
    fn = tn.gate_inds_ if st.get("inp") else tn.gate_inds
    p.call = lambda: fn(Garg, inds, **kw)
    p.newref = _vec_apply(w, Geff, where)
    return p


def _param_fn(x):
    return x


def p_gate_split(w, st):
    p = Plan()
    tn = w.tn
    where = _tt(st["w"])
    dw = [w.dims[i] for i in _idx(w, where)]
    G = _op("generic", dw, ("gs", tuple(dw)))
    if not _chain_like(w):
        p.skip = "needs-chain"
        return p
    inds = tuple(tn.site_ind(s) for s in where)
    p.reject = _predict_gate_inds(tn, inds, "split")
    kw = {"cutoff": 0.0, "max_bond": None}
    kw.update(_flag_kw(st.get("f", "n")))
    p.gated = where
    fn = tn.gate_split_ if st.get("inp") else tn.gate_split
    p.call = lambda: fn(_G_form(G, dw, st.get("form", "mat")), where, **kw)
    p.newref = _vec_apply(w, _flagged(G, st.get("f", "n")), where)
    return p


def _moved_order(L, i, j):
    a, b = sorted((i, j))
    order = list(range(L))
    order.remove(b)
    order.insert(a + 1, b)
    return order


def p_auto_swap(w, st):
    """MatrixProductState.gate_with_auto_swap(G, (i, j), swap_back=)."""
    p = Plan()
    tn = w.tn
    where = _tt(st["w"])
    dw = [w.dims[i] for i in _idx(w, where)]
    G = _op(st.get("op", ("generic", "mat"))[0], dw, ("as", tuple(dw)))
    if not _chain_like(w):
        p.skip = "needs-chain"
        return p
    kw = {"swap_back": bool(st.get("sb", True))}
    kw.update(_compress_kw("swap+split", st))
    kw.update(_flag_kw(st.get("f", "n")))
    if st.get("co"):
        p.tol = 1e-8
        if st.get("f", "n") != "n" and abs(where[0] - where[1]) != 1:
            p.root = "swap-flags-reach-the-swaps"
    p.gated = where
    fn = tn.gate_with_auto_swap_ if st.get("inp") else tn.gate_with_auto_swap
    p.call = lambda: fn(_G_form(G, dw, st.get("op", ("generic", "mat"))[1]), where, **kw)
    full = _vec_apply(w, _flagged(G, st.get("f", "n")), where)
    if not kw["swap_back"]:
        order = _moved_order(len(w.sites), *where)
        full = full.transpose(order)
        p.newdims = tuple(w.dims[o] for o in order)
    p.newref = full
    return p


def p_swap(w, st):
    """swap_sites_with_compress(i, j) / swap_site_to(i, f): pure permutations
    of the physical spaces (the building blocks of the swap modes)."""
    p = Plan()
    tn = w.tn
    i, j = st["w"]
    L = len(w.sites)
    if not _chain_like(w):
        p.skip = "needs-chain"
        return p
    kw = {"cutoff": 0.0, "max_bond": None}
    if st["m"] == "swap_sites":
        order = list(range(L))
        order[i], order[j] = order[j], order[i]
        fn = tn.swap_sites_with_compress_ if st.get("inp") else tn.swap_sites_with_compress
    else:
        order = list(range(L))
        order.remove(i)
        order.insert(j, i)
        fn = tn.swap_site_to_ if st.get("inp") else tn.swap_site_to
    p.call = lambda: fn(i, j, **kw)
    if w.kind == "vec":
        p.newref = w.ref.transpose(order)
    else:
        p.newref = w.ref.transpose(order + [L + o for o in order])
    p.newdims = tuple(w.dims[o] for o in order)
    return p


def _sub_mpo(w, where, G, key, upper_ind_id="k{}", lower_ind_id="b{}", site_tag_id="I{}"):
    """Exact MPO for the operator G on the sites ``where`` (factors of G in the
    order of ``where``), built by hand on the SORTED sites: the first tensor
    carries the whole operator, the bond is the fused (out, in) pair of the
    remaining sites, later tensors are identities that peel one pair off."""
    qtn = _qtn()
    L = len(w.sites)
    srt = sorted(where)
    k = len(where)
    dw = [w.dims[s] for s in where]
    Gt = G.reshape(dw + dw)
    # reorder G's factors to sorted site order
    perm = [list(where).index(s) for s in srt]
    Gt = Gt.transpose(perm + [k + q for q in perm])
    ds = [w.dims[s] for s in srt]
    arrays = []
    if k == 1:
        arrays.append(Gt)  # (u, d)
    else:
        # first: (r, u, d) with r = fused pairs of sites 1..k-1
        order = [0, k] + [x for q in range(1, k) for x in (q, k + q)]
        first = Gt.transpose(order).reshape(ds[0], ds[0], -1)
        arrays.append(first.transpose(2, 0, 1))  # 'rud'
        rest = [d * d for d in ds[1:]]
        for q in range(1, k):
            dl = int(np.prod(rest[q - 1 :]))
            dr = int(np.prod(rest[q:])) if q < k - 1 else 1
            d = ds[q]
            eye = np.eye(dl, dtype=complex).reshape(dl, d, d, dr)  # (l, u, d, r)
            if q < k - 1:
                arrays.append(eye.transpose(0, 3, 1, 2))  # 'lrud'
            else:
                arrays.append(eye.reshape(dl, d, d))  # 'lud'
    return qtn.MatrixProductOperator(arrays, sites=srt, L=L, shape="lrud", upper_ind_id=upper_ind_id, lower_ind_id=lower_ind_id, site_tag_id=site_tag_id)


def p_nonlocal(w, st):
    """MatrixProductState.gate_nonlocal(G, where, method=, transpose=)."""
    p = Plan()
    tn = w.tn
    where = _tt(st["w"])
    dw = [w.dims[i] for i in _idx(w, where)]
    G = _op("generic", dw, ("nl", tuple(dw), st.get("n", 0)))
    method = st["m"]
    if method != "lazy" and not _chain_like(w):
        p.skip = "needs-chain"
        return p
    if method != "lazy" and tn.site_tag_id != "I{}":
        p.root = "custom-site-tag-id"
    kw = {"method": method}
    if method != "lazy":
        kw.update(cutoff=0.0, max_bond=(64 if method in ("zipup-first", "zipup-oversample") else None))
    kw.update(_flag_kw(st.get("f", "n")))
    if st.get("dims"):
        kw["dims"] = tuple(dw)
    p.gated = where
    p.lazy = method == "lazy"
    p.check_tags = method != "lazy"
    fn = tn.gate_nonlocal_ if st.get("inp") else tn.gate_nonlocal
    p.call = lambda: fn(G, where, **kw)
    p.newref = _vec_apply(w, _flagged(G, st.get("f", "n")), where)
    p.tol = RTOL if method in ("direct", "lazy") else TOL_COMPRESS
    if not p.root and method in ("zipup-first", "zipup-oversample") and (min(where), max(where)) != (0, len(w.sites) - 1):
        p.root = "submpo-inner-permute"
    return p


def p_submpo(w, st):
    """gate_with_submpo(submpo, where=None|given, method=, transpose=) with a
    hand-built exact sub-MPO; st['w'] = () means a full-length generic MPO via
    gate_with_mpo."""
    p = Plan()
    qtn = _qtn()
    tn = w.tn
    where = _tt(st["w"])
    method = st["m"]
    reuse = bool(st.get("reuse"))
    if st["e"] == "gate_with_mpo":
        # compresses the whole stack site by site: every tensor needs exactly one site tag
        ok = all(sum(1 for x in t.tags if x in set(tn.site_tags)) == 1 for t in tn) and all(len(_holder(tn, tn.site_ind(s_))) == 1 for s_ in w.sites)
        if not (_chain_like(w) or (reuse and ok)):
            p.skip = "needs-chain"
            return p
    elif method != "lazy" and not _chain_like(w):
        # lazy application only rewires the physical labels; everything else canonicalises the chain first
        p.skip = "needs-chain"
        return p
    f = st.get("f", "n")
    kw = {"method": method}
    if method != "lazy":
        kw.update(cutoff=0.0, max_bond=None)
    if f == "t":
        kw["transpose"] = True
    if st.get("ipo"):
        assert not reuse
        kw["inplace_mpo"] = True
    L = len(w.sites)
    if st["e"] == "gate_with_mpo":
        A, asites, Amat = _op_network(w, "all", ("mpoA", st.get("n", 0)), reuse=reuse)
        fn = tn.gate_with_mpo_ if st.get("inp") else tn.gate_with_mpo
        p.call = lambda: fn(A, **kw)
    else:
        A, asites, Amat = _op_network(w, where, ("sm", st.get("n", 0)), reuse=reuse)
        if st.get("wgiven"):
            kw["where"] = asites
        fn = tn.gate_with_submpo_ if st.get("inp") else tn.gate_with_submpo
        p.call = lambda: fn(A, **kw)
    p.gated = asites
    p.lazy = method == "lazy"
    p.check_tags = method != "lazy"
    p.newref = _vec_apply(w, _flagged(Amat, f), asites)
    p.tol = RTOL if method in ("direct", "lazy") else TOL_COMPRESS
    if method in ("zipup-first", "zipup-oversample") and (min(asites), max(asites)) != (0, L - 1):
        p.root = "submpo-inner-permute"
    return p


def _op_network(w, asites_spec, key, reuse=False):
    """Operator network A with the geometry of the target, on all sites or (1D
    only) on a subset.  -> (A, sites of A, dense matrix of A).  With ``reuse``
    the SAME object is handed out again to later steps of the history (the
    docs allow that as long as inplace_op / inplace_mpo are not set)."""
    if reuse:
        ck = ("A", asites_spec)
        if ck not in w.cache:
            w.cache[ck] = _op_network(w, asites_spec, "reuse")
        return w.cache[ck]
    qtn = _qtn()
    fam = w.fam
    L = len(w.sites)
    stag = w.tn.site_tag_id
    if fam in ("mps", "cmps", "mpo", "cmpo", "dense1d"):
        if asites_spec == "all":
            arrs = _mps_arrays(w.dims, _bonds(L, 2), False, "complex128", ("opA", w.dims, key), phys2=True)
            A = qtn.MatrixProductOperator(arrs, shape="lrud", site_tag_id=stag)
            asites = tuple(range(L))
        else:
            asites = tuple(sorted(asites_spec))
            dw = [w.dims[s] for s in asites_spec]
            G = _op("generic", dw, ("opA", tuple(dw), key))
            A = _sub_mpo(w, asites_spec, G, None, site_tag_id=stag)
    elif fam in ("gvec", "gop"):
        _, name, dims, D = w.tspec[:4]
        sites, ts = _graph_tensors(name, dims, 2, ("opA", name, dims, "A"), op=True, tagfmt=stag)
        A = qtn.TensorNetwork(ts)
        A.view_as_(qtn.TensorNetworkGenOperator, sites=sites, site_tag_id=stag, upper_ind_id="k{}", lower_ind_id="b{}")
        asites = tuple(sites)
    elif fam in ("peps", "pepo"):
        _, Lx, Ly, D, d = w.tspec
        cnt = [0]

        def ff(shape):
            cnt[0] += 1
            return fill("generic", shape, "complex128", key=("c06opA", w.tspec, cnt[0]))

        A = qtn.PEPO.from_fill_fn(ff, Lx, Ly, 2, phys_dim=d)
        asites = tuple(w.sites)
    else:
        raise KeyError(fam)
    labs = tuple(A.upper_ind(s) for s in asites) + tuple(A.lower_ind(s) for s in asites)
    D = int(np.prod([w.dims[w.sites.index(s)] for s in asites]))
    Amat = _dense(A, labs).reshape(D, D)
    return A, asites, Amat


def p_op_lazy(w, st):
    """gate_with_op_lazy (vectors); gate_upper/lower/sandwich_with_op_lazy
    (operators)."""
    p = Plan()
    tn = w.tn
    spec = st.get("a", "all")
    spec = spec if spec == "all" else _tt(spec)
    A, asites, Amat = _op_network(w, spec, st.get("n", 0), reuse=bool(st.get("reuse")))
    f = st.get("f", "n")
    p.gated = asites
    p.lazy = True
    p.check_tags = False
    sfx = "_" if st.get("inp") else ""
    if w.kind == "vec":
        fn = getattr(tn, "gate_with_op_lazy" + sfx)
        kw = {"transpose": True} if f == "t" else {}
        if st.get("ipo"):  # documented: the operator may then not be used afterwards -> never with reuse
            assert not st.get("reuse")
            kw["inplace_op"] = True
        p.call = lambda: fn(A, **kw)
        p.newref = _vec_apply(w, _flagged(Amat, f), asites)
    else:
        side = st["m"]  # upper / lower / sandwich
        fn = getattr(tn, "gate_%s_with_op_lazy%s" % (side, sfx))
        if side == "sandwich":
            kw = {"dagger": True} if f == "d" else {}
        else:
            kw = {"transpose": True} if f == "t" else {}
        p.call = lambda: fn(A, **kw)
        Aeff = _flagged(Amat, f)
        if side == "lower":
            # B -> B A  =  A^T acting on the lower labels
            p.newref = _vec_apply(w, Aeff.T, asites, "lower")
        else:
            p.newref = _vec_apply(w, Aeff, asites, side)
        if spec != "all" and len(asites) < len(w.sites):
            p.root = "sub-operator:op_op"
    return p


def p_sandwich_inds(w, st):
    """TensorNetwork.gate_sandwich_inds(G, inds_upper, inds_lower, ...)."""
    p = Plan()
    tn = w.tn
    where = _tt(st["w"])
    mode = st["m"]
    dw = [w.dims[i] for i in _idx(w, where)]
    kindop, form = st.get("op", ("generic", "mat"))
    G = _op(kindop, dw, (kindop, tuple(dw), st.get("n", 0)))
    up = tuple(tn.upper_ind(s) for s in where)
    lo = tuple(tn.lower_ind(s) for s in where)
    kw = dict(contract=mode)
    kw.update(_compress_kw(mode))
    kw.update(_flag_kw(st.get("f", "n")))
    if st.get("tags"):
        kw["tags"] = st["tags"]
    upa, loa = up, lo
    if st.get("str"):
        upa, loa = up[0], lo[0]
        p.root = "inds-as-str"
    p.reject = _predict_sandwich(tn, up, lo, mode)
    p.check_tags = False
    p.gated = where
    fn = tn.gate_sandwich_inds_ if st.get("inp") else tn.gate_sandwich_inds
    p.call = lambda: fn(_G_form(G, dw, form), upa, loa, **kw)
    p.newref = _vec_apply(w, _flagged(G, st.get("f", "n")), where, "sandwich")
    return p


def p_sandwich_auto_swap(w, st):
    """MatrixProductOperator.gate_sandwich_with_auto_swap."""
    p = Plan()
    tn = w.tn
    where = _tt(st["w"])
    dw = [w.dims[i] for i in _idx(w, where)]
    G = _op("generic", dw, ("sas", tuple(dw)))
    if not _chain_like(w):
        p.skip = "needs-chain"
        return p
    f = st.get("f", "n")
    kw = {"cutoff": 0.0, "max_bond": None, "swap_back": bool(st.get("sb", True)), "contract": st["m"]}
    if f == "d":
        kw["dagger"] = True
    if st.get("strip"):
        kw["strip_exponent"] = True
    p.gated = where
    fn = tn.gate_sandwich_with_auto_swap_ if st.get("inp") else tn.gate_sandwich_with_auto_swap
    p.call = lambda: fn(_G_form(G, dw, st.get("form", "mat")), where, **kw)
    full = _vec_apply(w, _flagged(G, f), where, "sandwich")
    if not kw["swap_back"]:
        L = len(w.sites)
        order = _moved_order(L, *where)
        full = full.transpose(order + [L + o for o in order])
        p.newdims = tuple(w.dims[o] for o in order)
    p.newref = full
    return p


def _make_gauges(w, which):
    """Positive weight vectors on the bonds of the network (all bonds, or
    every second one): part of the denotation of a simple-update state."""
    tn = w.tn
    g = {}
    inner = sorted(ix for ix, tids in tn.ind_map.items() if len(tids) == 2)
    for n, ix in enumerate(inner):
        if which == "all" or (which == "half" and n % 2 == 0):
            g[ix] = fill("positive", (tn.ind_size(ix),), "float64", key=("c06g", w.tspec, n)) + 0.5
    return g


def _site_paths(w, a, b):
    """all shortest paths of sites from a to b in the live network (breadth
    first over 'shares a label'), in a deterministic order."""
    tn = w.tn
    nb = {s: [] for s in w.sites}
    holder = {}
    for s in w.sites:
        (tid,) = tn.tag_map[tn.site_tag(s)]
        holder[s] = set(tn.tensor_map[tid].inds)
    for s in w.sites:
        for r in w.sites:
            if r != s and holder[s] & holder[r]:
                nb[s].append(r)
    frontier = [(a,)]
    seen = {a}
    while frontier:
        done = [q for q in frontier if q[-1] == b]
        if done:
            return done
        nxt = []
        for q in frontier:
            for r in nb[q[-1]]:
                if r not in seen or r == b:
                    nxt.append(q + (r,))
        seen |= {q[-1] for q in nxt}
        frontier = nxt
    return []


def p_gate_simple(w, st):
    """gate_simple_(G, where, gauges, renorm=False, cutoff=0.0): nearest
    neighbour, single site, and the long range fallback with its path
    options."""
    p = Plan()
    tn = w.tn
    where = _tt(st["w"])
    k = len(where)
    dw = [w.dims[i] for i in _idx(w, where)]
    kindop, form = st.get("op", ("generic", "mat"))
    G = _op(kindop, dw, (kindop, tuple(dw), "gs", st.get("n", 0)))
    if w.gauges is None:
        w.gauges = _make_gauges(w, st.get("g", "all"))
        # the gauges are part of the state: recompute the reference once
        w.ref = _dense(tn, w.labels, w.gauges)
    if not _chain_like(w):
        # simple update works on one tensor per site that holds the site's physical label(s)
        p.skip = "needs-one-tensor-per-site"
        return p
    kw = {"max_bond": None, "cutoff": 0.0, "renorm": bool(st.get("renorm", False))}
    kw.update(_flag_kw(st.get("f", "n")))
    if st.get("path") is not None:
        if st["path"] in ("seq", "seq-last"):
            paths = _site_paths(w, where[0], where[1]) if k == 2 else []
            if not paths:
                p.skip = "no-path"
                return p
            kw["path"] = paths[0] if st["path"] == "seq" else paths[-1]
        else:
            kw["path"] = st["path"]  # int (cyclic choice among the shortest paths) or 'random'
    if st.get("m") is not None:
        kw["contract"] = st["m"]
    if k > 2:
        p.reject = "simple>2sites"
        p.rej_types = (NotImplementedError,)
    bonded = True
    if k == 2:
        (ta,), (tb,) = (tn.tag_map[tn.site_tag(s)] for s in where)
        bonded = bool(set(tn.tensor_map[ta].inds) & set(tn.tensor_map[tb].inds))
        if not bonded:
            if st.get("m") is not None:
                # gate_opts (contract=...) are documented for the nearest neighbour gate only
                p.skip = "contract-option-needs-bonded-pair"
                return p
            if w.kind == "op":
                p.root = "simple-long-range-operator"
    if k == 1 and isinstance(where[0], tuple) and not st.get("wt"):
        p.root = "simple-bare-tuple-site"
    gauges = w.gauges
    p.gated = where
    p.tol = TOL_SIMPLE
    p.scale_free = kw["renorm"]
    which = "site" if w.kind == "vec" else "sandwich"
    wa = where if (k > 1 or st.get("wt")) else where[0]
    if st.get("inp", True):
        p.call = lambda: tn.gate_simple_(_G_form(G, dw, form), wa, gauges, **kw)
    else:
        p.call = lambda: tn.gate_simple(_G_form(G, dw, form), wa, gauges, **kw)
    p.newref = _vec_apply(w, _flagged(G, st.get("f", "n")), where, which)
    return p


def p_inds_with_tn(w, st):
    """TensorNetwork.gate_inds_with_tn(inds, gate, inner, outer): the gate is
    a Tensor, a split two-tensor network or carries labels the target does
    not have (documented: both gate labels then stay open)."""
    p = Plan()
    qtn = _qtn()
    tn = w.tn
    where = _tt(st["w"])  # labels; may contain one absent label '_absent'
    present = [l for l in where if l in w.sites]
    dw = []
    for l in where:
        dw.append(w.dims[w.sites.index(l)] if l in w.sites else 2)
    k = len(where)
    G = _op("generic", dw, ("wtn", tuple(dw), "reuse" if st.get("reuse") else st.get("n", 0)))
    Gt = G.reshape(dw + dw)
    inner = tuple("r%d" % i for i in range(k)) if st.get("names") == "lr" else tuple("gi%d" % i for i in range(k))
    outer = tuple("l%d" % i for i in range(k)) if st.get("names") == "lr" else tuple("go%d" % i for i in range(k))
    T = qtn.Tensor(Gt, outer + inner, tags=["G"])
    form = st.get("m", "tensor")
    if st.get("bond") in tn.ind_map:
        p.skip = "user-gate-network-clashes-with-target-labels"
        return p
    if form == "split" and k >= 2:
        gate = T.split((outer[0], inner[0]), cutoff=0.0, bond_ind=st.get("bond", "gb"))
    elif form == "tn":
        gate = qtn.TensorNetwork([T])
    else:
        gate = T
    if st.get("reuse"):
        # the same gate object (same inner bond label) for every application
        gate = w.cache.setdefault(("gate-tn", tuple(dw), form, st.get("names")), gate)
    p.check_tags = False
    p.check_struct = True
    fn = tn.gate_inds_with_tn_ if st.get("inp") else tn.gate_inds_with_tn
    ia = where if not st.get("str") else where[0]
    ii = inner if not st.get("str") else inner[0]
    oo = outer if not st.get("str") else outer[0]
    p.call = lambda: fn(ia, gate, ii, oo)
    # reference: contract G's inner axes with the present labels; absent ones
    # leave both gate labels open (appended: outer label then inner label)
    ts = [(w.ref, tuple(w.sites))]
    glabels = []
    for n, l in enumerate(where):
        glabels.append(("new", l) if l in w.sites else outer[n])
    for n, l in enumerate(where):
        glabels.append(l if l in w.sites else inner[n])
    ts.append((Gt, tuple(glabels)))
    out = [("new", l) if l in where else l for l in w.sites]
    newlabels = list(w.sites)
    for n, l in enumerate(where):
        if l not in w.sites:
            out += [outer[n], inner[n]]
            newlabels += [outer[n], inner[n]]
    p.newref = _einsum(ts, out)
    p.newlabels = tuple(newlabels)
    p.newdims = tuple(p.newref.shape)
    return p


def p_tensor_gate(w, st):
    """Tensor.gate(G, ind, preserve_inds=, transpose=)."""
    p = Plan()
    t = w.tn
    (ind,) = st["w"]
    ax = w.sites.index(ind)
    d = w.dims[ax]
    G = _op(st.get("op", ("generic", "mat"))[0], [d], ("tg", d))
    f = st.get("f", "n")
    kw = {}
    if f == "t":
        kw["transpose"] = True
    if "pi" in st:
        kw["preserve_inds"] = st["pi"]
    fn = t.gate_ if st.get("inp") else t.gate
    p.call = lambda: fn(G, ind, **kw)
    p.newref = np.moveaxis(np.tensordot(_flagged(G, f), w.ref, axes=(1, ax)), 0, ax)
    p.check_tags = False
    return p


ENTRIES = {
    "gate": p_gate,
    "gate_inds": p_gate_inds,
    "gate_split": p_gate_split,
    "gate_with_auto_swap": p_auto_swap,
    "swap": p_swap,
    "gate_nonlocal": p_nonlocal,
    "gate_with_submpo": p_submpo,
    "gate_with_mpo": p_submpo,
    "op_lazy": p_op_lazy,
    "gate_sandwich_inds": p_sandwich_inds,
    "gate_sandwich_with_auto_swap": p_sandwich_auto_swap,
    "gate_simple": p_gate_simple,
    "gate_inds_with_tn": p_inds_with_tn,
    "tensor_gate": p_tensor_gate,
}


# --------------------------------------------------------------------------- #
#                               step evaluation                               #
# --------------------------------------------------------------------------- #


def _sig(w, st, check, p=None, **extra):
    sig = {"entry": st["e"], "fam": w.fam, "mode": str(st.get("m")), "flag": st.get("f", "n"), "check": check}
    if w.kind == "op" and st.get("which") is not None:
        sig["which"] = st["which"]
    if p is not None and p.root:
        sig["root"] = p.root
    sig.update(extra)
    return sig


def _describe(w, st):
    return "%s on %s: %s" % (st["e"], list(w.tspec), {k: v for k, v in st.items() if k != "e"})


def do_step(w, st):
    """-> ('ok', outcome) | ('rej', what) | ('skip', what) | ('bad', [problems])"""
    qtn = _qtn()
    if w.gauges is not None and st["e"] != "gate_simple":
        # the bond weights are part of the state: only the simple-update gate knows about them
        # (contracting or splitting across a weighted bond with a plain gate is a misuse)
        return ("skip", "Precondition:%s:gauged-state-needs-gate_simple" % st["e"])
    p = ENTRIES[st["e"]](w, st)
    if p.skip:
        return ("skip", "Precondition:%s:%s" % (st["e"], p.skip))
    tn = w.tn
    is_tensor = w.kind == "tensor"
    if not is_tensor:
        pre_struct = _struct(tn)
        pre_tagged = _site_tag_state(w) if w.kind in ("vec", "op") else {}
        pre_site_tags = {tn.site_tag(s) for s in w.sites if tn.site_tag(s) in tn.tag_map} if w.kind in ("vec", "op") else set()
        # tags of the tensors currently holding the labels about to be gated
        old_tags = set()
        if w.kind in ("vec", "op") and p.gated:
            for s in p.gated:
                labs = _site_labels(w, s)
                if w.kind == "op" and p.which in ("upper", "lower"):
                    labs = (labs[0],) if p.which == "upper" else (labs[1],)
                for ix in labs:
                    for tid in _holder(tn, ix):
                        old_tags |= set(tn.tensor_map[tid].tags)
    try:
        out = p.call()
    except np.linalg.LinAlgError as ex:
        return ("bad", [core.problem("%s raised LinAlgError: %s" % (_describe(w, st), str(ex)[:200]), **_sig(w, st, "crash", p, exc="LinAlgError"))])
    except Exception as ex:
        name = type(ex).__name__
        if p.reject and isinstance(ex, p.rej_types):
            return ("rej", "%s:%s:%s" % (st["e"], p.reject, name))
        return ("bad", [core.problem("%s raised %s: %s" % (_describe(w, st), name, str(ex)[:300]), **_sig(w, st, "crash", p, exc=name))])
    probs = []
    if out is None:
        return ("bad", [core.problem("%s returned None" % _describe(w, st), **_sig(w, st, "struct", p))])
    if st.get("inp") and out is not tn and st["e"] not in ("gate_simple",):
        probs.append(core.problem("%s: the in-place spelling returned a different object" % _describe(w, st), **_sig(w, st, "struct", p)))
    newref = p.newref
    newdims = p.newdims or w.dims
    labels = getattr(p, "newlabels", None) or w.labels
    # ---- value / outer labels
    if is_tensor:
        if set(out.inds) != set(w.labels):
            probs.append(core.problem("%s: labels %r became %r" % (_describe(w, st), w.labels, out.inds), **_sig(w, st, "outer", p)))
        else:
            if st.get("pi", True) and tuple(out.inds) != tuple(w.labels):
                probs.append(core.problem("%s: preserve_inds but label order %r became %r" % (_describe(w, st), w.labels, out.inds), **_sig(w, st, "outer", p)))
            got = np.asarray(out.transpose(*w.labels).data)
            err = ref.relerr(got, newref)
            if not err <= p.tol:
                probs.append(core.problem("%s: value differs from the reference, rel err %.3g" % (_describe(w, st), err), **_sig(w, st, "value", p)))
    else:
        ts, cnt = _scan(out, w.gauges)
        got_outer = {l for l, c in cnt.items() if c == 1}  # multiplicities among the tensors only (gauge vectors not counted)
        if got_outer != set(labels):
            probs.append(
                core.problem(
                    "%s: outer labels changed: lost %r, new %r" % (_describe(w, st), sorted(set(labels) - got_outer, key=str), sorted(got_outer - set(labels), key=str)),
                    **_sig(w, st, "outer", p),
                )
            )
        else:
            try:
                got = _einsum(ts, labels)
            except ValueError as ex:
                got = None
                probs.append(core.problem("%s: result is not a consistent network: %s" % (_describe(w, st), str(ex)[:200]), **_sig(w, st, "outer", p)))
            if got is not None:
                ex_ = getattr(out, "exponent", 0.0)
                if ex_:
                    got = got * 10.0 ** float(ex_)
                if p.scale_free:
                    a, b = got.reshape(-1), np.asarray(newref).reshape(-1)
                    c = np.vdot(b, a) / max(np.vdot(b, b).real, 1e-300)
                    err = ref.relerr(a, c * b)
                    if not (abs(c.imag) <= 1e-7 * abs(c) and c.real > 0):
                        err = float("inf")
                    newref = np.asarray(newref) * c.real
                else:
                    err = ref.relerr(got, np.asarray(newref).reshape(got.shape) if np.asarray(newref).size == got.size else newref)
                if not err <= p.tol:
                    probs.append(core.problem("%s: dense form differs from operator x original, rel err %.3g" % (_describe(w, st), err), **_sig(w, st, "value", p)))
        # ---- structure
        if p.check_struct:
            post = _struct(out)
            if post != pre_struct:
                diff = {k: (pre_struct.get(k), post.get(k)) for k in set(pre_struct) | set(post) if pre_struct.get(k) != post.get(k)}
                probs.append(core.problem("%s: class / naming changed: %r" % (_describe(w, st), diff), **_sig(w, st, "struct", p)))
        # ---- tags
        if w.kind in ("vec", "op") and p.check_tags and not any(q["sig"]["check"] == "outer" for q in probs):
            probs += _check_tags(w, st, p, out, pre_tagged, pre_site_tags, old_tags)
    if probs:
        return ("bad", probs)
    # ---- commit
    w.tn = out
    w.ref = np.asarray(newref).reshape(newdims if w.kind != "op" else tuple(newdims) * 2) if w.kind in ("vec", "op") else np.asarray(newref)
    w.dims = tuple(newdims)
    if getattr(p, "newlabels", None):
        w.labels = p.newlabels
        w.sites = p.newlabels
    return ("ok", None)


def _check_tags(w, st, p, out, pre_tagged, pre_site_tags, old_tags):
    probs = []
    tagmap = out.tag_map
    lost = sorted(t for t in pre_site_tags if t not in tagmap)
    if lost:
        probs.append(core.problem("%s: site tags %r disappeared" % (_describe(w, st), lost), **_sig(w, st, "tags", p)))
        return probs
    w2 = World()
    w2.tn, w2.kind, w2.sites = out, w.kind, w.sites
    post_tagged = _site_tag_state(w2)
    propagating = (not p.lazy) or (p.pt in ("sites", "register", True))
    for s in w.sites:
        if not pre_tagged.get(s):
            continue
        gated = _tt(s) in tuple(_tt(x) for x in p.gated)
        if gated and not propagating:
            continue
        if not post_tagged[s]:
            probs.append(core.problem("%s: the tensor holding the physical label of site %r no longer carries %r" % (_describe(w, st), s, out.site_tag(s)), **_sig(w, st, "tags", p)))
            return probs
    if st["e"] != "gate" or st.get("m") in MODES_1D:
        return probs
    # gate tensors: the holders of the gated labels after the call
    valid = set(out.site_tags) if hasattr(out, "site_tags") else set()
    for s in p.gated:
        labs = _site_labels(w2, s)
        if w.kind == "op" and p.which in ("upper", "lower"):
            labs = (labs[0],) if p.which == "upper" else (labs[1],)
        for ix in labs:
            for tid in _holder(out, ix):
                t = out.tensor_map[tid]
                have = set(t.tags)
                if not set(p.utags) <= have:
                    probs.append(core.problem("%s: requested tags %r missing on the tensor holding %r (tags %r)" % (_describe(w, st), p.utags, ix, sorted(have)), **_sig(w, st, "tags", p)))
                    return probs
                if not p.lazy:
                    continue
                # sites whose labels this gate tensor holds
                own = set()
                for s2 in p.gated:
                    if any(l in t.inds for l in _site_labels(w2, s2)):
                        own.add(out.site_tag(s2))
                if p.pt is False:
                    want = set(p.utags)
                elif p.pt == "register":
                    want = set(p.utags) | own
                elif p.pt == "sites":
                    want = set(p.utags) | {x for x in old_tags if x in valid}
                else:
                    want = set(p.utags) | set(old_tags)
                if have != want:
                    probs.append(
                        core.problem(
                            "%s: gate tensor holding %r has tags %r, propagate_tags=%r documents %r" % (_describe(w, st), ix, sorted(have), p.pt, sorted(want)),
                            **_sig(w, st, "tags", p, pt=str(p.pt)),
                        )
                    )
                    return probs
    return probs


# --------------------------------------------------------------------------- #
#                                table worker                                 #
# --------------------------------------------------------------------------- #


def cell_fn(cell, common=None):
    w = build(cell["t"])
    steps = [dict(s) for s in cell["steps"]]
    for n, st in enumerate(steps):
        st = {k: _tt(v) for k, v in st.items()}
        last = n == len(steps) - 1
        r = do_step(w, st)
        if not last:
            if r[0] != "ok":
                # the prefix is itself a cell of the depth-1 table: reported there
                return table.rejected("history:prefix-%s" % r[0])
            continue
        if r[0] == "ok":
            key = core.digest(core.jsonable(cell))
            nt = _nontrivial(w, st)
            return table.ok(key=key, nontrivial=nt, outcome=_outcome(w, st))
        if r[0] in ("rej", "skip"):
            return table.rejected(r[1])
        return table.bad(r[1])


def _nontrivial(w, st):
    """A case is non-trivial when the operator is not the identity and the
    target has more than one site / label."""
    if st.get("op", ("generic",))[0] == "identity":
        return False
    return len(w.sites) > 1


def _outcome(w, st):
    k = len(st.get("w", ()))
    return "%s:%s:%s:k%d:%s" % (w.fam, st["e"], st.get("m"), k, st.get("f", "n"))


def replay(case):
    return table.replay(sys.modules[__name__], case)


# --------------------------------------------------------------------------- #
#                                enumeration                                  #
# --------------------------------------------------------------------------- #

C = "complex128"
# {transpose} x {dagger}: every entry point that takes both options gets all four combinations; the
# docstrings say "transpose ... implied by dagger", so 'b' (both True) means G^dagger everywhere
FLAGS4 = ("n", "t", "d", "b")


def _targets(tier):
    q = tier == "quick"
    T = {}
    T["mps"] = [("mps", (2, 2, 2), (2, 3), C), ("mps", (2, 3, 2), (2, 3), C), ("mps", (2, 2, 2, 2), (2, 3), C), ("mps", (2, 3, 2, 2), (3, 2), C), ("mps", (2, 2, 2), (2, 3), "float64")]
    T["cmps"] = [("cmps", (2, 2, 2), (2, 3), C), ("cmps", (2, 3, 2, 2), 2, C)]
    T["mpo"] = [("mpo", (2, 2, 2), 2, C), ("mpo", (2, 3, 2), 2, C)]
    T["peps"] = [("peps", 2, 2, 2, 2)]
    T["gvec"] = [("gvec", "tree", (2, 3, 2, 2), 2), ("gvec", "ring", (2, 2, 3, 2), 2), ("gvec", "named", (2, 3, 2), 2)]
    T["gop"] = [("gop", "tree", (2, 2, 3, 2), 2)]  # centre node: 2 bonds + 2 physical labels beside the shared bond -> the real sandwich reduce-split path
    T["dense1d"] = [("dense1d", (2, 2, 2))]
    T["raw"] = [("raw", ("a", "b", "c", "d"), (2, 3, 2, 2)), ("raw", ("p", "q", "s", "t"), (2, 3, 2, 2)), ("raw", ("l1", "r0", "l0", "r1"), (2, 2, 3, 2))]
    T["tensor"] = [("tensor", ("a", "b", "c"), (2, 3, 2))]
    # non-default site / tag naming (appended: the index based selections above stay as they are)
    T["mps"] += [("mps", (2, 3, 2), (2, 3), C, "custom")]
    T["mpo"] += [("mpo", (2, 2, 2), 2, C, "custom")]
    T["gvec"] += [("gvec", "tree", (2, 2, 3, 2), 2, "custom")]
    if not q:
        T["mps"] += [("mps", (3, 2, 2, 3, 2), (2, 3), C), ("mps", (3, 3, 3), 2, C)]
        T["cmps"] += [("cmps", (2, 2, 2, 2, 2), 2, C)]
        T["mpo"] += [("mpo", (2, 2, 3, 2), 2, C), ("cmpo", (2, 2, 2), 2, C)]
        T["peps"] += [("peps", 2, 3, 2, 2), ("peps", 2, 2, 2, 3)]
        T["gvec"] += [("gvec", "tri", (2, 2, 3), 2)]
        T["gop"] += [("gop", "named", (2, 3, 2), 2), ("pepo", 2, 2, 2, 2)]
        T["dense1d"] += [("dense1d", (3, 3))]
    return T


def _sites_of(t):
    fam = t[0]
    if fam in ("mps", "cmps", "mpo", "cmpo"):
        return tuple(range(len(t[1])))
    if fam in ("peps", "pepo"):
        return tuple((i, j) for i in range(t[1]) for j in range(t[2]))
    if fam in ("gvec", "gop"):
        return GRAPHS[t[1]][0]
    if fam == "dense1d":
        return tuple(range(len(t[1])))
    if fam in ("raw", "tensor"):
        return tuple(t[1])
    raise KeyError(fam)


def _wheres(t, kmax, tier, k3="some"):
    """every ordered tuple of distinct sites of size 1..2; size 3: every
    ordered triple (thorough) or the ascending triples plus one rotated and
    one reversed order per triple (quick)."""
    sites = _sites_of(t)
    out = []
    for k in range(1, min(kmax, len(sites)) + 1):
        if k < 3 or tier != "quick" or k3 == "all":
            out += list(itertools.permutations(sites, k))
        else:
            for c in itertools.combinations(sites, 3):
                out += [c, (c[1], c[2], c[0]), (c[2], c[1], c[0])]
    return out


def _modes_for(t):
    fam = t[0]
    if fam in ("mps", "cmps", "dense1d"):
        return GENERIC + MODES_1D
    return GENERIC


def _cells_modes(tier):
    """A: target x where x contract mode x {plain, transpose, dagger}."""
    T = _targets(tier)
    cells = []
    flags = FLAGS4
    for fam in ("mps", "cmps", "peps", "gvec", "dense1d"):
        for t in T[fam]:
            for where in _wheres(t, 3, tier):
                for m in _modes_for(t):
                    for f in flags:
                        if f != "n" and _static_reject(t, where, m):
                            continue  # a predicted rejection is not crossed with the flags
                        cells.append({"t": t, "steps": ({"e": "gate", "w": where, "m": m, "f": f},)})
    return cells


def _static_reject(t, where, m):
    """modes that reject every where of size 3 on a one-tensor-per-site target"""
    return len(where) >= 3 and t[0] != "dense1d" and m in ("split", "reduce-split", "split-gate", "swap-split-gate", "swap+split")


def _cells_ops(tier):
    """B: target x where (k <= 2) x mode x operator kind x form, plus the
    in-place spelling and the explicit 1-tuple ``where``."""
    T = _targets(tier)
    cells = []
    fams = ("mps", "cmps", "peps", "gvec", "dense1d")
    for fam in fams:
        ts = T[fam] if tier != "quick" else T[fam][1:2] + T[fam][:1] if fam == "mps" else T[fam][:1]
        for t in ts:
            for where in _wheres(t, 2, tier):
                kinds = ("generic", "real", "identity", "diag") + (("product", "swaplike") if len(where) == 2 else ())
                for m in _modes_for(t):
                    for kind in kinds:
                        for form in ("mat", "ten"):
                            if kind == "generic" and form == "mat":
                                continue  # table A
                            cells.append({"t": t, "steps": ({"e": "gate", "w": where, "m": m, "op": (kind, form)},)})
                    cells.append({"t": t, "steps": ({"e": "gate", "w": where, "m": m, "inp": True},)})
                    if len(where) == 2:
                        cells.append({"t": t, "steps": ({"e": "gate", "w": where, "m": m, "wl": True},)})
                    if len(where) == 1:
                        cells.append({"t": t, "steps": ({"e": "gate", "w": where, "m": m, "wt": True},)})
    return cells


def _cells_tags(tier):
    """C: lazy and contracting modes x propagate_tags x tags."""
    T = _targets(tier)
    cells = []
    for fam in ("mps", "cmps", "peps", "gvec", "dense1d", "mpo", "gop"):
        ts = T[fam] if tier != "quick" else T[fam][:1]
        for t in ts:
            for where in _wheres(t, 2, tier):
                for m in GENERIC:
                    for pt in ("sites", "register", False, True):
                        for tags in (None, "GT"):
                            whiches = (None,) if fam not in ("mpo", "gop") else (None, "upper", "lower")
                            for wh in whiches:
                                st = {"e": "gate", "w": where, "m": m, "pt": pt}
                                if tags:
                                    st["tags"] = tags
                                if wh:
                                    st["which"] = wh
                                cells.append({"t": t, "steps": (st,)})
    return cells


NONLOCAL_METHODS = ("direct", "dm", "zipup", "zipup-first", "lazy")


def _cells_1d(tier):
    """D: the chain routines: gate_split, gate_with_auto_swap, swaps,
    gate_nonlocal, gate_with_submpo, gate_with_mpo."""
    T = _targets(tier)
    cells = []
    for fam in ("mps", "cmps"):
        for t in T[fam]:
            L = len(t[1])
            pairs = list(itertools.permutations(range(L), 2))
            for where in pairs:
                for f in FLAGS4:
                    for inp in (False, True):
                        cells.append({"t": t, "steps": ({"e": "gate_split", "w": where, "f": f, "inp": inp},)})
                    for sb in (True, False):
                        for kind in ("generic", "swaplike", "product"):
                            for form in ("mat", "ten"):
                                cells.append({"t": t, "steps": ({"e": "gate_with_auto_swap", "w": where, "f": f, "sb": sb, "op": (kind, form)},)})
                for m in ("swap_sites", "swap_to"):
                    for inp in (False, True):
                        cells.append({"t": t, "steps": ({"e": "swap", "w": where, "m": m, "inp": inp},)})
                # compress options other than the exact profile: quimb's defaults / only a roomy max_bond
                for co in ("default", "mb"):
                    for f in FLAGS4:
                        cells.append({"t": t, "steps": ({"e": "gate_with_auto_swap", "w": where, "f": f, "co": co},)})
                        for m in ("swap+split", "auto-mps", "split", "reduce-split") + (("nonlocal",) if fam == "mps" else ()):
                            cells.append({"t": t, "steps": ({"e": "gate", "w": where, "m": m, "f": f, "co": co},)})
            if fam == "cmps":
                continue  # 1D compression is documented as open boundary only
            for where in _wheres(t, 3, tier, k3="all"):
                if len(where) < 2:
                    continue
                for m in NONLOCAL_METHODS:
                    for f in FLAGS4:  # gate_nonlocal documents transpose and dagger
                        for dims in (False, True):
                            cells.append({"t": t, "steps": ({"e": "gate_nonlocal", "w": where, "m": m, "f": f, "dims": dims},)})
                    for f in ("n", "t"):
                        for wg in (False, True):
                            cells.append({"t": t, "steps": ({"e": "gate_with_submpo", "w": where, "m": m, "f": f, "wgiven": wg},)})
                        cells.append({"t": t, "steps": ({"e": "gate_with_submpo", "w": where, "m": m, "f": f, "ipo": True},)})
            for m in NONLOCAL_METHODS[:3]:
                for f in ("n", "t"):
                    for inp in (False, True):
                        cells.append({"t": t, "steps": ({"e": "gate_with_mpo", "w": (), "m": m, "f": f, "inp": inp},)})
    return cells


def _cells_lazyop(tier):
    """E: gate_with_op_lazy / gate_{upper,lower,sandwich}_with_op_lazy."""
    T = _targets(tier)
    cells = []
    for fam in ("mps", "cmps", "peps", "gvec"):
        for t in T[fam]:
            specs = ["all"]
            if fam in ("mps", "cmps"):
                specs += [w for w in _wheres(t, 3, tier) if len(w) >= 2]
            for a in specs:
                for f in ("n", "t"):
                    for inp in (False, True):
                        cells.append({"t": t, "steps": ({"e": "op_lazy", "a": a, "f": f, "inp": inp},)})
                    cells.append({"t": t, "steps": ({"e": "op_lazy", "a": a, "f": f, "ipo": True},)})
    for fam in ("mpo", "gop"):
        for t in T[fam]:
            specs = ["all"]
            if fam == "mpo":
                specs += [w for w in _wheres(t, 2, tier) if len(w) >= 2]
            for a in specs:
                for side in ("upper", "lower", "sandwich"):
                    for f in ("n", "t") if side != "sandwich" else ("n", "d"):
                        for inp in (False, True):
                            cells.append({"t": t, "steps": ({"e": "op_lazy", "a": a, "m": side, "f": f, "inp": inp},)})
    return cells


def _cells_operator(tier):
    """F: operator networks: gate(which=...) and its spellings x modes x
    flags, gate_sandwich_inds, MPO.gate_sandwich_with_auto_swap."""
    T = _targets(tier)
    cells = []
    flags = FLAGS4
    for fam in ("mpo", "gop"):
        for t in T[fam]:
            for where in _wheres(t, 3, tier):
                for m in GENERIC:
                    for f in flags:
                        if f != "n" and _static_reject(t, where, m):
                            continue
                        for wh in (None, "sandwich", "both", "upper", "lower", "m:upper", "m:lower", "m:sandwich"):
                            st = {"e": "gate", "w": where, "m": m, "f": f}
                            if wh:
                                st["which"] = wh
                            cells.append({"t": t, "steps": (st,)})
                        for form in ("mat", "ten"):
                            cells.append({"t": t, "steps": ({"e": "gate_sandwich_inds", "w": where, "m": m, "f": f, "op": ("generic", form)},)})
                    if len(where) == 1:
                        cells.append({"t": t, "steps": ({"e": "gate_sandwich_inds", "w": where, "m": m, "str": True},)})
            if fam == "mpo" and t[0] == "mpo":
                L = len(t[1])
                for where in itertools.permutations(range(L), 2):
                    for m in ("split", "reduce-split"):
                        for f in ("n", "d"):
                            for sb in (True, False):
                                for strip in (False, True):
                                    cells.append({"t": t, "steps": ({"e": "gate_sandwich_with_auto_swap", "w": where, "m": m, "f": f, "sb": sb, "strip": strip},)})
                    for m in ("swap_sites", "swap_to"):
                        cells.append({"t": t, "steps": ({"e": "swap", "w": where, "m": m},)})
    return cells


def _cells_simple(tier):
    """G: simple update gating (gauges are part of the state)."""
    T = _targets(tier)
    cells = []
    for fam in ("peps", "gvec", "mps", "cmps", "gop", "mpo"):
        ts = T[fam] if tier != "quick" else T[fam][:2]
        for t in ts:
            if t[0] == "pepo":
                continue
            sites = _sites_of(t)
            for where in _wheres(t, 3 if tier != "quick" else 2, tier):
                if len(where) == 3:
                    # documented NotImplementedError for > 2 sites: one cell per where, not crossed
                    cells.append({"t": t, "steps": ({"e": "gate_simple", "w": where},)})
                    continue
                for f in FLAGS4:
                    for g in ("all", "half"):
                        for form in ("mat", "ten"):
                            st = {"e": "gate_simple", "w": where, "f": f, "g": g, "op": ("generic", form)}
                            cells.append({"t": t, "steps": (st,)})
                if len(where) == 2:
                    for path in (0, 1, "seq", "seq-last", "random"):
                        for f in ("n", "d"):
                            cells.append({"t": t, "steps": ({"e": "gate_simple", "w": where, "path": path, "f": f},)})
                    for m in ("split", "reduce-split"):
                        cells.append({"t": t, "steps": ({"e": "gate_simple", "w": where, "m": m},)})
                    cells.append({"t": t, "steps": ({"e": "gate_simple", "w": where, "renorm": True},)})
                    cells.append({"t": t, "steps": ({"e": "gate_simple", "w": where, "inp": False},)})
                else:
                    cells.append({"t": t, "steps": ({"e": "gate_simple", "w": where, "wt": True},)})
    return cells


def _cells_raw(tier):
    """H: plain networks with user labels (gate_inds incl. parametrised gates
    and a label given as a bare string, gate_inds_with_tn), bare tensors."""
    T = _targets(tier)
    cells = []
    for t in T["raw"]:
        labels = t[1]
        for where in _wheres(t, 3, tier, k3="all"):
            for m in GENERIC:
                if len(where) >= 3 and m in ("split-gate", "swap-split-gate"):
                    # rejected for every where of size 3: one cell, not crossed with flags / forms
                    cells.append({"t": t, "steps": ({"e": "gate_inds", "w": where, "m": m},)})
                    continue
                for f in FLAGS4:
                    for form in ("mat", "ten"):
                        cells.append({"t": t, "steps": ({"e": "gate_inds", "w": where, "m": m, "f": f, "op": ("generic", form)},)})
                for kind in ("product", "swaplike", "diag", "identity"):
                    if len(where) != 2 and kind in ("product", "swaplike"):
                        continue
                    cells.append({"t": t, "steps": ({"e": "gate_inds", "w": where, "m": m, "op": (kind, "mat")},)})
                cells.append({"t": t, "steps": ({"e": "gate_inds", "w": where, "m": m, "tags": "GT", "inp": True},)})
                if len(where) <= 2:
                    cells.append({"t": t, "steps": ({"e": "gate_inds", "w": where, "m": m, "param": True},)})
                if len(where) == 1:
                    cells.append({"t": t, "steps": ({"e": "gate_inds", "w": where, "m": m, "str": True},)})
        # gate_inds_with_tn
        for where in _wheres(t, 2, tier):
            for form in ("tensor", "tn", "split"):
                for names in ("g", "lr"):
                    for inp in (False, True):
                        cells.append({"t": t, "steps": ({"e": "gate_inds_with_tn", "w": where, "m": form, "names": names, "inp": inp},)})
                    cells.append({"t": t, "steps": ({"e": "gate_inds_with_tn", "w": where, "m": form, "names": names, "bond": "b"},)})
            if len(where) == 1:
                cells.append({"t": t, "steps": ({"e": "gate_inds_with_tn", "w": where, "m": "tensor", "str": True},)})
            # one absent label (documented: both gate labels stay open)
            for pos in range(len(where) + 1):
                wa = where[:pos] + ("_absent",) + where[pos:]
                if len(wa) <= 2:
                    cells.append({"t": t, "steps": ({"e": "gate_inds_with_tn", "w": wa, "m": "tensor"},)})
    for t in T["tensor"]:
        for ind in t[1]:
            for f in ("n", "t"):
                for pi in (None, True, False):
                    for inp in (False, True):
                        for kind in ("generic", "real"):
                            st = {"e": "tensor_gate", "w": (ind,), "f": f, "inp": inp, "op": (kind, "mat")}
                            if pi is not None:
                                st["pi"] = pi
                            cells.append({"t": t, "steps": (st,)})
    return cells


def _first_steps(t, tier):
    """menu of single steps used as FIRST event of a history."""
    fam = t[0]
    out = []
    for where in _wheres(t, 2, tier):
        for m in _modes_for(t):
            st = {"e": "gate", "w": where, "m": m}
            out.append(st)
    return out


def _cells_hist(tier):
    """I: depth-2 histories: every (first step, second step) pair of the
    single-step menu (where of size <= 2 x every contract mode; operators:
    x {sandwich, upper, lower}); the second step uses a different operator
    and alternates the flag so both orders of (plain, dagger) occur."""
    T = _targets(tier)
    cells = []
    ts = [T["mps"][0], T["raw"][1]]
    if tier != "quick":
        ts += [T["mps"][1], T["cmps"][0], T["peps"][0], T["peps"][1], T["gvec"][0], T["mpo"][0], T["raw"][2]]
    for t in ts:
        fam = t[0]
        if fam == "raw":
            menu = []
            for where in _wheres(t, 2, tier):
                for m in GENERIC:
                    menu.append({"e": "gate_inds", "w": where, "m": m})
        elif fam in ("mpo",):
            menu = []
            for where in _wheres(t, 2, tier):
                for m in GENERIC:
                    for wh in (None, "upper"):
                        st = {"e": "gate", "w": where, "m": m}
                        if wh:
                            st["which"] = wh
                        menu.append(st)
        else:
            menu = _first_steps(t, tier)
            if fam in ("mps", "cmps"):
                L = len(t[1])
                for where in itertools.permutations(range(L), 2):
                    menu.append({"e": "gate_with_auto_swap", "w": where, "sb": False})
                    menu.append({"e": "gate_nonlocal", "w": where, "m": "lazy"})
            if fam in ("peps", "gvec"):
                for where in _wheres(t, 2, tier):
                    st = {"e": "gate_simple", "w": where}
                    if len(where) == 1:
                        st["wt"] = True  # the bare 2D coordinate is a known finding of table 'simple'
                    menu.append(st)
        cells.append((t, menu))
    return cells


def _hist_pairs(t, firsts, menu):
    cells = []
    for a in firsts:
        for b in menu:
            b2 = dict(b)
            b2["n"] = 1
            b2["f"] = ("d", "n", "b")[(len(a["w"]) + len(b["w"])) % 3]
            if b2["f"] in ("d", "b") and (b2["e"] == "gate_nonlocal" or (b2["e"] == "gate" and b2["m"] in ("nonlocal", "auto-mps"))):
                b2["f"] = "t"  # gate_nonlocal documents transpose only (the dispatcher's dagger is table 'modes')
            cells.append({"t": t, "steps": (dict(a), b2)})
    return cells


def _reuse_menu(t):
    """steps that hand the SAME operator / gate-network / array object to
    quimb every time they occur in a history"""
    fam = t[0]
    sites = _sites_of(t)
    menu = []
    if fam in ("mps", "cmps"):
        subs = [(0, 1), (0, 2), (2, 0)]
        for f in ("n", "t"):
            menu.append({"e": "op_lazy", "a": "all", "f": f, "reuse": True})
        menu.append({"e": "op_lazy", "a": "all", "inp": True, "reuse": True})
        for a in subs:
            menu.append({"e": "op_lazy", "a": a, "reuse": True})
            menu.append({"e": "gate_with_submpo", "w": a, "m": "lazy", "reuse": True})
        menu.append({"e": "gate_with_submpo", "w": (0, 2), "m": "lazy", "f": "t", "inp": True, "reuse": True})
        if fam == "mps":
            menu.append({"e": "gate_with_mpo", "w": (), "m": "direct", "reuse": True})
            menu.append({"e": "gate_with_submpo", "w": (0, 2), "m": "direct", "reuse": True})
        for m in (False, "split-gate", True):
            menu.append({"e": "gate", "w": (0, 1), "m": m, "reuse": True})
        menu.append({"e": "gate", "w": (1, 0), "m": False, "f": "d", "reuse": True})
        menu.append({"e": "gate_nonlocal", "w": (0, 2), "m": "lazy"})
    elif fam in ("peps", "gvec"):
        for f in ("n", "t"):
            menu.append({"e": "op_lazy", "a": "all", "f": f, "reuse": True})
        menu.append({"e": "op_lazy", "a": "all", "inp": True, "reuse": True})
        for m in (False, "split-gate", True):
            menu.append({"e": "gate", "w": (sites[0], sites[1]), "m": m, "reuse": True})
        menu.append({"e": "gate", "w": (sites[1], sites[0]), "m": False, "f": "d", "reuse": True})
    elif fam in ("mpo", "gop"):
        for side in ("upper", "lower", "sandwich"):
            menu.append({"e": "op_lazy", "a": "all", "m": side, "reuse": True})
        menu.append({"e": "op_lazy", "a": "all", "m": "upper", "f": "t", "reuse": True})
        menu.append({"e": "op_lazy", "a": "all", "m": "lower", "f": "t", "inp": True, "reuse": True})
        menu.append({"e": "op_lazy", "a": "all", "m": "sandwich", "f": "d", "reuse": True})
        if fam == "mpo":
            for side in ("upper", "lower", "sandwich"):
                menu.append({"e": "op_lazy", "a": (0, 2), "m": side, "reuse": True})
        for wh in (None, "upper", "lower"):
            st = {"e": "gate", "w": (sites[0], sites[1]), "m": False, "reuse": True}
            if wh:
                st["which"] = wh
            menu.append(st)
        menu.append({"e": "gate", "w": (sites[0], sites[1]), "m": "split-gate", "reuse": True})
    elif fam == "raw":
        lab = sites
        for form in ("tensor", "tn", "split"):
            for wh in ((lab[0], lab[1]), (lab[2], lab[0])):
                menu.append({"e": "gate_inds_with_tn", "w": wh, "m": form, "reuse": True})
        menu.append({"e": "gate_inds_with_tn", "w": (lab[0], lab[1]), "m": "split", "names": "lr", "inp": True, "reuse": True})
        for m in (False, "split-gate", "swap-split-gate", True):
            menu.append({"e": "gate_inds", "w": (lab[0], lab[2]), "m": m})
    return menu


def _cells_reuse(tier):
    """K: histories of depth 2 (all targets) and 3 (quick: the first MPS and
    MPO; thorough: all but the PEPS and the graph operator) over the re-use menu: the second and third step get the
    very same operator object as the first, nothing contracted in between."""
    T = _targets(tier)
    ts = [T["mps"][0], T["mps"][1], T["cmps"][0], T["peps"][0], T["gvec"][0], T["mpo"][0], T["gop"][0], T["raw"][1], T["raw"][0], T["mps"][5]]
    cells = []
    for n, t in enumerate(ts):
        menu = _reuse_menu(t)
        for a in menu:
            cells.append({"t": t, "steps": (dict(a),)})
            for b in menu:
                cells.append({"t": t, "steps": (dict(a), dict(b))})
                # three stacked 2D / graph operators are too costly to denote densely: depth 2 there
                if (tier != "quick" and t[0] not in ("peps", "gop")) or t in (T["mps"][0], T["mpo"][0]):
                    for c in menu:
                        cells.append({"t": t, "steps": (dict(a), dict(b), dict(c))})
    return cells


HIST3_MODES = (False, True, "split", "split-gate", "swap+split", "nonlocal")


def _cells_hist3(tier):
    """J (thorough): depth-3 histories on the 3-site open MPS over the menu
    where (size <= 2) x {False, True, split, split-gate, swap+split,
    nonlocal}."""
    if tier == "quick":
        return []
    t = _targets(tier)["mps"][0]
    menu = [{"e": "gate", "w": where, "m": m} for where in _wheres(t, 2, tier) for m in HIST3_MODES]
    return [(t, menu)]


TABLES = [
    ("modes", _cells_modes),
    ("ops", _cells_ops),
    ("tags", _cells_tags),
    ("chain", _cells_1d),
    ("lazyop", _cells_lazyop),
    ("operator", _cells_operator),
    ("simple", _cells_simple),
    ("raw", _cells_raw),
    ("reuse", _cells_reuse),
    ("hist", _cells_hist),
    ("hist3", _cells_hist3),
]


def _dedup(cells):
    seen = set()
    out = []
    for c in cells:
        k = core.digest(core.jsonable(c))
        if k not in seen:
            seen.add(k)
            out.append(c)
    return out


SIG_CAP = 3


def _install_violation_cap(ctx):
    """One broken line of the gating core fails under hundreds of (family,
    mode, flag, which) signatures, and every NEW signature is replayed three
    times by the determinism gate (one fresh interpreter each).  Signatures
    matching a known finding are always recorded; of the new ones at most
    SIG_CAP per (entry, check) are handed to the runner, the rest are only
    counted (``violations.more-of[entry:check]``) - the run fails either way
    and the recorded cases are the first in enumeration order."""
    known = core.load_known(ctx.prop_id)
    orig = ctx.violation
    groups = collections.Counter()

    def violation(prob, case):
        sig = prob["sig"]
        k = core.sig_key(sig)
        if k not in ctx.viol and core.match_known(sig, known) is None:
            g = "%s:%s" % (sig.get("entry"), sig.get("check"))
            if groups[g] >= SIG_CAP:
                ctx.counters["violations.more-of[%s]" % g] += 1
                return
            groups[g] += 1
        orig(prob, case)

    ctx.violation = violation


def run(ctx):
    only = ctx.opts.get("only")
    quick = ctx.tier == "quick"
    ctx.rule = (
        "every cell (target network, one or two gating steps) of the tables modes / ops / tags / chain / lazyop / operator / simple / raw / hist is "
        "evaluated on the real quimb entry point and followed by the full oracle (dense form by one numpy einsum = operator embedded on `where` in "
        "the given order times the original; outer label set; site tags; class and naming); a case is (target family + dims + bonds, entry point, "
        "ordered where, mode / method, transpose/dagger flag, operator kind and form, tag options, in-place spelling[, first step]); it is "
        "non-trivial when the operator is not the identity and the target has more than one site"
    )
    ctx.bounds = {
        "targets": core.jsonable(_targets(ctx.tier)),
        "where": "every ordered tuple of distinct sites of size 1..2; size 3: " + ("ascending + one rotated + the reversed order per triple" if quick else "every ordered triple"),
        "modes": [str(m) for m in GENERIC + MODES_1D],
        "flags": "the full product {transpose} x {dagger}: plain, transpose, dagger, both (documented: transpose is implied by dagger, so both = G^dagger) for every entry point taking both options; entry points with one option get that one",
        "operators": "generic complex, generic real, identity, diagonal, product, swap-like (rank one across the gate); as matrix and as 2k-tensor",
        "nonlocal_methods": list(NONLOCAL_METHODS),
        "history_depth": "2" if quick else "2 (8 targets), 3 on the 3-site open MPS with 6 modes",
        "max_bond/cutoff": "None / 0.0 everywhere",
    }
    ctx.assumptions += [
        "split / reduce-split need two distinct tensors sharing exactly one bond and act on <= 2 sites; split-gate / swap-split-gate on <= 2 sites; parametrised gates on > 1 site need contract=False (ValueError predicted from the pre-state, anything else is a violation)",
        "the 1D chain routines (swap+split, nonlocal, gate_split, gate_with_auto_swap, gate_nonlocal, gate_with_submpo/mpo, swaps) are offered only while the network has one tensor per site holding that site's label (counted as Precondition rejections otherwise)",
        "gate_nonlocal / gate_with_submpo / gate_with_mpo only on open chains (tensor_network_1d_compress documents open boundaries) and with the deterministic methods direct, dm, zipup, zipup-first, lazy; the full method table is C09's",
        "gate_upper(G) = E M, gate_lower(G) = M E^T, gate_sandwich(G) = E M E^+; dagger / transpose replace G by G^+ / G^T in each; dagger and transpose together mean dagger (documented: transpose is implied by dagger)",
        "gate_simple: renorm=False for exactness (renorm=True compared up to a positive factor), hand-made positive gauges on all or every second bond are part of the state's denotation; tolerance 1e-7 (default smudge 1e-12, long range gate split with the default cutoff 1e-10)",
        "dm / zipup compressions are compared to 1e-7 (square roots of eigenvalues), everything else to 1e-9 relative to the largest entry",
        "tags: in lazy modes the new gate tensors must carry exactly requested tags + the documented propagate_tags set; in contracting modes the tensor holding a site's label keeps the site tag; the chain routines take no tags",
        "gate_fit_local_ (variational, approximate by design) is not asserted",
    ]
    _install_violation_cap(ctx)
    for name, gen in TABLES:
        if only and name not in only.split(","):
            continue
        if name == "hist":
            # phase 1: the single-step menu; phase 2: every (accepted and
            # correct first step) x (menu) pair.  First steps that are
            # rejected or violating are cells of the depth-1 tables.
            cells = []
            nmenu = 0
            for t, menu in gen(ctx.tier):
                res = ctx.pmap("cell_fn", [{"t": t, "steps": (dict(a),)} for a in menu])
                firsts = [a for a, r in zip(menu, res) if isinstance(r, dict) and r.get("st") == "ok"]
                nmenu += len(menu)
                ctx.counters["hist.menu[%s]" % (t[0],)] += len(menu)
                ctx.counters["hist.first_steps_ok[%s]" % (t[0],)] += len(firsts)
                cells += _hist_pairs(t, firsts, menu)
        elif name == "hist3":
            cells = []
            for t, menu in gen(ctx.tier):
                res = ctx.pmap("cell_fn", [{"t": t, "steps": (dict(a),)} for a in menu])
                firsts = [a for a, r in zip(menu, res) if isinstance(r, dict) and r.get("st") == "ok"]
                pairs = _hist_pairs(t, firsts, menu)
                res = ctx.pmap("cell_fn", pairs)
                okpairs = [c for c, r in zip(pairs, res) if isinstance(r, dict) and r.get("st") == "ok"]
                ctx.counters["hist3.prefixes_ok"] += len(okpairs)
                for c in okpairs:
                    a, b = c["steps"]
                    for d in menu:
                        d2 = dict(d)
                        d2["n"] = 2
                        d2["f"] = "t" if (len(a["w"]) + len(d["w"])) % 2 else "n"
                        cells.append({"t": t, "steps": (a, b, d2)})
            if not cells:
                continue
        else:
            cells = _dedup(gen(ctx.tier))
        if ctx.opts.get("limit"):
            cells = cells[: int(ctx.opts["limit"])]
            ctx.cap("--opt limit=%s used" % ctx.opts["limit"])
        t0 = ctx.elapsed()
        n_ok, n_rej, n_bad = table.run(ctx, "cell_fn", cells, name=name)
        ctx.notes.setdefault("table_wall_s", {})[name] = round(ctx.elapsed() - t0, 1)
        ctx.subproducts.append("%s: %d cells complete (%d evaluations ok, %d rejections, %d violating)" % (name, len(cells), n_ok, n_rej, n_bad))

"""C13 - every route to a local expectation / reduced state gives the dense
answer.

TableExplorer (DESIGN.md section 3, C13).  A *cell* is

    (structure, variant, route, ordered site tuple ``where``)

and fans out into one evaluation per option combination of the route
(normalisation flag, output form, operator form, term-dict form incl.
``return_all``, gauge / canonisation start, cluster mode, loop set, combine
rule, boundary mode / canonize / layer_tags / autogroup, flatten / reduce /
symmetrized / method).  Every list is a complete deterministic enumeration:
all ordered site tuples of the stated sizes on every structure, crossed with
the option product of the route.  ``VERIF_SEED`` selects the data fill only.

Structures: open / cyclic MPS (phys dim 2 and 3), PEPS 2x2 / 2x3 / 3x2,
PEPS3D 2x2x2, arbitrary-geometry vector networks (star with mixed physical
dimensions, rings with int / str sites, triangle+tail, diamond with tuple
sites), a network with a hyper bond and a two-tensor site.  Variants: plain,
with simple-update gauges (Vidal form), with part of the scale moved into
``tn.exponent`` (``equalize_norms_(1.0)``).  Operator networks (MPO open /
cyclic, PEPO, arbitrary geometry) for ``trace`` / ``partial_transpose``.

Oracle (numpy only, everything needed is in ``mc.ref``): the state is DENOTED
by the labelled arrays of the network (times 10**exponent, with the bond gauge
vectors contracted in as hyper labels when gauges are passed) - one explicit
``np.einsum`` over the labels gives the dense vector psi.  Then

    <O>_where  = <psi| embed(O, where) |psi>   (/ <psi|psi> when normalised)
    rho_where  = Tr_rest |psi><psi|  with the kept sites in the ORDER of
                 ``where``                    (/ <psi|psi> when normalised)
                 Hermitian, trace 1 or <psi|psi>

with O's tensor factors attached to the sites in the order given.  Operators
are generic complex, non-symmetric, non-Hermitian and not exchange symmetric,
states are complex and deliberately un-normalised, so a transposed operator,
a sorted ``where``, a swapped ket/bra group, a conjugated layer or a norm
instead of norm**2 all change the number.

Conventions established on the real code (not defects):
  * the 2D plaquette route keys one-site terms by the bare coordinate and
    two-site terms by pairs with ij_a < ij_b (``calc_plaquette_map`` uses
    ``combinations``): a reversed pair is a documented ``KeyError`` rejection
    (probed once per cell); ``mode='full-bond'`` needs an integer cap;
  * 1D canonical routes / arbitrary-geometry routes take ``where`` as a tuple
    of sites in any order;
  * cyclic MPS: the canonical routes raise ``NotImplementedError`` (documented
    "Only supports OBC"); ``MatrixProductState.partial_trace`` is a deliberate
    rename notice;
  * loop / cluster expansions are only asserted when one region of the
    expansion is the whole network (then every other region has counting
    number 0 and the expansion is exact whatever the gauges are);
    ``autoreduce`` is only combined with networks without dangling sites;
  * ``partial_trace(reduce=True)`` (experimental) handles exactly two kept
    sites (``reduce_inds_onto_bond(inda, indb)``);
  * ``correlation`` / ``magnetization`` do not normalise: they are fed
    normalised states only.

Root-cause signatures: ``entry`` (method), ``cls`` (mps / peps / peps3d / gen /
hyper / operator), ``check`` (value / trace / hermitian / shape / type /
crash / input-mutated), ``exc`` for crashes, and ``root`` when the CASE
contains a trigger of a known finding (bare site where the docs say 'node or
sequence', default gauges=None of the gloop expansion, int key in 1D term
dicts, get='tensor' with normalisation, inherited dispatcher on classes that
override partial_trace, exponent + un-normalised) - see
known_findings.d/C13.json.
"""

from __future__ import annotations

import itertools
import sys

import numpy as np

from .. import core, table, ref
from ..alphabet import fill

RTOL = 1e-9  # exact contraction routes
RTOL_SVD = 2e-8  # routes that go through (untruncating) SVD / QR sweeps

_Q = {}


def _qtn():
    if "qtn" not in _Q:
        import quimb.tensor as qtn

        try:
            # harness seam: cotengra's hyper-optimiser (optimize='auto-hq' on the
            # larger overlaps) would fork a process pool of its own from every
            # worker (and from the multi-threaded runner during replays, where
            # the forked child deadlocks); mark this process as a pool worker so
            # parallel='auto' resolves to a serial path search.  Only the path
            # search is affected, never a contraction.
            import cotengra.parallel as _cp

            _cp._IS_WORKER = True
        except Exception:  # pragma: no cover
            pass
        _Q["qtn"] = qtn
    return _Q["qtn"]


def _tt(x):
    if isinstance(x, (list, tuple)):
        return tuple(_tt(v) for v in x)
    return x


# --------------------------------------------------------------------------- #
#                                 structures                                  #
# --------------------------------------------------------------------------- #

# arbitrary-geometry networks: site -> phys dim, list of (site_a, site_b, D)
GEN = {
    # star: site 1 is the hub; mixed physical dimensions
    "tree4": dict(sites=(0, 1, 2, 3), dims=(2, 3, 2, 2), edges=((0, 1, 2), (1, 2, 3), (1, 3, 2))),
    # ring with string site labels
    "ring4": dict(sites=("a", "b", "c", "d"), dims=(2, 2, 2, 2), edges=(("a", "b", 2), ("b", "c", 3), ("c", "d", 2), ("d", "a", 2))),
    "ring3": dict(sites=(0, 1, 2), dims=(2, 2, 3), edges=((0, 1, 2), (1, 2, 2), (2, 0, 3))),
    # triangle with a tail (loop + dangling site)
    "tritail": dict(sites=(0, 1, 2, 3), dims=(2, 2, 2, 2), edges=((0, 1, 2), (1, 2, 2), (2, 0, 2), (2, 3, 3))),
    # two triangles sharing an edge (two independent loops), tuple site labels
    "diamond": dict(sites=((0, 0), (0, 1), (1, 0), (1, 1)), dims=(2, 2, 2, 2), edges=(((0, 0), (0, 1), 2), ((0, 0), (1, 0), 2), ((0, 1), (1, 1), 2), ((1, 0), (1, 1), 2), ((0, 1), (1, 0), 2))),
    "ring5": dict(sites=(0, 1, 2, 3, 4), dims=(2, 2, 2, 2, 2), edges=((0, 1, 2), (1, 2, 2), (2, 3, 2), (3, 4, 2), (4, 0, 2))),
    # triangle + tail with rank-1 weight tensors on the physical labels of sites
    # 1 (in the loop) and 3 (the tail): hyper OUTER labels, no hyper bonds, so
    # every route that selects by site tag applies
    "tritailw": dict(sites=(0, 1, 2, 3), dims=(2, 2, 2, 3), edges=((0, 1, 2), (1, 2, 2), (2, 0, 2), (2, 3, 3)), weights=(1, 3)),
}

STRUCTS = {
    "mps4": dict(cls="mps", L=4, D=3, cyclic=False),
    "mps5": dict(cls="mps", L=5, D=2, cyclic=False),
    "mps4c": dict(cls="mps", L=4, D=2, cyclic=True),
    "mps3": dict(cls="mps", L=3, D=2, cyclic=False, p=3),
    "peps22": dict(cls="peps", Lx=2, Ly=2, D=2),
    "peps23": dict(cls="peps", Lx=2, Ly=3, D=2),
    "peps32": dict(cls="peps", Lx=3, Ly=2, D=2),
    # wide / tall lattices whose tensors have norm ~ 1e3, so that the exponents an
    # equalize_norms boundary contraction strips are far from 0 (routes 2d_eq only)
    "peps24": dict(cls="peps", Lx=2, Ly=4, D=2, scale=220.0),
    "peps42": dict(cls="peps", Lx=4, Ly=2, D=2, scale=220.0),
    "peps3d": dict(cls="peps3d", Lx=2, Ly=2, Lz=2, D=2),
    "hyper": dict(cls="hyper"),
}
for _k, _v in GEN.items():
    STRUCTS[_k] = dict(cls="gen", **_v)


class St:
    """One built structure: the quimb network, its sites (fixed order), the
    physical dimensions and the dense reference state."""

    def __init__(self, name, gauged, expo=False):
        self.name = name
        self.gauged = bool(gauged)
        self.expo = bool(expo)
        self.spec = STRUCTS[name]
        self.cls = self.spec["cls"]
        self.tn, self.sites = _build(name)
        if expo:
            # same state, but part of its scale lives in tn.exponent (what
            # equalize_norms / strip_exponent style conditioning leaves behind)
            self.tn.equalize_norms_(1.0)
            if abs(float(self.tn.exponent)) < 0.05:
                raise RuntimeError("exponent variant of %s has no exponent" % name)
        self.gauges = None
        if gauged:
            # simple-update (Vidal) form: the state is DENOTED by tensors and
            # bond vectors together; the reference below reads it off that way
            self.gauges = {}
            self.tn.gauge_all_simple_(max_iterations=30, tol=1e-9, gauges=self.gauges)
        self.dims = tuple(int(self.tn.ind_size(self.tn.site_ind(s))) for s in self.sites)
        self.N = len(self.sites)
        self.psi = self._dense()
        self.norm2 = float(np.vdot(self.psi, self.psi).real)
        # some physical label sits on more than one tensor (hyper OUTER label)
        self.hyper_phys = any(len(self.tn.ind_map[self.tn.site_ind(x)]) > 1 for x in self.sites)
        self.graph = _adjacency(self.tn, self.sites)
        self.no_dangling = all(len(v) >= 2 for v in self.graph.values())
        self.is_ring = all(len(v) == 2 for v in self.graph.values()) and self.N >= 3

    def _dense(self):
        ts = [(np.asarray(t.data), tuple(t.inds)) for t in self.tn]
        if self.gauges:
            for ix, g in self.gauges.items():
                ts.append((np.asarray(g), (ix,)))
        out = tuple(self.tn.site_ind(s) for s in self.sites)
        return ref.tn_value(ts, out, exponent=float(self.tn.exponent)).reshape(-1)

    def fresh(self):
        """a copy for routes that move the gauge in place"""
        return self.tn.copy()

    def w(self, where):
        return tuple(self.sites[i] for i in where)


def _adjacency(tn, sites):
    tag2site = {tn.site_tag(s): s for s in sites}
    adj = {s: set() for s in sites}
    for ix, tids in tn.ind_map.items():
        ss = set()
        for tid in tids:
            for tg in tn.tensor_map[tid].tags:
                if tg in tag2site:
                    ss.add(tag2site[tg])
        for a in ss:
            adj[a] |= ss - {a}
    return adj


def _refill(tn, name, scale=1.0):
    """replace every array by alphabet data (generic complex), keyed by the
    position of the tensor: VERIF_SEED selects the fill."""
    for n, t in enumerate(tn):
        t.modify(data=scale * fill("generic", t.shape, "complex128", key=("c13", name, n)))
    return tn


def _build(name):
    qtn = _qtn()
    sp = STRUCTS[name]
    cls = sp["cls"]
    if cls == "mps":
        L, D = sp["L"], sp["D"]
        p = sp.get("p", 2)
        arrays = []
        for i in range(L):
            if sp["cyclic"]:
                shp = (D, D, p)
            elif i == 0:
                shp = (D, p)
            elif i == L - 1:
                shp = (D, p)
            else:
                shp = (D, D, p)
            arrays.append(fill("generic", shp, "complex128", key=("c13", name, i)))
        tn = qtn.MatrixProductState(arrays, shape="lrp")
        return tn, tuple(range(L))
    if cls == "peps":
        tn = qtn.PEPS.rand(sp["Lx"], sp["Ly"], bond_dim=sp["D"], phys_dim=2, seed=7, dtype="complex128")
        _refill(tn, name, sp.get("scale", 1.0))
        return tn, tuple((i, j) for i in range(sp["Lx"]) for j in range(sp["Ly"]))
    if cls == "peps3d":
        tn = qtn.PEPS3D.rand(sp["Lx"], sp["Ly"], sp["Lz"], bond_dim=sp["D"], phys_dim=2, seed=7, dtype="complex128")
        _refill(tn, name)
        return tn, tuple((i, j, k) for i in range(sp["Lx"]) for j in range(sp["Ly"]) for k in range(sp["Lz"]))
    if cls == "gen":
        sites = tuple(sp["sites"])
        tn = qtn.TensorNetworkGenVector.new(sites=sites, site_tag_id="I{}", site_ind_id="k{}")
        for n, (s, d) in enumerate(zip(sites, sp["dims"])):
            inds, shp = [], []
            for e, (a, b, D) in enumerate(sp["edges"]):
                if s in (a, b):
                    inds.append("bond%d" % e)
                    shp.append(D)
            inds.append("k{}".format(s))
            shp.append(d)
            tn |= qtn.Tensor(fill("generic", shp, "complex128", key=("c13", name, n)), inds=inds, tags=["I{}".format(s)])
        for s in sp.get("weights", ()):
            d = sp["dims"][sites.index(s)]
            tn |= qtn.Tensor(fill("generic", (d,), "complex128", key=("c13", name, "w", s)) + 1.5, inds=["k{}".format(s)], tags=["I{}".format(s)])
        return tn, sites
    if cls == "hyper":
        # hyper inner label 'h' shared by three tensors, site 1 held by two
        # tensors (its physical label sits on one of them), a plain bond, and a
        # hyper physical label on site 2
        sites = (0, 1, 2)
        tn = qtn.TensorNetworkGenVector.new(sites=sites, site_tag_id="I{}", site_ind_id="k{}")
        shapes = [
            (("h", "k0"), (2, 2), ["I0"]),
            (("h", "x", "k1"), (2, 2, 2), ["I1"]),
            (("x", "y"), (2, 3), ["I1"]),
            (("h", "y", "k2"), (2, 3, 2), ["I2"]),
            # rank-1 weight on the physical label of site 2: 'k2' is a hyper
            # OUTER label (kept or traced out depending on where)
            (("k2",), (2,), ["I2"]),
        ]
        for n, (inds, shp, tags) in enumerate(shapes):
            tn |= qtn.Tensor(fill("generic", shp, "complex128", key=("c13", name, n)), inds=inds, tags=tags)
        return tn, sites
    raise KeyError(name)


_ST = {}


def _struct(name, gauged=False, expo=False):
    k = (name, bool(gauged), bool(expo))
    if k not in _ST:
        _ST[k] = St(name, gauged, expo)
    return _ST[k]


# --------------------------------------------------------------------------- #
#                                  reference                                  #
# --------------------------------------------------------------------------- #


def _op(st, where, tag="G"):
    """generic complex operator on the sites ``where`` (indices into
    st.sites), as a matrix whose tensor factors follow the order of where"""
    d = int(np.prod([st.dims[i] for i in where]))
    return fill("generic", (d, d), "complex128", key=("c13op", st.name, tag) + tuple(where))


def _expec(st, G, where, normalized):
    v = np.vdot(st.psi, ref.apply_op(G, st.psi, st.dims, where))
    return v / st.norm2 if normalized else v


def _rdm(st, where, normalized):
    r = ref.ptrace(st.psi, st.dims, where)
    return r / st.norm2 if normalized else r


def _classify_rho(got, want):
    """hint for the message only (never part of the signature)"""
    hints = []
    try:
        if got.shape == want.shape:
            if ref.close(got.T, want, 1e-7):
                hints.append("equals reference TRANSPOSED")
            if ref.close(got.conj(), want, 1e-7):
                hints.append("equals reference CONJUGATED")
            tg, tw = np.trace(got), np.trace(want)
            if abs(tg) > 1e-12 and ref.close(got * (tw / tg), want, 1e-7):
                hints.append("equals reference up to the scalar %r" % (tg / tw,))
    except Exception:
        pass
    return "; ".join(hints)


class Out:
    """collects the results of one cell"""

    def __init__(self, st, cell):
        self.st = st
        self.cell = cell
        self.res = []

    def sig(self, entry, check, **kw):
        s = dict(entry=entry, cls=self.st.cls, check=check)
        s.update(kw)
        return s

    # (normalized='global' is a NORMALISED request: it must not be folded into the exponent finding)
    UNNORM = ("normalized=False", "normalized=return", "what=norm", "what=mpo", "what=fn-mpo", "unnormalised")

    def bad(self, entry, check, sub, msg, **kw):
        if self.st.expo and check in ("value", "trace") and any(t in sub for t in self.UNNORM):
            # root from the case: network carries an exponent AND an un-normalised quantity was requested
            kw["root"] = "exponent-ignored"
        s = self.sig(entry, check, **kw)
        head = "%s on %s%s%s where=%r [%s]: " % (entry, self.st.name, "+gauges" if self.st.gauged else "", "+exponent" if self.st.expo else "", self.st.w(self.cell["where"]), sub)
        self.res.append(table.bad(core.problem(head + msg, **s), sub=sub))

    def ok(self, entry, sub, nontrivial=True, outcome=None):
        key = (self.st.name, self.st.gauged, self.st.expo, entry, tuple(self.cell["where"]), sub)
        self.res.append(table.ok(key=repr(key), nontrivial=nontrivial, outcome=outcome or entry, sub=sub))

    def rej(self, what, sub):
        self.res.append(table.rejected(what, sub=sub))

    # -- comparisons ------------------------------------------------------- #
    def scalar(self, entry, sub, got, want, rtol=RTOL, scale=None, nontrivial=True, **kw):
        try:
            g = complex(np.asarray(got).reshape(()))
        except Exception as ex:
            self.bad(entry, "type", sub, "result %r is not a scalar (%s)" % (type(got).__name__, ex), **kw)
            return False
        sc = max(abs(want), scale or 0.0, 1e-300)
        if not np.isfinite(g) or abs(g - want) > rtol * sc:
            self.bad(entry, "value", sub, "got %r, dense reference %r (rel.err %.2e)" % (g, complex(want), abs(g - want) / sc), **kw)
            return False
        self.ok(entry, sub, nontrivial=nontrivial)
        return True

    def rho(self, entry, sub, got, want, normalized, rtol=RTOL, nontrivial=True, **kw):
        got = np.asarray(got)
        if got.shape != want.shape:
            self.bad(entry, "shape", sub, "reduced density matrix has shape %r, expected %r" % (got.shape, want.shape), **kw)
            return False
        sc = float(np.max(np.abs(want)))
        if not ref.close(got, got.conj().T, rtol, atol=rtol * sc):
            self.bad(entry, "hermitian", sub, "reduced density matrix is not Hermitian (defect %.2e)" % ref.relerr(got, got.conj().T), **kw)
            return False
        tr = np.trace(got)
        wtr = 1.0 if normalized else self.st.norm2
        if abs(tr - wtr) > rtol * max(1.0, wtr):
            self.bad(entry, "trace", sub, "trace %r, requested normalisation gives %r" % (complex(tr), wtr), **kw)
            return False
        if not ref.close(got, want, rtol):
            self.bad(entry, "value", sub, "reduced density matrix differs from the reference partial trace (rel.err %.2e) %s" % (ref.relerr(got, want), _classify_rho(got, want)), **kw)
            return False
        self.ok(entry, sub, nontrivial=nontrivial)
        return True


def _call(out, entry, sub, fn, rejections=(), **kw):
    """run fn(); documented rejections -> rejection; anything else raised is a
    violation (the property says every available route gives the answer)."""
    try:
        return True, fn()
    except np.linalg.LinAlgError as ex:
        out.bad(entry, "crash", sub, "raised LinAlgError: %s" % (str(ex)[:200],), exc="LinAlgError", **kw)
    except rejections as ex:
        out.rej("%s:%s" % (entry, type(ex).__name__), sub)
    except Exception as ex:
        out.bad(entry, "crash", sub, "raised %s: %s" % (type(ex).__name__, str(ex)[:300]), exc=type(ex).__name__, **kw)
    return False, None


# --------------------------------------------------------------------------- #
#                 routes of TensorNetworkGenVector (all classes)              #
# --------------------------------------------------------------------------- #

DOC_NODE_WHERE = "bare-node-where"  # a single site given bare where the docs say 'node or sequence[node]'


def _prod(**axes):
    keys = list(axes)
    for vals in itertools.product(*(axes[k] for k in keys)):
        yield dict(zip(keys, vals))


def _sub(**kw):
    return ",".join("%s=%s" % (k, kw[k]) for k in sorted(kw))


def _second_where(st, where):
    """a second, different term for term-dict routes (sum / return_all)"""
    N = st.N
    if len(where) >= 2:
        return tuple(reversed(where))
    return ((where[0] + 1) % N,)


def r_ptr_exact(st, cell, out):
    where = cell["where"]
    w = st.w(where)
    tn = st.tn
    if st.gauged:
        return
    for o in _prod(normalized=(True, False, "return"), get=("matrix", "array", "tensor")):
        sub = _sub(**o)
        kw = dict(root="ptr-tensor-normalized") if (o["get"] == "tensor" and o["normalized"] is True) else {}
        okc, got = _call(out, "partial_trace_exact", sub, lambda: tn.partial_trace_exact(w, **o), **kw)
        if not okc:
            continue
        nf = None
        if o["normalized"] == "return":
            try:
                got, nf = got
            except Exception:
                out.bad("partial_trace_exact", "type", sub, "normalized='return' did not return a pair")
                continue
        if o["get"] == "tensor":
            kix = tuple(tn.site_ind(s) for s in w)
            bix = tuple("_bra{}".format(s) for s in w)  # bra labels in the order of where
            if set(got.inds) != set(kix + bix):
                out.bad("partial_trace_exact", "shape", sub, "get='tensor' carries labels %r" % (got.inds,), **kw)
                continue
            got = got.to_dense(kix, bix)
        elif o["get"] == "array":
            d = int(np.prod([st.dims[i] for i in where]))
            got = np.asarray(got)
            if got.shape != tuple(st.dims[i] for i in where) * 2:
                out.bad("partial_trace_exact", "shape", sub, "get='array' has shape %r" % (got.shape,))
                continue
            got = got.reshape(d, d)
        normalized = o["normalized"] is True
        if not out.rho("partial_trace_exact", sub, got, _rdm(st, where, normalized), normalized, **kw):
            continue
        if nf is not None:
            out.scalar("partial_trace_exact", sub + ",nfactor", nf, st.norm2)
    # a bare node is documented for make_reduced_density_matrix/partial_trace_exact via has_site
    if len(where) == 1:
        sub = "bare-node"
        okc, got = _call(out, "partial_trace_exact", sub, lambda: tn.partial_trace_exact(w[0], normalized=True))
        if okc:
            out.rho("partial_trace_exact", sub, got, _rdm(st, where, True), True)


def _G_forms(st, where, G):
    dd = tuple(st.dims[i] for i in where)
    yield "matrix", G
    yield "tensor", G.reshape(dd + dd)


def r_lex_exact(st, cell, out):
    where = cell["where"]
    w = st.w(where)
    tn = st.tn
    if st.gauged:
        return
    G = _op(st, where)
    for o in _prod(normalized=(True, False, "return")):
        for form, Gf in _G_forms(st, where, G):
            sub = _sub(form=form, **o)
            okc, got = _call(out, "local_expectation_exact", sub, lambda: tn.local_expectation_exact(Gf, w, **o))
            if not okc:
                continue
            if o["normalized"] == "return":
                try:
                    got, nf = got
                except Exception:
                    out.bad("local_expectation_exact", "type", sub, "normalized='return' did not return a pair")
                    continue
                if out.scalar("local_expectation_exact", sub, got, _expec(st, G, where, False), scale=st.norm2):
                    out.scalar("local_expectation_exact", sub + ",nfactor", nf, st.norm2)
            else:
                n = o["normalized"]
                out.scalar("local_expectation_exact", sub, got, _expec(st, G, where, n), scale=1.0 if n else st.norm2)


def _terms(st, where, bare=False):
    """term dict with two different terms (so that the sum and return_all are
    exercised): this cell's where and a second one"""
    w2 = _second_where(st, where)
    G1, G2 = _op(st, where), _op(st, w2, tag="G2")
    k1 = st.w(where)
    k2 = st.w(w2)
    if bare and len(where) == 1:
        k1, k2 = k1[0], k2[0]
    return {k1: G1, k2: G2}, ((k1, G1, where), (k2, G2, w2))


def _check_terms(out, entry, sub, got, info, normalized, return_all, rtol=RTOL, **kw):
    st = out.st
    wants = [(_k, _expec(st, G, wh, normalized)) for _k, G, wh in info]
    sc = 1.0 if normalized else st.norm2
    if return_all:
        if not isinstance(got, dict) or set(got) != set(k for k, _ in wants):
            out.bad(entry, "type", sub, "return_all=True did not return a dict over the given keys: %r" % (got,), **kw)
            return False
        okk = True
        for k, wv in wants:
            okk = out.scalar(entry, sub + ",term=%r" % (k,), got[k], wv, rtol=rtol, scale=sc, **kw) and okk
        return okk
    return out.scalar(entry, sub, got, sum(wv for _, wv in wants), rtol=rtol, scale=sc, **kw)


def r_cle_exact(st, cell, out):
    where = cell["where"]
    if st.gauged:
        return
    tn = st.tn
    for bare in (False, True) if len(where) == 1 else (False,):
        terms, info = _terms(st, where, bare)
        for o in _prod(normalized=(True, False), return_all=(False, True)):
            sub = _sub(bare=bare, **o)
            kw = dict(root=DOC_NODE_WHERE) if bare else {}
            okc, got = _call(out, "compute_local_expectation_exact", sub, lambda: tn.compute_local_expectation_exact(terms, **o), **kw)
            if okc:
                _check_terms(out, "compute_local_expectation_exact", sub, got, info, o["normalized"], o["return_all"], **kw)


def _cluster_modes(st):
    modes = [dict(max_distance=st.N, mode="graphdistance", fillin=0), dict(max_distance=st.N, mode="graphdistance", fillin=1)]
    if st.is_ring and st.cls != "hyper":
        modes.append(dict(max_distance=st.N, mode="loopunion", fillin=0))
    return modes


def _mkey(m):
    return "%s/f%s" % (m["mode"], m["fillin"])


def r_ptr_cluster(st, cell, out):
    where = cell["where"]
    w = st.w(where)
    tn = st.tn
    if st.cls == "peps3d":
        return  # PEPS3D overrides partial_trace_cluster with its own signature: route r_3d
    for m in _cluster_modes(st):
        for o in _prod(normalized=(True, False), get=("matrix", "array", "tensor")):
            sub = _sub(m=_mkey(m), **o)
            kw = dict(root="ptr-tensor-normalized") if (o["get"] == "tensor" and o["normalized"] is True) else {}
            okc, got = _call(out, "partial_trace_cluster", sub, lambda: tn.partial_trace_cluster(w, gauges=st.gauges, **m, **o), **kw)
            if not okc:
                continue
            if o["get"] == "array":
                d = int(np.prod([st.dims[i] for i in where]))
                got = np.asarray(got).reshape(d, d)
            elif o["get"] == "tensor":
                got = got.to_dense(tuple(tn.site_ind(s) for s in w), tuple("_bra{}".format(s) for s in w))
            out.rho("partial_trace_cluster", sub, got, _rdm(st, where, o["normalized"]), o["normalized"], **kw)


def r_lex_cluster(st, cell, out):
    where = cell["where"]
    w = st.w(where)
    tn = st.tn
    G = _op(st, where)
    for m in _cluster_modes(st):
        for o in _prod(normalized=(True, False), max_bond=(None, 64)):
            if o["max_bond"] is not None and (m["fillin"] or st.hyper_phys):
                continue  # (compressed contraction does not support hyper labels)
            sub = _sub(m=_mkey(m), **o)
            kw = {}
            extra = {}
            if o["max_bond"] is not None:
                extra = dict(optimize="auto-hq", cutoff=0.0)
                if st.cls == "mps":
                    kw = dict(root="mps-partial-trace-stub")
                elif st.cls == "peps3d":
                    kw = dict(root="peps3d-partial-trace-signature")
            okc, got = _call(out, "local_expectation_cluster", sub, lambda: tn.local_expectation_cluster(G, w, gauges=st.gauges, **m, **o, **extra), **kw)
            if okc:
                n = o["normalized"]
                out.scalar("local_expectation_cluster", sub, got, _expec(st, G, where, n), rtol=RTOL if o["max_bond"] is None else RTOL_SVD, scale=1.0 if n else st.norm2, **kw)
    if len(where) == 1:
        # docstring: 'where : node or sequence[node]'
        sub = "bare-node"
        okc, got = _call(out, "local_expectation_cluster", sub, lambda: tn.local_expectation_cluster(G, w[0], gauges=st.gauges, max_distance=st.N), root=DOC_NODE_WHERE)
        if okc:
            out.scalar("local_expectation_cluster", sub, got, _expec(st, G, where, True), root=DOC_NODE_WHERE)


def r_cle_cluster(st, cell, out):
    where = cell["where"]
    tn = st.tn
    for bare in (False, True) if len(where) == 1 else (False,):
        terms, info = _terms(st, where, bare)
        for o in _prod(normalized=(True, False), return_all=(False, True)):
            sub = _sub(bare=bare, **o)
            kw = dict(root=DOC_NODE_WHERE) if bare else {}
            okc, got = _call(out, "compute_local_expectation_cluster", sub, lambda: tn.compute_local_expectation_cluster(terms, max_distance=st.N, gauges=st.gauges, **o), **kw)
            if okc:
                _check_terms(out, "compute_local_expectation_cluster", sub, got, info, o["normalized"], o["return_all"], **kw)


# ---- loop expansions ------------------------------------------------------ #


def _norm_kinds(combine):
    # documented: bool, "prod", "local", "separate" (and "global" for the
    # compute_* variant); with one region of counting number 1 all of them
    # reduce to e / n (or e when not normalised)
    if combine == "prod":
        return (True, False, "prod", "local", "separate")
    return (True, False, "local", "separate")


def r_sloop(st, cell, out):
    """simple-loop expansion: exact when the (single) loop is the whole ring"""
    where = cell["where"]
    if not st.is_ring or st.cls == "hyper":
        return
    w = st.w(where)
    tn = st.tn
    G = _op(st, where)
    gz = st.gauges
    for o in _prod(sloops=(st.N, None), combine=("prod", "sum"), grow_from=("all", "any"), autoreduce=(True, False)):
        for normalized in (True, False, "local"):  # documented: bool or "local"
            sub = _sub(normalized=normalized, **o)
            okc, got = _call(out, "local_expectation_sloop_expand", sub, lambda: tn.local_expectation_sloop_expand(G, w, gauges=gz, normalized=normalized, **o))
            if okc:
                n = bool(normalized)
                out.scalar("local_expectation_sloop_expand", sub, got, _expec(st, G, where, n), scale=1.0 if n else st.norm2)
    if len(where) == 1:
        sub = "bare-node"  # 'where : node or sequence[node]'
        okc, got = _call(out, "local_expectation_sloop_expand", sub, lambda: tn.local_expectation_sloop_expand(G, w[0], sloops=st.N, gauges=gz), root=DOC_NODE_WHERE)
        if okc:
            out.scalar("local_expectation_sloop_expand", sub, got, _expec(st, G, where, True), root=DOC_NODE_WHERE)


def _gloop_sets(st):
    """gloops arguments for which one region is the whole network"""
    sets = [("explicit", (tuple(st.sites),))]
    if st.no_dangling:
        sets.append(("int", st.N))
    return sets


def r_gloop(st, cell, out):
    where = cell["where"]
    if st.cls == "hyper":
        return
    w = st.w(where)
    tn = st.tn
    G = _op(st, where)
    gauge_opts = [("su", st.gauges)] if st.gauged else [("empty", {}), ("none", None)]
    for gname, gz in gauge_opts:
        for sname, gl in _gloop_sets(st):
            for o in _prod(combine=("prod", "sum"), grow_from=("all", "any"), autoreduce=(True, False), autocomplete=(True, False)):
                if o["autoreduce"] and not st.no_dangling:
                    continue  # 'should only be used at a BP fixed point'
                if not o["autocomplete"] and sname == "int":
                    continue  # counting numbers need the intersections
                if gname == "none" and (o["grow_from"], o["autoreduce"], o["autocomplete"]) != ("all", True if st.no_dangling else False, True):
                    continue
                for normalized in _norm_kinds(o["combine"]):
                    if gname == "none" and (o["combine"], normalized) not in (("prod", True), ("sum", False)):
                        continue  # the documented default gauges=None: two probes per loop set
                    sub = _sub(gauges=gname, gloops=sname, normalized=normalized, **o)
                    kw = dict(root="gloop-gauges-none") if gname == "none" else {}
                    okc, got = _call(out, "local_expectation_gloop_expand", sub, lambda: tn.local_expectation_gloop_expand(G, w, gloops=gl, gauges=gz, normalized=normalized, **o), **kw)
                    if okc:
                        n = bool(normalized)
                        out.scalar("local_expectation_gloop_expand", sub, got, _expec(st, G, where, n), scale=1.0 if n else st.norm2, **kw)
    if len(where) == 1:
        sub = "bare-node"  # 'where : node or sequence[node]'
        gz = st.gauges if st.gauged else {}
        okc, got = _call(out, "local_expectation_gloop_expand", sub, lambda: tn.local_expectation_gloop_expand(G, w[0], gloops=(tuple(st.sites),), gauges=gz, autoreduce=False), root=DOC_NODE_WHERE)
        if okc:
            out.scalar("local_expectation_gloop_expand", sub, got, _expec(st, G, where, True), root=DOC_NODE_WHERE)


def r_cle_loops(st, cell, out):
    """compute_local_expectation_{sloop,gloop}_expand incl. normalized='global'"""
    where = cell["where"]
    if st.cls == "hyper":
        return
    tn = st.tn
    terms, info = _terms(st, where)
    gz = st.gauges if st.gauged else {}
    for sname, gl in _gloop_sets(st):
        for o in _prod(normalized=(True, False, "global"), return_all=(False, True), combine=("prod", "sum")):
            if o["normalized"] == "global" and st.hyper_phys:
                continue  # (the tn.H | tn norm idiom of norm_gloop_expand mangles a hyper physical label)
            ar = bool(st.no_dangling)
            sub = _sub(gloops=sname, **o)
            okc, got = _call(out, "compute_local_expectation_gloop_expand", sub, lambda: tn.compute_local_expectation_gloop_expand(terms, gloops=gl, gauges=gz, autoreduce=ar, **o))
            if okc:
                _check_terms(out, "compute_local_expectation_gloop_expand", sub, got, info, bool(o["normalized"]), o["return_all"])
    if st.is_ring:
        for o in _prod(normalized=(True, False), return_all=(False, True), sloops=(st.N, None)):
            sub = _sub(**o)
            okc, got = _call(out, "compute_local_expectation_sloop_expand", sub, lambda: tn.compute_local_expectation_sloop_expand(terms, gauges=gz, **o))
            if okc:
                _check_terms(out, "compute_local_expectation_sloop_expand", sub, got, info, o["normalized"], o["return_all"])


def r_norm_gloop(st, cell, out):
    """norm_gloop_expand (a where-independent route: one cell per structure)"""
    if st.cls == "hyper":
        return
    tn = st.tn
    gz = st.gauges if st.gauged else {}
    for sname, gl in _gloop_sets(st):
        for o in _prod(autocomplete=(False, True), autoreduce=(True, False), strip_exponent=(False, True)):
            if o["autoreduce"] and not st.no_dangling:
                continue
            sub = _sub(gloops=sname, **o) + ",unnormalised"
            okc, got = _call(out, "norm_gloop_expand", sub, lambda: tn.norm_gloop_expand(gloops=gl, gauges=gz, **o))
            if not okc:
                continue
            if o["strip_exponent"]:
                try:
                    m, e = got
                    got = m * 10.0 ** e
                except Exception:
                    out.bad("norm_gloop_expand", "type", sub, "strip_exponent=True did not return (mantissa, exponent)")
                    continue
            out.scalar("norm_gloop_expand", sub, got, np.sqrt(st.norm2))


# ---- compressed-contraction dispatchers ----------------------------------- #


def _disp_opts(tier):
    full = list(_prod(flatten=(True, False, "all"), reduce=(False, True), normalized=(True, False), symmetrized=("auto", False), method=("contract_compressed", "contract_around")))
    if tier == "thorough":
        return full
    # quick: every value of every axis against the defaults of the others + normalized crossed with everything
    keep = []
    for o in full:
        nd = sum([o["flatten"] is not True, o["reduce"], o["symmetrized"] != "auto", o["method"] != "contract_compressed"])
        if nd <= 1:
            keep.append(o)
    return keep


def _disp_valid(o, k):
    # reduce (experimental) pulls the TWO physical labels onto their bond
    # (reduce_inds_onto_bond(inda, indb)): pairs only, contract_compressed path
    if o["reduce"] and (o["method"] != "contract_compressed" or k != 2):
        return False
    return True


def r_ptr_disp(st, cell, out):
    where = cell["where"]
    if st.gauged:
        return
    w = st.w(where)
    tn = st.tn
    # MatrixProductState.partial_trace is a deliberate rename notice (AttributeError)
    rej = (AttributeError,) if st.cls == "mps" else ()
    for o in _disp_opts(cell.get("tier", "quick")):
        if not _disp_valid(o, len(where)):
            continue
        sub = _sub(**o)
        okc, got = _call(out, "partial_trace", sub, lambda: tn.partial_trace(w, max_bond=64, optimize="auto-hq", cutoff=0.0, **o), rejections=rej)
        if okc:
            out.rho("partial_trace", sub, got, _rdm(st, where, o["normalized"]), o["normalized"], rtol=RTOL_SVD)
        if st.cls == "mps":
            break


def r_lex_disp(st, cell, out):
    where = cell["where"]
    if st.gauged:
        return
    w = st.w(where)
    tn = st.tn
    G = _op(st, where)
    kwroot = dict(root="mps-partial-trace-stub") if st.cls == "mps" else dict(root="peps3d-partial-trace-signature") if st.cls == "peps3d" else {}
    for o in _disp_opts(cell.get("tier", "quick")):
        if not _disp_valid(o, len(where)) or o["method"] != "contract_compressed":
            continue
        o = {k: v for k, v in o.items() if k != "method"}
        sub = _sub(**o)
        okc, got = _call(out, "local_expectation", sub, lambda: tn.local_expectation(G, w, max_bond=64, optimize="auto-hq", cutoff=0.0, **o), **kwroot)
        if okc:
            n = o["normalized"]
            out.scalar("local_expectation", sub, got, _expec(st, G, where, n), rtol=RTOL_SVD, scale=1.0 if n else st.norm2, **kwroot)
        if st.cls in ("mps", "peps3d"):
            break  # classes that override partial_trace: one probe of the inherited route
    if len(where) == 1 and st.cls not in ("mps", "peps3d"):
        sub = "bare-node"  # 'where : node or sequence of nodes'
        okc, got = _call(out, "local_expectation", sub, lambda: tn.local_expectation(G, w[0], max_bond=64, optimize="auto-hq", cutoff=0.0), root=DOC_NODE_WHERE)
        if okc:
            out.scalar("local_expectation", sub, got, _expec(st, G, where, True), rtol=RTOL_SVD, root=DOC_NODE_WHERE)
    if st.cls in ("gen", "hyper"):
        # compute_local_expectation of the arbitrary-geometry class (1D/2D/3D classes override it)
        for bare in (False, True) if len(where) == 1 else (False,):
            terms, info = _terms(st, where, bare)
            for o in _prod(normalized=(True, False), return_all=(False, True), flatten=(True, False)):
                sub = _sub(bare=bare, **o)
                kw = dict(root=DOC_NODE_WHERE) if bare else {}
                okc, got = _call(out, "compute_local_expectation", sub, lambda: tn.compute_local_expectation(terms, max_bond=64, optimize="auto-hq", cutoff=0.0, **o), **kw)
                if okc:
                    _check_terms(out, "compute_local_expectation", sub, got, info, o["normalized"], o["return_all"], rtol=RTOL_SVD, **kw)


# --------------------------------------------------------------------------- #
#                                 1D routes                                   #
# --------------------------------------------------------------------------- #


def _canon_starts(st):
    """gauge / record options of the canonical routes: (name, prepare(fresh mps) -> info)"""
    L = st.N
    outl = [("info=None", lambda m: None), ("info={}", lambda m: {}), ("info=calc", lambda m: {"cur_orthog": "calc"})]
    for c in sorted({0, L // 2, L - 1}):

        def prep(m, c=c):
            info = {}
            m.canonicalize_(c, info=info)
            return info

        outl.append(("precanon@%d" % c, prep))
    return outl


def r_1d_canon(st, cell, out):
    """partial_trace_to_dense_canonical / local_expectation_canonical"""
    if st.cls != "mps" or st.gauged:
        return
    where = cell["where"]
    w = st.w(where)
    G = _op(st, where)
    rej = (NotImplementedError,) if st.spec["cyclic"] else ()
    forms = [("tuple", w)]
    if len(where) == 1:
        forms.append(("int", w[0]))  # 'where : int or tuple[int]'
    for sname, prep in _canon_starts(st):
        if st.spec["cyclic"] and sname != "info=None":
            continue
        for fname, wf in forms:
            for normalized in (True, False):
                sub = _sub(start=sname, form=fname, normalized=normalized)
                m = st.fresh()
                info = prep(m)
                okc, got = _call(out, "partial_trace_to_dense_canonical", sub, lambda: m.partial_trace_to_dense_canonical(wf, normalized=normalized, info=info), rejections=rej)
                if okc:
                    out.rho("partial_trace_to_dense_canonical", sub, got, _rdm(st, where, normalized), normalized, rtol=RTOL_SVD)
                m = st.fresh()
                info = prep(m)
                okc, got = _call(out, "local_expectation_canonical", sub, lambda: m.local_expectation_canonical(G, wf, normalized=normalized, info=info), rejections=rej)
                if okc:
                    out.scalar("local_expectation_canonical", sub, got, _expec(st, G, where, normalized), rtol=RTOL_SVD, scale=1.0 if normalized else st.norm2)


def _terms3(st, where, bare=False):
    """three terms, deliberately not in sweep order"""
    N = st.N
    w2 = _second_where(st, where)
    w3 = ((max(where) + 1) % N,) if len(where) > 1 else ((where[0] + 2) % N,)
    items = []
    seen = set()
    for tag, wh in (("G", where), ("G2", w2), ("G3", w3)):
        k = st.w(wh)
        if bare and len(wh) == 1:
            k = k[0]
        if k in seen:
            continue
        seen.add(k)
        items.append((k, _op(st, wh, tag=tag), wh))
    return {k: G for k, G, _ in items}, tuple(items)


def r_1d_terms(st, cell, out):
    """compute_local_expectation{,_canonical,_via_envs} with term dicts"""
    if st.cls != "mps" or st.gauged:
        return
    where = cell["where"]
    cyc = st.spec["cyclic"]
    for bare in (False, True) if len(where) == 1 else (False,):
        terms, info3 = _terms3(st, where, bare)
        kw = dict(root="1d-terms-int-key") if bare else {}
        for o in _prod(normalized=(True, False), return_all=(False, True)):
            # canonical
            for sname, prep in _canon_starts(st):
                if cyc and (sname != "info=None" or o["return_all"] or bare):
                    continue
                for inplace in (False, True):
                    for entry, extra in (("compute_local_expectation_canonical", {}), ("compute_local_expectation[1D]", {"method": "canonical"})):
                        sub = _sub(bare=bare, start=sname, inplace=inplace, **o)
                        m = st.fresh()
                        info = prep(m)
                        okc, got = _call(out, entry, sub, lambda: getattr(m, entry.replace("[1D]", ""))(terms, info=info, inplace=inplace, **extra, **o), rejections=(NotImplementedError,) if cyc else (), **kw)
                        if okc:
                            _check_terms(out, entry, sub, got, info3, o["normalized"], o["return_all"], rtol=RTOL_SVD, **kw)
            # environments
            for entry, extra in (("compute_local_expectation_via_envs", {}), ("compute_local_expectation[1D]", {"method": "envs"})):
                sub = _sub(bare=bare, m="envs", **o)
                m = st.fresh()
                okc, got = _call(out, entry, sub, lambda: getattr(m, entry.replace("[1D]", ""))(terms, **extra, **o), **kw)
                if okc:
                    _check_terms(out, entry, sub, got, info3, o["normalized"], o["return_all"], **kw)


def _mpo_for(st, tag="mpo"):
    """generic MPO on the sites of the MPS + its dense matrix (einsum of its
    arrays, upper labels = rows)"""
    qtn = _qtn()
    L = st.N
    cyc = st.spec["cyclic"]
    D = 2
    p = st.dims[0]
    arrays = []
    for i in range(L):
        if cyc or 0 < i < L - 1:
            shp = (D, D, p, p)
        else:
            shp = (D, p, p)
        arrays.append(fill("generic", shp, "complex128", key=("c13", st.name, tag, i)))
    mpo = qtn.MatrixProductOperator(arrays, shape="lrud")
    ts = [(np.asarray(t.data), tuple(t.inds)) for t in mpo]
    outl = tuple(mpo.upper_ind(i) for i in range(L)) + tuple(mpo.lower_ind(i) for i in range(L))
    d = p**L
    dense = ref.tn_value(ts, outl).reshape(d, d)
    return mpo, dense


def r_1d_expec(st, cell, out):
    """expec (where independent): <psi|psi>, <psi|O|psi> with an MPO"""
    if st.cls != "mps" or st.gauged:
        return
    tn = st.tn
    mpo, O = _mpo_for(st)
    cyc = st.spec["cyclic"]
    want_o = np.vdot(st.psi, O @ st.psi)
    for compress in (None, False, True) if cyc else (None, False):
        rt = RTOL if not compress else 1e-7
        sub = _sub(compress=compress, what="norm")
        okc, got = _call(out, "expec", sub, lambda: tn.H.expec(tn, compress=compress))
        if okc:
            out.scalar("expec", sub, got, st.norm2, rtol=rt)
        sub = _sub(compress=compress, what="mpo")
        okc, got = _call(out, "expec", sub, lambda: tn.H.expec(mpo, tn, compress=compress))
        if okc:
            out.scalar("expec", sub, got, want_o, rtol=rt, scale=st.norm2)
        sub = _sub(compress=compress, what="fn-mpo")
        okc, got = _call(out, "expec_TN_1D", sub, lambda: _qtn().expec_TN_1D(tn.H, mpo, tn, compress=compress))
        if okc:
            out.scalar("expec_TN_1D", sub, got, want_o, rtol=rt, scale=st.norm2)


def r_1d_corr(st, cell, out):
    """correlation(A, i, j, B) on the NORMALISED state (it does not normalise)"""
    if st.cls != "mps" or st.gauged:
        return
    where = cell["where"]
    if len(where) != 2:
        return
    i, j = where
    tn = st.tn / np.sqrt(st.norm2)
    A = _op(st, (i,), tag="A")
    B = _op(st, (j,), tag="B")
    one = lambda G, wh: _expec(st, G, wh, True)
    for bname, Bm in (("B", B), ("None", None)):
        Bx = A if Bm is None else Bm
        want = one(np.kron(A, Bx), (i, j)) - one(A, (i,)) * one(Bx, (j,))
        for compress in (None, True) if st.spec["cyclic"] else (None,):
            sub = _sub(B=bname, compress=compress)
            kw = {} if compress is None else {"compress": compress}
            okc, got = _call(out, "correlation", sub, lambda: tn.correlation(A, i, j, B=Bm, **kw))
            if okc:
                out.scalar("correlation", sub, got, want, rtol=RTOL if not compress else 1e-7, scale=1.0)


def r_1d_magn(st, cell, out):
    """magnetization(i, direction) = <S_direction> at site i (normalised state)"""
    if st.cls != "mps" or st.gauged or st.expo:
        return  # (never normalises: the exponent variant is covered by the normalized=False probes of the other routes)
    where = cell["where"]
    if len(where) != 1:
        return
    i = where[0]
    tn0 = st.tn / np.sqrt(st.norm2)
    S = dict(zip("XYZ", ref.spin_ops((st.dims[i] - 1) / 2)))
    rej = (NotImplementedError,) if st.spec["cyclic"] else ()
    for d in "XYZ":
        for sname, prep in _canon_starts(st):
            if st.spec["cyclic"] and sname != "info=None":
                continue
            sub = _sub(direction=d, start=sname)
            m = tn0.copy()
            info = prep(m)
            # S_y is the one non-symmetric member: a transposed operator flips its sign
            # (that defect was found here and is fixed in /repo by 4626f7c8)
            okc, got = _call(out, "magnetization", sub, lambda: m.magnetization(i, d, info=info), rejections=rej)
            if okc:
                out.scalar("magnetization", sub, got, _expec(st, S[d], where, True), rtol=RTOL_SVD, scale=1.0)


# ---- two-step histories: ONE container threaded through two queries ------- #


def _where2(st, where):
    """the second query of a history: the reflected sites (far from the first)"""
    N = st.N
    w2 = tuple(N - 1 - i for i in where)
    if w2 == tuple(where):
        w2 = tuple((i + 1) % N for i in where)
    return w2


def _steps_1d(st):
    """name -> fn(m, info, where, normalized) -> (entry, kind, got, expectation data)"""

    def ptr(m, info, where, n):
        return "partial_trace_to_dense_canonical", "rho", m.partial_trace_to_dense_canonical(st.w(where), normalized=n, info=info), None

    def lex(m, info, where, n):
        G = _op(st, where, tag="H")
        return "local_expectation_canonical", "scalar", m.local_expectation_canonical(G, st.w(where), normalized=n, info=info), G

    def mk_terms(entry, **kw):
        def f(m, info, where, n):
            terms, info3 = _terms3(st, where)
            extra = dict(kw)
            if extra.get("method") != "envs" and entry != "compute_local_expectation_via_envs":
                extra["info"] = info
            got = getattr(m, entry.replace("[1D]", ""))(terms, normalized=n, return_all=True, **extra)
            return entry, "terms", got, info3

        return f

    return {
        "ptr": ptr,
        "lex": lex,
        "cle": mk_terms("compute_local_expectation_canonical", inplace=False),
        "cle!": mk_terms("compute_local_expectation_canonical", inplace=True),
        "disp": mk_terms("compute_local_expectation[1D]", method="canonical", inplace=False),
        "disp!": mk_terms("compute_local_expectation[1D]", method="canonical", inplace=True),
        "envs": mk_terms("compute_local_expectation[1D]", method="envs"),
    }


def _check_step(out, st, entry, kind, got, data, where, n, sub, rtol, **kw):
    if kind == "rho":
        return out.rho(entry, sub, got, _rdm(st, where, n), n, rtol=rtol, **kw)
    if kind == "scalar":
        return out.scalar(entry, sub, got, _expec(st, data, where, n), rtol=rtol, scale=1.0 if n else st.norm2, **kw)
    return _check_terms(out, entry, sub, got, data, n, True, rtol=rtol, **kw)


def r_1d_hist(st, cell, out):
    """every ordered pair of 1D routes, the SAME mps object and the SAME info
    dict threaded through both calls (second query on the reflected sites):
    both answers must be the dense ones.  A route that works on a private copy
    must not leave a record about that copy in the caller's info."""
    if st.cls != "mps" or st.gauged or st.spec["cyclic"]:
        return
    where = cell["where"]
    w2 = _where2(st, where)
    steps = _steps_1d(st)
    L = st.N
    starts = [("info={}", lambda m: {}), ("info=calc", lambda m: {"cur_orthog": "calc"})]
    for c in (0, L - 1):

        def prep(m, c=c):
            info = {}
            m.canonicalize_(c, info=info)
            return info

        starts.append(("precanon@%d" % c, prep))
    norms = (True, False) if cell.get("tier") == "thorough" else (True,)
    for a, b in itertools.product(steps, repeat=2):
        for sname, prep in starts:
            for n in norms:
                m = st.fresh()
                info = prep(m)
                for k, (nm, wh) in enumerate(((a, where), (b, w2)), 1):
                    sub = _sub(h="%s>%s" % (a, b), start=sname, normalized=n, step=k)
                    kw = dict(step=k) if k > 1 else {}
                    try:
                        entry, kind, got, data = steps[nm](m, info, wh, n)
                    except Exception as ex:
                        ent = {"ptr": "partial_trace_to_dense_canonical", "lex": "local_expectation_canonical"}.get(nm, "compute_local_expectation[1D]")
                        out.bad(ent, "crash", sub, "raised %s: %s" % (type(ex).__name__, str(ex)[:200]), exc=type(ex).__name__, **kw)
                        break
                    if not _check_step(out, st, entry, kind, got, data, wh, n, sub, RTOL_SVD, **kw):
                        break


def _terms_h(st, where):
    """two terms whose operator is a function of the site tuple ONLY (tag H): a
    cache hit on (region, where) from an earlier query of the history is then
    legitimate, and gets exercised"""
    w2 = _second_where(st, where)
    items = ((st.w(where), _op(st, where, tag="H"), where), (st.w(w2), _op(st, w2, tag="H"), w2))
    return {k: G for k, G, _ in items}, items


def _steps_loops(st, family):
    """loop-expansion queries that take info=: name -> fn(info, where, n, loops) -> (entry, kind, got, data)"""
    tn = st.tn
    gz = st.gauges if st.gauged else {}
    ar = bool(st.no_dangling)
    if family == "gloop":

        def single(info, where, n, gl):
            G = _op(st, where, tag="H")
            return "local_expectation_gloop_expand", "scalar", tn.local_expectation_gloop_expand(G, st.w(where), gloops=gl, gauges=gz, autoreduce=ar, normalized=n, info=info), G

        def many(info, where, n, gl):
            terms, ti = _terms_h(st, where)
            return "compute_local_expectation_gloop_expand", "terms", tn.compute_local_expectation_gloop_expand(terms, gloops=gl, gauges=gz, autoreduce=ar, normalized=n, return_all=True, info=info), ti

        def glob(info, where, n, gl):
            terms, ti = _terms_h(st, where)
            return "compute_local_expectation_gloop_expand", "terms-global", tn.compute_local_expectation_gloop_expand(terms, gloops=gl, gauges=gz, autoreduce=ar, normalized="global", return_all=True, info=info), ti

        def norm(info, where, n, gl):
            return "norm_gloop_expand", "norm", tn.norm_gloop_expand(gloops=gl, gauges=gz, autoreduce=ar, info=info), None

        d = {"one": single, "many": many}
        if not st.hyper_phys:
            d.update({"global": glob, "norm": norm})
        return d

    def single(info, where, n, sl):
        G = _op(st, where, tag="H")
        return "local_expectation_sloop_expand", "scalar", tn.local_expectation_sloop_expand(G, st.w(where), sloops=sl, gauges=gz, normalized=n, info=info), G

    def many(info, where, n, sl):
        terms, ti = _terms_h(st, where)
        return "compute_local_expectation_sloop_expand", "terms", tn.compute_local_expectation_sloop_expand(terms, sloops=sl, gauges=gz, normalized=n, return_all=True, info=info), ti

    return {"one": single, "many": many}


def r_info_hist(st, cell, out):
    """loop expansions: the SAME info cache threaded through two successive
    queries (different sites, different operators, every pair of entry points
    of the family and every pair of loop-set arguments)."""
    if st.cls == "hyper":
        return
    where = cell["where"]
    w2 = _where2(st, where)
    fams = [("gloop", [gl for _, gl in _gloop_sets(st)])]
    if st.is_ring:
        fams.append(("sloop", [st.N, None]))
    for fam, sets in fams:
        steps = _steps_loops(st, fam)
        for a, b in itertools.product(steps, repeat=2):
            for la, lb in itertools.product(range(len(sets)), repeat=2):
                if la != lb and cell.get("tier") != "thorough":
                    continue
                for n in (True, False):
                    info = {}
                    for k, (nm, wh, li) in enumerate(((a, where, la), (b, w2, lb)), 1):
                        sub = _sub(fam=fam, h="%s>%s" % (a, b), loops="%d>%d" % (la, lb), normalized=n, step=k)
                        kw = dict(step=k) if k > 1 else {}
                        if k > 1 and (a == "global") != (b == "global") and "norm" not in (a, b):
                            # root from the case: normalized='global' (which expands a RESCALED copy) shares
                            # the cluster / value cache with a query on the network itself
                            kw["root"] = "loop-info-global-mix"
                        try:
                            entry, kind, got, data = steps[nm](info, wh, n, sets[li])
                        except Exception as ex:
                            out.bad("%s-expansion" % fam, "crash", sub, "step %s raised %s: %s" % (nm, type(ex).__name__, str(ex)[:200]), exc=type(ex).__name__, **kw)
                            break
                        if kind == "norm":
                            good = out.scalar(entry, sub + ",unnormalised", got, np.sqrt(st.norm2), **kw)
                        elif kind == "terms-global":
                            good = _check_terms(out, entry, sub.replace("normalized=%s" % n, "normalized=global"), got, data, True, True, **kw)
                        else:
                            good = _check_step(out, st, entry, kind, got, data, wh, n, sub, RTOL, **kw)
                        if not good:
                            break
        # the EXPLICIT loop / cluster list changes between the two queries through
        # one info (documented: "useful when computing various expectations with
        # different sets of loops"): the second list contains the whole network, so
        # the second answer is exact whatever the first (possibly approximate,
        # unchecked) query left in the cache.  Kept clear of the two open cache
        # findings: operator a function of the site tuple only, no 'global'.
        thorough = cell.get("tier") == "thorough"
        whole = tuple(st.sites)

        def keysites(nm, wh):
            ks = list(wh)
            if nm != "one":
                ks += [i for i in _second_where(st, wh) if i not in ks]
            return ks

        def small(nm, wh):
            """a proper sub-cluster containing every site the step asks about (+ one neighbour)"""
            ks = keysites(nm, wh)
            sites = [st.sites[i] for i in ks]
            for nb in sorted(st.graph[sites[0]], key=repr):
                if nb not in sites:
                    sites.append(nb)
                    break
            return tuple(sites) if len(set(sites)) < st.N else None

        if fam == "gloop":
            names = ["whole", "small", "small+whole"] + (["int"] if st.no_dangling else [])

            def resolve(name, nm, wh):
                if name == "whole":
                    return (whole,), True
                if name == "int":
                    return st.N, True
                sm = small(nm, wh)
                if sm is None:
                    return None, False
                return ((sm,), False) if name == "small" else ((sm, whole), True)

        else:
            names = ["explicit", "none", "int"]
            all_loops = tuple(st.tn.gen_sloops(st.N))

            def resolve(name, nm, wh):
                if name == "explicit":
                    return all_loops, True
                if name == "int":
                    return st.N, True
                return (), False

        hsteps = [x for x in steps if x in ("one", "many")] + (["norm"] if (thorough and "norm" in steps) else [])
        for a, b in itertools.product(hsteps, repeat=2):
            for la, lb in itertools.permutations(names, 2):
                for second in ("reflected", "same"):
                    for n in (True, False) if thorough else (True,):
                        wb = w2 if second == "reflected" else where
                        ga, _ = resolve(la, a, where)
                        gb, checked = resolve(lb, b, wb)
                        if ga is None or gb is None or not checked:
                            continue
                        info = {}
                        sub0 = _sub(fam=fam, h="%s>%s" % (a, b), loops="%s>%s" % (la, lb), second=second, normalized=n)
                        try:
                            steps[a](info, where, n, ga)  # first query: only its effect on the cache matters
                        except Exception as ex:
                            out.bad("%s-expansion" % fam, "crash", sub0 + ",step=1", "step %s raised %s: %s" % (a, type(ex).__name__, str(ex)[:200]), exc=type(ex).__name__)
                            continue
                        sub = sub0 + ",step=2"
                        kw = dict(step=2)
                        try:
                            entry, kind, got, data = steps[b](info, wb, n, gb)
                        except Exception as ex:
                            out.bad("%s-expansion" % fam, "crash", sub, "step %s raised %s: %s" % (b, type(ex).__name__, str(ex)[:200]), exc=type(ex).__name__, **kw)
                            continue
                        if kind == "norm":
                            out.scalar(entry, sub + ",unnormalised", got, np.sqrt(st.norm2), **kw)
                        else:
                            _check_step(out, st, entry, kind, got, data, wb, n, sub, RTOL, **kw)
        # same sites, ANOTHER operator, same info (documented: reuse while the
        # network and gauges stay the same)
        one = steps["one"]
        for n in (True, False):
            info = {}
            for k, tag in enumerate(("H", "H'"), 1):
                sub = _sub(fam=fam, h="one>one/same-where-other-operator", normalized=n, step=k)
                kw = dict(step=k, root="loop-info-cache-ignores-operator") if k > 1 else {}
                G = _op(st, where, tag=tag)
                try:
                    if fam == "gloop":
                        entry, got = "local_expectation_gloop_expand", st.tn.local_expectation_gloop_expand(G, st.w(where), gloops=sets[0], gauges=st.gauges if st.gauged else {}, autoreduce=bool(st.no_dangling), normalized=n, info=info)
                    else:
                        entry, got = "local_expectation_sloop_expand", st.tn.local_expectation_sloop_expand(G, st.w(where), sloops=sets[0], gauges=st.gauges if st.gauged else {}, normalized=n, info=info)
                except Exception as ex:
                    out.bad("%s-expansion" % fam, "crash", sub, "raised %s: %s" % (type(ex).__name__, str(ex)[:200]), exc=type(ex).__name__, **kw)
                    break
                if not out.scalar(entry, sub, got, _expec(st, G, where, n), scale=1.0 if n else st.norm2, **kw):
                    break


# --------------------------------------------------------------------------- #
#                                 2D routes                                   #
# --------------------------------------------------------------------------- #


def _opts2d(tier):
    full = list(_prod(max_bond=(None, 64), mode=("mps", "full-bond"), canonize=(True, False), layer_tags=("default", None), normalized=(True, False), autogroup=(True, False), return_all=(False, True)))
    # mode='full-bond' needs an integer cap (its sweep compares bond sizes with max_bond)
    full = [o for o in full if not (o["mode"] == "full-bond" and o["max_bond"] is None)]
    if tier == "thorough":
        return full
    keep = []
    for o in full:
        nd = sum([o["max_bond"] is not None and o["mode"] == "mps", o["mode"] != "mps", not o["canonize"], o["layer_tags"] is None])
        if nd <= 1:
            keep.append(o)
    return keep


def r_2d_plaq(st, cell, out):
    """PEPS.compute_local_expectation through plaquette environments"""
    if st.cls != "peps" or st.gauged:
        return
    where = cell["where"]
    if len(where) > 2:
        return
    tn = st.tn
    w = st.w(where)
    G = _op(st, where)
    w2 = ((where[0] + 1) % st.N,) if len(where) == 1 else ((max(where) + 1) % st.N,)
    G2 = _op(st, w2, tag="G2")
    k1 = w[0] if len(where) == 1 else w  # one-site terms keyed by the bare coordinate
    k2 = st.w(w2)[0]
    terms = {k1: G, k2: G2}
    info = ((k1, G, where), (k2, G2, w2))
    # documented: pairs are keyed with ij_a < ij_b
    rej = (KeyError,) if (len(where) == 2 and not w[0] < w[1]) else ()
    for no, o in enumerate(_opts2d(cell.get("tier", "quick"))):
        if rej and no:
            break  # the documented rejection is probed once per cell
        sub = _sub(**o)
        oo = dict(o)
        if oo.pop("layer_tags") is None:
            oo["layer_tags"] = None
        okc, got = _call(out, "compute_local_expectation[2D]", sub, lambda: tn.compute_local_expectation(terms, cutoff=0.0, **oo), rejections=rej)
        if not okc:
            continue
        n = o["normalized"]
        if o["return_all"]:
            try:
                got = {k: (e / nn if n else e) for k, (e, nn) in got.items()}
            except Exception:
                out.bad("compute_local_expectation[2D]", "type", sub, "return_all=True did not give {where: (expec, norm)}")
                continue
        _check_terms(out, "compute_local_expectation[2D]", sub, got, info, n, o["return_all"], rtol=RTOL_SVD)


def r_2d_norm(st, cell, out):
    """compute_norm / normalize (where independent)"""
    if st.cls != "peps" or st.gauged:
        return
    tn = st.tn
    for o in _prod(max_bond=(None, 64), mode=("mps", "full-bond"), canonize=(True, False), layer_tags=("default", None)):
        if o["mode"] == "full-bond" and o["max_bond"] is None:
            continue
        sub = _sub(**o) + ",unnormalised"
        oo = dict(o)
        if oo.pop("layer_tags") is None:
            oo["layer_tags"] = None
        okc, got = _call(out, "compute_norm", sub, lambda: tn.compute_norm(cutoff=0.0, **oo))
        if okc:
            out.scalar("compute_norm", sub, got, st.norm2, rtol=RTOL_SVD)
        for extra in _prod(balance_bonds=(False, True), equalize_norms=(False, True)):
            sub2 = sub + "," + _sub(**extra)
            okc, got = _call(out, "normalize", sub2, lambda: tn.normalize(cutoff=0.0, **oo, **extra))
            if not okc:
                continue
            ts = [(np.asarray(t.data), tuple(t.inds)) for t in got]
            v = ref.tn_value(ts, tuple(got.site_ind(s) for s in st.sites), exponent=float(got.exponent)).reshape(-1)
            want = st.psi / np.sqrt(st.norm2)
            if not ref.close(v, want, RTOL_SVD):
                out.bad("normalize", "value", sub2, "normalised state differs from psi/sqrt(<psi|psi>): <n|n>=%r, rel.err %.2e" % (float(np.vdot(v, v).real), ref.relerr(v, want)))
            else:
                out.ok("normalize", sub2)


def r_2d_eq(st, cell, out):
    """plaquette route with equalize_norms (the boundary contractions then strip
    scale into exponents that every environment piece has to carry along) on
    lattices with Lx or Ly >= 4: horizontal, vertical and diagonal terms,
    row-first and column-first environment routines, normalised or not.  The
    input state has exponent 0: this is NOT the 'exponent-ignored' finding."""
    if st.cls != "peps" or st.gauged or st.expo:
        return
    where = cell["where"]
    if len(where) > 2:
        return
    tier = cell.get("tier", "quick")
    tn = st.tn
    w = st.w(where)
    if len(where) == 2:
        if not w[0] < w[1]:
            return  # (documented KeyError rejection: probed by route 2d_plaq)
        if tier != "thorough" and max(abs(w[0][0] - w[1][0]), abs(w[0][1] - w[1][1])) > 1:
            return  # quick: nearest and diagonal neighbours; thorough: every pair
    G = _op(st, where)
    w2 = ((max(where) + 1) % st.N,)
    G2 = _op(st, w2, tag="G2")
    k1 = w[0] if len(where) == 1 else w
    k2 = st.w(w2)[0]
    terms = {k1: G, k2: G2}
    info = ((k1, G, where), (k2, G2, w2))
    envs = ("mps/None", "full-bond/64", "mps/64") + (("mps/64/1layer",) if tier == "thorough" else ())
    for o in _prod(equalize_norms=(False, True, 1.0), normalized=(True, False), autogroup=(True, False), env=envs):
        # the full-bond sweep raises an explicit NotImplementedError for equalize_norms
        # (probed once per lattice below); mps/64 takes its place there
        if (o["env"] == "full-bond/64" and o["equalize_norms"]) or (o["env"] == "mps/64" and not o["equalize_norms"]):
            continue
        mode, mb = o["env"].split("/")[:2]
        kwargs = dict(mode=mode, max_bond=None if mb == "None" else int(mb), cutoff=0.0, equalize_norms=o["equalize_norms"], normalized=o["normalized"], autogroup=o["autogroup"], return_all=True)
        if o["env"].endswith("1layer"):
            kwargs["layer_tags"] = None
        sub = _sub(**o)
        okc, got = _call(out, "compute_local_expectation[2D]", sub, lambda: tn.compute_local_expectation(terms, **kwargs))
        if not okc:
            continue
        n = o["normalized"]
        try:
            got = {k: (e / nn if n else e) for k, (e, nn) in got.items()}
        except Exception:
            out.bad("compute_local_expectation[2D]", "type", sub, "return_all=True did not give {where: (expec, norm)}")
            continue
        _check_terms(out, "compute_local_expectation[2D]", sub, got, info, n, True, rtol=RTOL_SVD)
    if where == (0,):
        okc, got = _call(out, "compute_local_expectation[2D]", "full-bond+equalize_norms", lambda: tn.compute_local_expectation(terms, mode="full-bond", max_bond=64, cutoff=0.0, equalize_norms=True), rejections=(NotImplementedError,))
        if okc:
            out.scalar("compute_local_expectation[2D]", "full-bond+equalize_norms", got, sum(_expec(st, g, wh, False) for _, g, wh in info), rtol=RTOL_SVD, scale=st.norm2)
        for o in _prod(equalize_norms=(False, True, 1.0), env=envs, canonize=(True, False)):
            if o["env"] == "full-bond/64" and o["equalize_norms"]:
                continue
            mode, mb = o["env"].split("/")[:2]
            kwargs = dict(mode=mode, max_bond=None if mb == "None" else int(mb), cutoff=0.0, equalize_norms=o["equalize_norms"], canonize=o["canonize"])
            if o["env"].endswith("1layer"):
                kwargs["layer_tags"] = None
            sub = _sub(**o) + ",unnormalised"
            okc, got = _call(out, "compute_norm", sub, lambda: tn.compute_norm(**kwargs))
            if okc:
                out.scalar("compute_norm", sub, got, st.norm2, rtol=RTOL_SVD)


def r_2d_hist(st, cell, out):
    """precomputed plaquette environments (and map) threaded through two
    successive compute_local_expectation calls with different terms"""
    if st.cls != "peps" or st.gauged:
        return
    from quimb.tensor.tn2d.core import calc_plaquette_map, calc_plaquette_sizes

    where = cell["where"]
    if len(where) > 2:
        return
    tn = st.tn
    N = st.N

    def terms_for(wh, tag):
        w = st.w(wh)
        if len(wh) == 2 and not w[0] < w[1]:
            wh = tuple(reversed(wh))
            w = st.w(wh)
        k1 = w[0] if len(wh) == 1 else w
        wo = ((max(wh) + 1) % N,)
        k2 = st.w(wo)[0]
        G, G2 = _op(st, wh, tag=tag), _op(st, wo, tag=tag + "2")
        if k1 == k2:
            return {k1: G}, ((k1, G, wh),)
        return {k1: G, k2: G2}, ((k1, G, wh), (k2, G2, wo))

    q1 = terms_for(where, "P")
    q2 = terms_for(_where2(st, where), "Q")
    keys = list(q1[0]) + list(q2[0])
    for o in _prod(envopts=("mps/None", "full-bond/64", "mps/64/1layer"), autogroup=(True, False), with_map=(False, True), normalized=(True, False)):
        mode, mb = o["envopts"].split("/")[:2]
        eo = dict(mode=mode, max_bond=None if mb == "None" else int(mb), cutoff=0.0, canonize=True, layer_tags=None if o["envopts"].endswith("1layer") else ("KET", "BRA"))
        sub0 = _sub(**o)
        try:
            norm = tn.make_norm()
            envs = {}
            for xb, yb in calc_plaquette_sizes(keys, o["autogroup"]):
                envs.update(norm.compute_plaquette_environments(x_bsz=xb, y_bsz=yb, **eo))
            pmap = calc_plaquette_map(envs) if o["with_map"] else None
        except Exception as ex:
            out.bad("compute_plaquette_environments", "crash", sub0, "raised %s: %s" % (type(ex).__name__, str(ex)[:200]), exc=type(ex).__name__)
            continue
        for k, (terms, info) in enumerate((q1, q2), 1):
            sub = sub0 + ",step=%d" % k
            kw = dict(step=k) if k > 1 else {}
            okc, got = _call(out, "compute_local_expectation[2D]", sub, lambda: tn.compute_local_expectation(terms, plaquette_envs=envs, plaquette_map=pmap, normalized=o["normalized"], return_all=True), **kw)
            if not okc:
                break
            n = o["normalized"]
            try:
                got = {kk: (e / nn if n else e) for kk, (e, nn) in got.items()}
            except Exception:
                out.bad("compute_local_expectation[2D]", "type", sub, "return_all=True did not give {where: (expec, norm)}", **kw)
                break
            if not _check_terms(out, "compute_local_expectation[2D]", sub, got, info, n, True, rtol=RTOL_SVD, **kw):
                break


# --------------------------------------------------------------------------- #
#                                 3D routes                                   #
# --------------------------------------------------------------------------- #


def r_3d(st, cell, out):
    if st.cls != "peps3d":
        return
    where = cell["where"]
    w = st.w(where)
    tn = st.tn
    G = _op(st, where)
    if not st.gauged:
        for o in _prod(normalized=(True, False), flatten=(False, True), contract_cell_method=("boundary", "compressed"), canonize=(True,)):
            sub = _sub(**o)
            okc, got = _call(out, "partial_trace[3D]", sub, lambda: tn.partial_trace(w, max_bond=256, cutoff=0.0, **o))
            if okc:
                out.rho("partial_trace[3D]", sub, got, _rdm(st, where, o["normalized"]), o["normalized"], rtol=RTOL_SVD)
        if len(where) == 1:
            sub = "bare-site"
            okc, got = _call(out, "partial_trace[3D]", sub, lambda: tn.partial_trace(w[0], max_bond=256, cutoff=0.0))
            if okc:
                out.rho("partial_trace[3D]", sub, got, _rdm(st, where, True), True, rtol=RTOL_SVD)
        # the envs= cache threaded through three successive queries
        envs = {}
        w2 = _where2(st, where)
        for k, wh in enumerate((where, w2), 1):
            sub = "envs-cache,step=%d" % k
            kw = dict(step=k) if k > 1 else {}
            okc, got = _call(out, "partial_trace[3D]", sub, lambda: tn.partial_trace(st.w(wh), max_bond=256, cutoff=0.0, envs=envs), **kw)
            if okc:
                out.rho("partial_trace[3D]", sub, got, _rdm(st, wh, True), True, rtol=RTOL_SVD, **kw)
        terms, info = _terms(st, where)
        sub = "envs-cache,step=3"
        okc, got = _call(out, "compute_local_expectation[3D]", sub, lambda: tn.compute_local_expectation(terms, max_bond=256, cutoff=0.0, envs=envs, return_all=True), step=3)
        if okc:
            _check_terms(out, "compute_local_expectation[3D]", sub, got, info, True, True, rtol=RTOL_SVD, step=3)
        for o in _prod(normalized=(True, False), return_all=(False, True), flatten=(False, True)):
            sub = _sub(**o)
            okc, got = _call(out, "compute_local_expectation[3D]", sub, lambda: tn.compute_local_expectation(terms, max_bond=256, cutoff=0.0, **o))
            if okc:
                _check_terms(out, "compute_local_expectation[3D]", sub, got, info, o["normalized"], o["return_all"], rtol=RTOL_SVD)
    for o in _prod(normalized=(True, False), flatten=(False, True)):
        sub = _sub(**o)
        okc, got = _call(out, "partial_trace_cluster[3D]", sub, lambda: tn.partial_trace_cluster(w, max_bond=256, cutoff=0.0, max_distance=3, gauges=st.gauges if st.gauged else False, **o))
        if okc:
            out.rho("partial_trace_cluster[3D]", sub, got, _rdm(st, where, o["normalized"]), o["normalized"], rtol=RTOL_SVD)


# --------------------------------------------------------------------------- #
#                      operator networks: trace, partial_transpose            #
# --------------------------------------------------------------------------- #

OPS = {
    "mpo3": dict(kind="mpo", L=3, cyclic=False),
    "mpo4c": dict(kind="mpo", L=4, cyclic=True),
    "pepo22": dict(kind="pepo", Lx=2, Ly=2),
    "genop": dict(kind="gen", sites=("a", "b", "c"), dims=(2, 3, 2), edges=(("a", "b", 2), ("b", "c", 2), ("c", "a", 2))),
}

_OPS = {}


def _opnet(name):
    if name in _OPS:
        return _OPS[name]
    qtn = _qtn()
    sp = OPS[name]
    if sp["kind"] == "mpo":
        L = sp["L"]
        arrays = []
        for i in range(L):
            shp = (2, 2, 2, 2) if (sp["cyclic"] or 0 < i < L - 1) else (2, 2, 2)
            arrays.append(fill("generic", shp, "complex128", key=("c13", name, i)))
        tn = qtn.MatrixProductOperator(arrays, shape="lrud")
        sites = tuple(range(L))
    elif sp["kind"] == "pepo":
        tn = qtn.PEPO.rand(sp["Lx"], sp["Ly"], bond_dim=2, phys_dim=2, seed=3, dtype="complex128")
        _refill(tn, name)
        sites = tuple((i, j) for i in range(sp["Lx"]) for j in range(sp["Ly"]))
    else:
        sites = tuple(sp["sites"])
        tn = qtn.TensorNetworkGenOperator.new(sites=sites, site_tag_id="I{}", upper_ind_id="k{}", lower_ind_id="b{}")
        for n, (s, d) in enumerate(zip(sites, sp["dims"])):
            inds, shp = [], []
            for e, (a, b, D) in enumerate(sp["edges"]):
                if s in (a, b):
                    inds.append("bond%d" % e)
                    shp.append(D)
            inds += ["k{}".format(s), "b{}".format(s)]
            shp += [d, d]
            tn |= qtn.Tensor(fill("generic", shp, "complex128", key=("c13", name, n)), inds=inds, tags=["I{}".format(s)])
    dims = tuple(int(tn.ind_size(tn.upper_ind(s))) for s in sites)
    _OPS[name] = (tn, sites, dims, _opdense(tn, sites))
    return _OPS[name]


def _opdense(tn, sites):
    ts = [(np.asarray(t.data), tuple(t.inds)) for t in tn]
    outl = tuple(tn.upper_ind(s) for s in sites) + tuple(tn.lower_ind(s) for s in sites)
    x = ref.tn_value(ts, outl, exponent=float(tn.exponent))
    d = int(np.prod(x.shape[: len(sites)]))
    return x.reshape(d, d)


def cell_op(cell, common):
    """operator network cell: (op structure, subset sysa as site positions)"""
    cell = {k: _tt(v) for k, v in cell.items()}
    name = cell["op"]
    tn, sites, dims, dense = _opnet(name)
    sysa = cell["sysa"]
    res = []

    def bad(entry, check, sub, msg, **kw):
        res.append(table.bad(core.problem("%s on %s sysa=%r [%s]: %s" % (entry, name, sysa, sub, msg), entry=entry, cls="operator", check=check, **kw), sub=sub))

    def ok(entry, sub):
        res.append(table.ok(key=repr((name, entry, sysa, sub)), nontrivial=0 < len(sysa) < len(sites) or entry == "trace", outcome=entry, sub=sub))

    if cell["what"] == "trace":
        for sub, fn in (("default", lambda: tn.trace()), ("explicit", lambda: tn.trace(tuple(tn.upper_ind(s) for s in sites), tuple(tn.lower_ind(s) for s in sites)))):
            try:
                got = complex(fn())
            except Exception as ex:
                bad("trace", "crash", sub, "raised %s: %s" % (type(ex).__name__, str(ex)[:200]), exc=type(ex).__name__)
                continue
            want = np.trace(dense)
            if abs(got - want) > RTOL * max(abs(want), float(np.max(np.abs(dense)))):
                bad("trace", "value", sub, "got %r, dense trace %r" % (got, complex(want)))
            else:
                ok("trace", sub)
        return res
    want = ref.partial_transpose(dense, dims, list(sysa))
    forms = [("tuple", tuple(sites[i] for i in sysa)), ("list", [sites[i] for i in sysa])]
    if len(sysa) == 1:
        forms.append(("bare", sites[sysa[0]]))
    for fname, arg in forms:
        for inplace in (False, True):
            sub = _sub(form=fname, inplace=inplace)
            t0 = tn.copy()
            try:
                got = t0.partial_transpose(arg, inplace=inplace)
                if inplace and got is not t0:
                    bad("partial_transpose", "type", sub, "inplace=True returned a different object")
                    continue
                gd = _opdense(got, sites)
                if not inplace and not ref.close(_opdense(t0, sites), dense, RTOL):
                    bad("partial_transpose", "purity", sub, "inplace=False changed the operator it was called on")
                    continue
            except Exception as ex:
                bad("partial_transpose", "crash", sub, "raised %s: %s" % (type(ex).__name__, str(ex)[:200]), exc=type(ex).__name__)
                continue
            if not ref.close(gd, want, RTOL):
                bad("partial_transpose", "value", sub, "dense form differs from the reference partial transpose (rel.err %.2e)" % ref.relerr(gd, want))
            else:
                ok("partial_transpose", sub)
    return res


# --------------------------------------------------------------------------- #
#                          cells, worker, run, replay                         #
# --------------------------------------------------------------------------- #

# route -> (function, max number of sites in where, where independent?)
ROUTES = {
    "ptr_exact": (r_ptr_exact, 3, False),
    "lex_exact": (r_lex_exact, 3, False),
    "cle_exact": (r_cle_exact, 3, False),
    "ptr_cluster": (r_ptr_cluster, 3, False),
    "lex_cluster": (r_lex_cluster, 3, False),
    "cle_cluster": (r_cle_cluster, 3, False),
    "sloop": (r_sloop, 3, False),
    "gloop": (r_gloop, 3, False),
    "cle_loops": (r_cle_loops, 2, False),
    "norm_gloop": (r_norm_gloop, 1, True),
    "ptr_disp": (r_ptr_disp, 3, False),
    "lex_disp": (r_lex_disp, 3, False),
    "1d_canon": (r_1d_canon, 3, False),
    "1d_terms": (r_1d_terms, 3, False),
    "1d_expec": (r_1d_expec, 1, True),
    "1d_corr": (r_1d_corr, 2, False),
    "1d_magn": (r_1d_magn, 1, False),
    "1d_hist": (r_1d_hist, 2, False),
    "info_hist": (r_info_hist, 2, False),
    "2d_hist": (r_2d_hist, 2, False),
    "2d_eq": (r_2d_eq, 2, False),
    "2d_plaq": (r_2d_plaq, 2, False),
    "2d_norm": (r_2d_norm, 1, True),
    "3d": (r_3d, 2, False),
}


def _applicable(name, gauged, route):
    cls = STRUCTS[name]["cls"]
    if route == "2d_eq":
        return cls == "peps" and not gauged
    if name in ("peps24", "peps42"):
        return False  # scaled 8-site lattices: built for route 2d_eq only
    if route.startswith("1d_"):
        return cls == "mps" and not gauged
    if route.startswith("2d_"):
        return cls == "peps" and not gauged
    if route == "3d":
        return cls == "peps3d"
    if cls == "hyper":
        # hyper labels: only the routes whose docstring promises to handle them
        # (get_path_between_tids / compressed contraction document that they do not)
        return route in ("ptr_exact", "lex_exact", "cle_exact")
    if name == "tritailw":
        # hyper PHYSICAL labels: the routes that go through make_reduced_density_matrix
        # ("special care to handle potential hyper inner and outer indices"); not the
        # compressed contractions nor the tn.H | tn norm of norm_gloop_expand
        return (not gauged) and route in ("ptr_exact", "lex_exact", "cle_exact", "ptr_cluster", "lex_cluster", "cle_cluster", "gloop", "cle_loops", "info_hist")
    if cls == "peps3d":
        # PEPS3D overrides partial_trace / partial_trace_cluster with its own
        # signatures (route 3d); the inherited local_expectation is probed once
        # per where; 8-site term-dict loop routes are covered on smaller lattices
        if route in ("ptr_disp", "ptr_cluster", "cle_loops"):
            return False
        if route == "lex_disp":
            return not gauged
    if route in ("ptr_exact", "lex_exact", "cle_exact", "ptr_disp", "lex_disp"):
        return not gauged
    if route == "sloop":
        return name in ("mps4c", "peps22", "ring4", "ring3", "ring5")
    return True


def cell_fn(cell, common):
    cell = {k: _tt(v) for k, v in cell.items()}
    st = _struct(cell["st"], cell["g"], cell.get("e", False))
    out = Out(st, cell)
    ROUTES[cell["route"]][0](st, cell, out)
    # the shared network must still denote the same state (in-place routes are
    # given copies): a route that silently changes its input would also make
    # every later cell of this worker depend on the evaluation order
    try:
        same = ref.close(st._dense(), st.psi, 1e-10)
    except Exception:
        same = False
    if not same:
        _ST.pop((st.name, st.gauged, st.expo), None)
        out.bad("route:" + cell["route"], "input-mutated", "after-cell", "the network (or its gauges) no longer denotes the state it denoted before the calls of this cell")
    return out.res


EXPO_QUICK = ("mps4", "tree4", "peps22")
EXPO_THOROUGH = ("mps4", "mps4c", "tree4", "ring4", "hyper", "peps22", "peps23")


def _tier_structs(tier):
    """(name, gauged, exponent variant)"""
    if tier == "quick":
        base = [("mps4", False), ("mps4", True), ("mps4c", False), ("tree4", False), ("tree4", True), ("ring4", False), ("ring4", True), ("tritail", False), ("tritailw", False), ("hyper", False), ("peps22", False), ("peps22", True), ("peps23", False), ("peps24", False), ("peps42", False)]
        return [(n, g, False) for n, g in base] + [(n, False, True) for n in EXPO_QUICK]
    outl = []
    for name in STRUCTS:
        outl.append((name, False, False))
        if STRUCTS[name]["cls"] != "hyper" and name not in ("tritailw", "peps24", "peps42"):
            outl.append((name, True, False))
    return outl + [(n, False, True) for n in EXPO_THOROUGH]


def _kmax(tier, name, route):
    N = St_N(name)
    kmax = ROUTES[route][1]
    if tier == "quick":
        kmax = min(kmax, 2)
    if N >= 6:
        kmax = min(kmax, 2)
    return min(kmax, N)


def St_N(name):
    sp = STRUCTS[name]
    c = sp["cls"]
    if c == "mps":
        return sp["L"]
    if c == "peps":
        return sp["Lx"] * sp["Ly"]
    if c == "peps3d":
        return sp["Lx"] * sp["Ly"] * sp["Lz"]
    if c == "hyper":
        return 3
    return len(sp["sites"])


def _cells(tier, only_routes=None, only_structs=None):
    cells = []
    for name, g, e in _tier_structs(tier):
        if only_structs and name not in only_structs:
            continue
        N = St_N(name)
        for route, (fn, _k, indep) in ROUTES.items():
            if only_routes and route not in only_routes:
                continue
            if not _applicable(name, g, route):
                continue
            if route.endswith("_hist") and (e or (g and tier == "quick")):
                continue  # histories: plain networks (thorough: also the gauged ones)
            if route == "info_hist" and STRUCTS[name]["cls"] == "peps3d":
                continue  # (budget: the 8-site region graphs are covered by gloop / 3d)
            if indep:
                cells.append(dict(st=name, g=g, e=e, route=route, where=(0,), tier=tier))
                continue
            for k in range(1, min(_kmax(tier, name, route), 2 if e else 3, 1 if (g and route == "info_hist") else 3) + 1):
                for where in itertools.permutations(range(N), k):
                    cells.append(dict(st=name, g=g, e=e, route=route, where=tuple(where), tier=tier))
    return cells


def _op_cells(tier):
    cells = []
    for name in OPS:
        tn_sites = {"mpo3": 3, "mpo4c": 4, "pepo22": 4, "genop": 3}[name]
        cells.append(dict(op=name, what="trace", sysa=()))
        for k in range(0, tn_sites + 1):
            for sysa in itertools.permutations(range(tn_sites), k) if tier == "thorough" else itertools.combinations(range(tn_sites), k):
                cells.append(dict(op=name, what="pt", sysa=tuple(sysa)))
    return cells


_COST = {"3d": 50, "2d_eq": 12, "info_hist": 8, "1d_hist": 10, "2d_hist": 6, "gloop": 6, "2d_plaq": 6, "1d_terms": 6, "cle_loops": 4, "lex_disp": 4, "ptr_disp": 3, "2d_norm": 5}


def _cost(c):
    return _COST.get(c["route"], 1) * (3 if St_N(c["st"]) >= 6 else 1)


def run(ctx):
    tier = ctx.tier
    only_r = set(ctx.opts["routes"].split(",")) if ctx.opts.get("routes") else None
    only_s = set(ctx.opts["structs"].split(",")) if ctx.opts.get("structs") else None
    ctx.rule = (
        "a cell is (structure, with/without simple-update gauges, route, ordered site tuple where); every cell fans out into the full option "
        "product of its route (normalisation flag, output form, operator form, term-dict form incl. return_all, gauge/canonisation start, cluster mode, "
        "loop set, combine rule, boundary mode/canonize/layer_tags/autogroup, flatten/reduce/symmetrized/method); each evaluation calls the real "
        "entry point and compares with <psi|O|psi>(/<psi|psi>) or the partial trace (in the order of where) of the dense state obtained by one numpy "
        "einsum over the labelled arrays; an evaluation is distinct by (structure, gauged, entry point, where, options) and non-trivial because states are "
        "complex and un-normalised and operators generic complex non-symmetric, non-Hermitian, not exchange symmetric"
    )
    structs = _tier_structs(tier)
    ctx.bounds = {
        "structures": ["%s%s%s" % (n, "+gauges" if g else "", "+exponent" if e else "") for n, g, e in structs],
        "max_sites": max(St_N(n) for n, _, _ in structs),
        "where": "all ordered site tuples of size 1..%d (size <= 2 on structures with >= 6 sites and for term-pair routes)" % (2 if tier == "quick" else 3),
        "operators": "generic complex matrices on prod(dims[where]) (matrix and tensor form), physical dims 2 and 3",
        "operator_networks": {k: v["kind"] for k, v in OPS.items()},
        "sysa": "all subsets (thorough: all ordered tuples) of the operator network's sites",
        "caps": "max_bond=64 (256 in 3D) with cutoff=0.0: never truncating at these sizes",
    }
    ctx.assumptions += [
        "loop / cluster expansions asserted only when one region is the whole network (max_distance >= number of sites; sloops on rings with loop length = N; gloops = explicit whole-network region, or integer size N on networks without dangling sites); autoreduce only on networks without dangling sites",
        "simple-update gauges: the state is the Vidal form (tensors and bond vectors); the reference contracts the bond vectors in as hyper labels",
        "hyper-label network only on the exact routes (get_path_between_tids and compressed contraction document that they ignore / do not support hyper labels)",
        "partial_trace(reduce=True) (experimental, reduce_inds_onto_bond takes exactly two labels) only with two kept sites and method='contract_compressed'",
        "2D plaquette route: one-site terms keyed by the bare coordinate, pairs with ij_a < ij_b; a reversed pair is the documented KeyError rejection; mode='full-bond' only with an integer cap",
        "cyclic MPS: canonical routes are documented NotImplementedError rejections (probed once per cell); MatrixProductState.partial_trace is a deliberate rename notice (rejection)",
        "correlation() is fed the normalised state (it does not normalise) and distinct sites i != j",
        "boundary / compressed routes are given cutoff=0.0 and a cap above every bond that can occur; tolerance 2e-8 there, 1e-9 on exact contraction routes",
        "partial_trace_to_mpo is not covered here (conjugation convention left to C09, DESIGN section 7)",
    ]
    cells = _cells(tier, only_r, only_s)
    cells.sort(key=_cost, reverse=True)
    t0 = ctx.elapsed()
    n_ok, n_rej, n_bad = table.run(ctx, "cell_fn", cells, name="state-routes", chunk=2)
    ctx.notes["wall_state_routes_s"] = round(ctx.elapsed() - t0, 1)
    per = {}
    for c in cells:
        per[c["route"]] = per.get(c["route"], 0) + 1
    ctx.notes["cells_per_route"] = per
    ctx.subproducts.append("state-routes: structure x gauged x route x all ordered where tuples x full option product of the route: %d cells complete (%d evaluations ok, %d documented rejections, %d violating)" % (len(cells), n_ok, n_rej, n_bad))
    if not only_r or "op" in only_r:
        ocells = _op_cells(tier)
        n_ok, n_rej, n_bad = table.run(ctx, "cell_op", ocells, name="operator-networks")
        ctx.subproducts.append("operator-networks: trace and partial_transpose over every subset of sites x argument form x inplace: %d cells complete (%d ok, %d violating)" % (len(ocells), n_ok, n_bad))


def replay(case):
    return table.replay(sys.modules[__name__], case)

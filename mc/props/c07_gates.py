"""C07 helper - textbook gate matrices written out by hand (numpy only, no
quimb import) and a plain statevector simulator.

Convention: big-endian, i.e. for a gate on ``(q0, q1, ...)`` the first qubit
is the most significant bit of the matrix index (the convention documented
for ``quimb``'s gate arrays: "sites are read left to right from the shape").
"""

from __future__ import annotations

import itertools

import numpy as np

I2 = np.eye(2, dtype=complex)
X = np.array([[0, 1], [1, 0]], dtype=complex)
Y = np.array([[0, -1j], [1j, 0]], dtype=complex)
Z = np.array([[1, 0], [0, -1]], dtype=complex)
P0 = np.array([[1, 0], [0, 0]], dtype=complex)
P1 = np.array([[0, 0], [0, 1]], dtype=complex)


def expmh(H, t):
    """exp(-i t H) for hermitian H by eigendecomposition."""
    lam, v = np.linalg.eigh(H)
    return (v * np.exp(-1j * t * lam)) @ v.conj().T


def kron(*ops):
    out = np.eye(1, dtype=complex)
    for o in ops:
        out = np.kron(out, o)
    return out


def controlled(U, ncontrol=1):
    """|1..1><1..1| (x) U + (1 - |1..1><1..1|) (x) 1, controls first."""
    d = U.shape[0]
    D = 2**ncontrol * d
    out = np.eye(D, dtype=complex)
    out[D - d :, D - d :] = U
    return out


def rx(t):
    return expmh(X, t / 2)


def ry(t):
    return expmh(Y, t / 2)


def rz(t):
    return expmh(Z, t / 2)


def u3(theta, phi, lam):
    c, s = np.cos(theta / 2), np.sin(theta / 2)
    return np.array([[c, -np.exp(1j * lam) * s], [np.exp(1j * phi) * s, np.exp(1j * (phi + lam)) * c]], dtype=complex)


def u2(phi, lam):
    return u3(np.pi / 2, phi, lam)


def u1(lam):
    return np.diag([1.0, np.exp(1j * lam)]).astype(complex)


SWAP = np.array([[1, 0, 0, 0], [0, 0, 1, 0], [0, 1, 0, 0], [0, 0, 0, 1]], dtype=complex)
ISWAP = np.array([[1, 0, 0, 0], [0, 0, 1j, 0], [0, 1j, 0, 0], [0, 0, 0, 1]], dtype=complex)
H = np.array([[1, 1], [1, -1]], dtype=complex) / np.sqrt(2)
S = np.diag([1, 1j]).astype(complex)
T = np.diag([1, np.exp(1j * np.pi / 4)]).astype(complex)
# sqrt(X) = [[1+i, 1-i], [1-i, 1+i]] / 2 ; qiskit's SX is the same matrix
SX = np.array([[1 + 1j, 1 - 1j], [1 - 1j, 1 + 1j]], dtype=complex) / 2
# the 'google' half rotations exp(-i pi/4 P) used by the qsim format
X_1_2 = expmh(X, np.pi / 4)
Y_1_2 = expmh(Y, np.pi / 4)
Z_1_2 = expmh(Z, np.pi / 4)
W_1_2 = expmh((X + Y) / np.sqrt(2), np.pi / 4)


def fsim(theta, phi):
    c, s = np.cos(theta), np.sin(theta)
    return np.array([[1, 0, 0, 0], [0, c, -1j * s, 0], [0, -1j * s, c, 0], [0, 0, 0, np.exp(-1j * phi)]], dtype=complex)


def fsimg(theta, zeta, chi, gamma, phi):
    c, s = np.cos(theta), np.sin(theta)
    e = lambda a: np.exp(-1j * a)  # noqa: E731
    return np.array(
        [
            [1, 0, 0, 0],
            [0, e(gamma + zeta) * c, -1j * e(gamma - chi) * s, 0],
            [0, -1j * e(gamma + chi) * s, e(gamma - zeta) * c, 0],
            [0, 0, 0, e(2 * gamma + phi)],
        ],
        dtype=complex,
    )


def givens(theta):
    # exp(-i theta (Y(x)X - X(x)Y) / 2): real rotation of |01>, |10>
    return expmh((np.kron(Y, X) - np.kron(X, Y)) / 2, theta)


def givens2(theta, phi):
    c, s = np.cos(theta), np.sin(theta)
    return np.array(
        [[1, 0, 0, 0], [0, c, -np.exp(1j * phi) * s, 0], [0, np.exp(-1j * phi) * s, c, 0], [0, 0, 0, 1]], dtype=complex
    )


def xx_plus_yy(theta, beta):
    # qiskit XXPlusYYGate, written for big-endian qubit order
    c, s = np.cos(theta / 2), np.sin(theta / 2)
    return np.array(
        [[1, 0, 0, 0], [0, c, -1j * s * np.exp(1j * beta), 0], [0, -1j * s * np.exp(-1j * beta), c, 0], [0, 0, 0, 1]],
        dtype=complex,
    )


def xx_minus_yy(theta, beta):
    # qiskit XXMinusYYGate, big-endian
    c, s = np.cos(theta / 2), np.sin(theta / 2)
    return np.array(
        [[c, 0, 0, -1j * s * np.exp(-1j * beta)], [0, 1, 0, 0], [0, 0, 1, 0], [-1j * s * np.exp(1j * beta), 0, 0, c]],
        dtype=complex,
    )


def rxx(t):
    return expmh(np.kron(X, X), t / 2)


def ryy(t):
    return expmh(np.kron(Y, Y), t / 2)


def rzz(t):
    return expmh(np.kron(Z, Z), t / 2)


CNOT = controlled(X)
NOTC = SWAP @ CNOT @ SWAP


def su4(*p):
    """Fig. 7 of quant-ph/0308006 as documented for the SU4 gate: qubit a is
    the first (most significant) qubit."""
    A1, A2, A3, A4 = u3(*p[0:3]), u3(*p[3:6]), u3(*p[6:9]), u3(*p[9:12])
    t1, t2, t3 = p[12], p[13], p[14]
    U = np.kron(A1, A2)
    U = NOTC @ U
    U = np.kron(rz(t1), ry(t2)) @ U
    U = CNOT @ U
    U = np.kron(I2, ry(t3)) @ U
    U = NOTC @ U
    U = np.kron(A3, A4) @ U
    return U


# label -> (number of qubits, number of parameters, builder)
TEXTBOOK = {
    "H": (1, 0, lambda: H),
    "X": (1, 0, lambda: X),
    "Y": (1, 0, lambda: Y),
    "Z": (1, 0, lambda: Z),
    "S": (1, 0, lambda: S),
    "SDG": (1, 0, lambda: S.conj().T),
    "T": (1, 0, lambda: T),
    "TDG": (1, 0, lambda: T.conj().T),
    "SX": (1, 0, lambda: SX),
    "SXDG": (1, 0, lambda: SX.conj().T),
    "X_1_2": (1, 0, lambda: X_1_2),
    "Y_1_2": (1, 0, lambda: Y_1_2),
    "Z_1_2": (1, 0, lambda: Z_1_2),
    "W_1_2": (1, 0, lambda: W_1_2),
    "HZ_1_2": (1, 0, lambda: W_1_2),
    "IDEN": (1, 0, lambda: I2),
    "CX": (2, 0, lambda: CNOT),
    "CNOT": (2, 0, lambda: CNOT),
    "CY": (2, 0, lambda: controlled(Y)),
    "CZ": (2, 0, lambda: controlled(Z)),
    "ISWAP": (2, 0, lambda: ISWAP),
    "IS": (2, 0, lambda: ISWAP),
    "SWAP": (2, 0, lambda: SWAP),
    "CCX": (3, 0, lambda: controlled(X, 2)),
    "CCNOT": (3, 0, lambda: controlled(X, 2)),
    "TOFFOLI": (3, 0, lambda: controlled(X, 2)),
    "CCY": (3, 0, lambda: controlled(Y, 2)),
    "CCZ": (3, 0, lambda: controlled(Z, 2)),
    "CSWAP": (3, 0, lambda: controlled(SWAP)),
    "FREDKIN": (3, 0, lambda: controlled(SWAP)),
    "RX": (1, 1, rx),
    "RY": (1, 1, ry),
    "RZ": (1, 1, rz),
    "U3": (1, 3, u3),
    "U2": (1, 2, u2),
    "U1": (1, 1, u1),
    "PHASE": (1, 1, u1),
    "CU3": (2, 3, lambda *p: controlled(u3(*p))),
    "CU2": (2, 2, lambda *p: controlled(u2(*p))),
    "CU1": (2, 1, lambda *p: controlled(u1(*p))),
    "CPHASE": (2, 1, lambda *p: controlled(u1(*p))),
    "CRX": (2, 1, lambda t: controlled(rx(t))),
    "CRY": (2, 1, lambda t: controlled(ry(t))),
    "CRZ": (2, 1, lambda t: controlled(rz(t))),
    "FSIM": (2, 2, fsim),
    "FS": (2, 2, fsim),
    "FSIMG": (2, 5, fsimg),
    "GIVENS": (2, 1, givens),
    "GIVENS2": (2, 2, givens2),
    "XXPLUSYY": (2, 2, xx_plus_yy),
    "XXMINUSYY": (2, 2, xx_minus_yy),
    "RXX": (2, 1, rxx),
    "RYY": (2, 1, ryy),
    "RZZ": (2, 1, rzz),
    "SU4": (2, 15, su4),
}

PARAM_GRID = (0.0, np.pi / 2, -np.pi / 2, np.pi, 0.3, 2 * np.pi + 0.1)
# default parameter values (all different, no special angles)
DEFAULT_PARAMS = (0.37, -1.21, 0.83, 2.05, -0.59, 1.43, 0.21, -2.4, 0.66, 1.9, -0.3, 0.52, 1.1, -0.77, 0.45)


def textbook(label, params=()):
    nq, npar, fn = TEXTBOOK[label]
    if len(params) != npar:
        raise ValueError("%s takes %d parameters" % (label, npar))
    return np.asarray(fn(*[float(p) for p in params]), dtype=complex)


def param_points(label, full_limit=6**5):
    """The parameter grid of a label: the full product PARAM_GRID**k when it
    has at most ``full_limit`` points, otherwise the 'star' around the default
    point (every parameter through the grid, the others at their default) plus
    the diagonal.  Returns (points, is_full)."""
    npar = TEXTBOOK[label][1]
    if npar == 0:
        return [()], True
    if len(PARAM_GRID) ** npar <= full_limit:
        return list(itertools.product(PARAM_GRID, repeat=npar)), True
    pts = [tuple(DEFAULT_PARAMS[:npar])]
    for k in range(npar):
        for g in PARAM_GRID:
            p = list(DEFAULT_PARAMS[:npar])
            p[k] = g
            pts.append(tuple(p))
    for g in PARAM_GRID:
        pts.append((g,) * npar)
    return pts, False


# --------------------------------------------------------------------------- #
#                          statevector reference                              #
# --------------------------------------------------------------------------- #


def apply(psi, M, where, N):
    """Matrix ``M`` on qubits ``where`` (first = most significant) applied to
    the length 2**N vector psi."""
    where = list(where)
    k = len(where)
    pt = np.asarray(psi).reshape([2] * N)
    out = np.tensordot(np.asarray(M).reshape([2] * (2 * k)), pt, axes=(list(range(k, 2 * k)), where))
    rest = [i for i in range(N) if i not in where]
    cur = where + rest
    return out.transpose([cur.index(i) for i in range(N)]).reshape(-1)


def full_matrix(M, where, N):
    D = 2**N
    cols = [apply(np.eye(D, dtype=complex)[:, j], M, where, N) for j in range(D)]
    return np.array(cols).T


def rdm(psi, keep, N):
    """Reduced density matrix on the ordered qubits ``keep`` (first = most
    significant), rows = ket."""
    keep = list(keep)
    rest = [i for i in range(N) if i not in keep]
    m = np.asarray(psi).reshape([2] * N).transpose(keep + rest).reshape(2 ** len(keep), -1)
    return m @ m.conj().T


def expectation(psi, G, where, N):
    return np.vdot(psi, apply(psi, G, where, N))


def joint_prob(psi, where, fix, N):
    """p(where = x, fix) as an array over x with one axis per qubit in the
    ORDER of ``where``; ``fix``: dict qubit -> '0'/'1' (or None)."""
    p = (np.abs(np.asarray(psi)) ** 2).reshape([2] * N)
    idx = [slice(None)] * N
    for q, b in (fix or {}).items():
        idx[int(q)] = slice(int(b), int(b) + 1)
    p = p[tuple(idx)]
    rest = tuple(i for i in range(N) if i not in where)
    p = p.sum(axis=rest, keepdims=True).reshape([2 if i in where else 1 for i in range(N)])
    sw = sorted(where)
    p = p.reshape([2] * len(where))  # axes in sorted qubit order
    return p.transpose([sw.index(q) for q in where])


def prob_of(psi, bits):
    return float(np.abs(np.asarray(psi)[int(bits, 2)]) ** 2)

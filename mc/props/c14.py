"""C14 - belief propagation is exact on trees and its marginals are consistent.

Engine: TableExplorer (DESIGN 2.2) with exhaustive schedule enumeration.

A cell is (flavour, acyclic geometry, insertion order of the sites, bond
dimensions, data kind, exponent, schedule options).  The worker builds the
network through the public quimb API, runs the real BP class once with a tight
tolerance and then reads the result through EVERY public entry point of that
flavour (one evaluation per entry point, ``sub`` = entry name): class
``contract`` (plain / strip_exponent / after the normalisation helpers /
gloop and loop-series expansions, which have no loops to add on a tree),
functional ``contract_*bp``, index / tensor marginals computed from the
messages, reduced density matrices, and the BP gauging / compression routines
with no truncation.  The oracle is an explicit numpy einsum over all labels
(``c14_ref``); every schedule must reproduce it, which is what "independent of
the update schedule" means.

Tables
  S  schedules : flavour x every tree with <= Ns nodes x ALL insertion orders
                 x update x damping x local_convergence x {positive, complex}
  O  options   : flavour x every geometry of its domain (all trees <= No nodes,
                 forests, hyper trees, dangling labels, lazy multi-tensor /
                 multi-bond sites, physical-label patterns) x {identity,
                 reversed} order x dims x data x exponent x option bundles
  P  parallel  : flavour x tree x ALL insertion orders: the messages after 0, 1
                 and 2 rounds of update='parallel' equal those of the identity
                 order (they may only depend on the previous round)
  M  sampling  : sample_hd1bp / sample_hv1bp / sample_d2bp: the returned
                 probability omega equals the exact probability of the config
  R  regions   : RegionGraph / gen_region_counts on every (ordered) family of
                 <= k subsets of a small ground set against inclusion-exclusion
"""

from __future__ import annotations

import functools
import itertools
import json
import sys

import numpy as np

from .. import core, table
from ..alphabet import fill
from . import c14_ref as X

TOL = 1e-8  # value / marginal tolerance (relative)
BP_TOL = 1e-12  # message convergence tolerance handed to quimb
MAXIT = 4000  # generous: damping 0.3 on the lazy flavours needs ~200
COND_MIN = 1e-4  # |Z| / sum|terms| demanded of signed / complex fills
RESID_SLACK = 1000.0  # converged => a full re-check moves no message by more than RESID_SLACK * tol
MARGIN_MIN = 1e-2  # smallest/largest entry of messages the hyper flavours divide by

FLAVOURS = ("D1BP", "HD1BP", "HV1BP", "L1BP", "D2BP", "L2BP")
ONE_NORM = ("D1BP", "HD1BP", "HV1BP", "L1BP")
HAS_LC = ("D1BP", "L1BP", "D2BP", "L2BP")
HAS_CE = ("D1BP", "HV1BP", "L1BP", "D2BP", "L2BP")

# --------------------------------------------------------------------------- #
#                                 geometries                                  #
# --------------------------------------------------------------------------- #
# A geometry is {"name", "tensors": [[labels] per tensor], "sites": [site of
# each tensor], "cls": graph|hyper|lazy}.  Labels: x* bonds, z* second bond of
# a doubled edge, y* bond inside a lazy site, h* hyper labels, d* dangling
# (summed) labels of 1-norm networks, k<site> physical labels (2-norm), q<site>
# / r<site> a second (size 3) and third (size 2) dangling label of a 2-norm
# site ("tree operators": sites with several open legs of different sizes).


def _geom(name, tensors, sites=None, cls="graph"):
    return {"name": name, "tensors": [list(t) for t in tensors], "sites": list(sites) if sites is not None else list(range(len(tensors))), "cls": cls}


def tree_geom(n, idx, edges, phys="none", fat="plain"):
    """phys: none | all | alt (even nodes) | op (k on every site, a second
    dangling label q of size 3 on even sites, a third one r on site 0).  fat:
    plain | split (two tensors per site joined by an inner bond) | double
    (every edge is two bonds)."""
    inc = [[] for _ in range(n)]
    for k, (a, b) in enumerate(edges):
        for s in (a, b):
            inc[s].append("x%d" % k)
            if fat == "double":
                inc[s].append("z%d" % k)
    ph = {"none": [], "all": list(range(n)), "alt": [i for i in range(n) if i % 2 == 0], "op": list(range(n))}[phys]

    def extra(i):
        if phys != "op":
            return []
        return (["q%d" % i] if i % 2 == 0 else []) + (["r%d" % i] if i == 0 else [])

    name = "tree%d.%d" % (n, idx) + ("" if phys == "none" else ":" + phys) + ("" if fat == "plain" else ":" + fat)
    if fat != "split":
        tensors = [inc[i] + (["k%d" % i] if i in ph else []) + extra(i) for i in range(n)]
        return _geom(name, tensors, cls="lazy" if fat == "double" else "graph")
    tensors, sites = [], []
    for i in range(n):
        tensors.append(["y%d" % i] + inc[i][0::2] + (["k%d" % i] if i in ph else []))
        tensors.append(["y%d" % i] + inc[i][1::2] + extra(i))
        sites += [i, i]
    return _geom(name, tensors, sites, cls="lazy")


def all_trees(nmax, nmin=1):
    out = []
    for n in range(nmin, nmax + 1):
        for idx, e in enumerate(X.unlabelled_trees(n)):
            out.append((n, idx, e))
    return out


FORESTS = {
    "forest:P2+P3": _geom("forest:P2+P3", [["x0"], ["x0"], ["x1"], ["x1", "x2"], ["x2"]]),
    "forest:star4+scalar": _geom("forest:star4+scalar", [["x0", "x1", "x2"], ["x0"], ["x1"], ["x2"], []]),
}
HYPER = {
    "hyper3+leaves": _geom("hyper3+leaves", [["h0", "x0"], ["h0", "x1"], ["h0", "x2"], ["x0"], ["x1"], ["x2"]], cls="hyper"),
    "hyper4": _geom("hyper4", [["h0"], ["h0"], ["h0", "x0"], ["h0"], ["x0"]], cls="hyper"),
    "hyper-star": _geom("hyper-star", [["h0", "h1"], ["h0"], ["h0"], ["h1"], ["h1", "x0"], ["x0"]], cls="hyper"),
    "hyper-chain": _geom("hyper-chain", [["h0"], ["h0", "h1"], ["h0"], ["h1"], ["h1"]], cls="hyper"),
    "hyper+dangling": _geom("hyper+dangling", [["h0", "d0"], ["h0"], ["h0", "x0"], ["x0", "d1"]], cls="hyper"),
    "path3+dangling": _geom("path3+dangling", [["x0", "d0"], ["x0", "x1"], ["x1", "d1"]], cls="hyper"),
    "forest:P2+dangling-vector": _geom("forest:P2+dangling-vector", [["x0"], ["x0"], ["d0"]], cls="hyper"),
}


def n_sites(g):
    return len(set(g["sites"]))


def has_scalar(g):
    return any(len(t) == 0 for t in g["tensors"])


def label_dims(g, dims):
    """dims: '2' | '3' | 'mix' (j-th virtual label gets 2 + j % 2; physical
    label of site i gets 2 + i % 2)."""
    out = {}
    j = 0
    for t in g["tensors"]:
        for l in t:
            if l in out:
                continue
            if l.startswith("k"):
                out[l] = 2 + (int(l[1:]) % 2 if dims == "mix" else 0)
            elif l[0] in "qr":
                out[l] = 3 if l[0] == "q" else 2
            else:
                out[l] = (2 + j % 2) if dims == "mix" else int(dims)
                j += 1
    return out


def phys_labels(g):
    """The site labels k<site> (one per physical site: site_ind_id 'k{}')."""
    return [l for t in g["tensors"] for l in t if l.startswith("k")]


def out_labels(g):
    """Every dangling label of a 2-norm network (k, q, r)."""
    return [l for t in g["tensors"] for l in t if l[0] in "kqr"]


KIND = {
    "positive": ("positive", "float64"),
    "signed": ("generic", "float64"),
    "complex": ("generic", "complex128"),
    # structured kinds (one per code shortcut visible in the BP sources):
    # zsum / zsum-real: generic data, but one leaf tensor is |-> = (1,-1,0..)/sqrt2
    #   on its bond (x) e_0 on its dangling labels, so that the message it sends
    #   has entries summing to EXACTLY zero (the 'L2phased' normalisation fixes
    #   the phase with sum(x) and has a branch for sum(x) == 0)
    # graded: generic complex data with every bond scaled by the weights
    #   (1, 1e-4) / (1, 1e-2, 1e-4): Schmidt components far below the default
    #   cutoffs (5e-6, 1e-10) of the compression routines, far above zero
    "zsum": ("generic", "complex128"),
    "zsum-real": ("generic", "float64"),
    "graded": ("generic", "complex128"),
}
GRADED = {2: (1.0, 1e-4), 3: (1.0, 1e-2, 1e-4)}


def _label_count(g):
    cnt = {}
    for t in g["tensors"]:
        for l in t:
            cnt[l] = cnt.get(l, 0) + 1
    return cnt


def zsum_leaf(g):
    """Index of the tensor that becomes the |-> leaf: the first tensor with
    exactly one non-dangling label, that label being a plain bond (held by
    two tensors; the hyper flavours divide by messages into other labels)."""
    if g["cls"] == "lazy":
        return None
    cnt = _label_count(g)
    for t, labels in enumerate(g["tensors"]):
        inner = [l for l in labels if l[0] not in "kqrd"]
        if any(l[0] == "d" for l in labels):
            continue  # e_0 on a summed dangling label would put exact zeros into a message HD1BP / HV1BP divide by
        if len(inner) == 1 and cnt[inner[0]] == 2 and all(cnt[l] == 1 for l in labels if l != inner[0]):
            return t
    return None


def _minus_leaf(labels, ld, dtype):
    a = np.ones((), dtype=dtype)
    for l in labels:
        v = np.zeros(ld[l], dtype=dtype)
        if l[0] in "kqrd":
            v[0] = 1.0
        else:
            v[0], v[1] = 2**-0.5, -(2**-0.5)
        a = np.multiply.outer(a, v)
    return a


@functools.lru_cache(maxsize=256)
def _arrays(gjson, dims, data, mode):
    """Deterministic data fill for a geometry.  Signed / complex fills are
    re-drawn (attempt counter in the key) until the exact value is not a
    near-cancellation (|Z| >= COND_MIN * sum|terms|) and, for the hyper
    flavours which divide by messages (+1e-12 smudge), until no exact message
    into a hyper / dangling label has an entry below MARGIN_MIN of its
    largest: the thresholds give >= 100x margin to TOL."""
    g = json.loads(gjson)
    ld = label_dims(g, dims)
    kind, dtype = KIND[data]
    for attempt in range(40):
        arrs = []
        for t, labels in enumerate(g["tensors"]):
            shape = tuple(ld[l] for l in labels)
            a = np.asarray(fill(kind, shape, dtype, key=("c14", g["name"], dims, t, attempt)))
            if data.startswith("zsum") and t == zsum_leaf(g):
                a = _minus_leaf(labels, ld, dtype)
            arrs.append((a, tuple(labels)))
        if data == "graded":
            done = set()
            for t, (a, labels) in enumerate(arrs):
                for ax, l in enumerate(labels):
                    if l[0] == "x" and l not in done:
                        done.add(l)
                        shp = [1] * a.ndim
                        shp[ax] = -1
                        a = a * np.reshape(np.asarray(GRADED[ld[l]]), shp)
                arrs[t] = (a, labels)
        if mode == "2" and phys_labels(g):
            return arrs, attempt
        if data != "positive":
            z = abs(X.value(arrs))
            if not z >= COND_MIN * X.abs_value(arrs):
                continue
        if mode == "h" and data != "positive":
            if X.message_margin(arrs) < MARGIN_MIN:
                continue
        return arrs, attempt
    raise core.HarnessError("no well conditioned fill for %s %s %s" % (g["name"], dims, data))


def arrays_for(g, dims, data, f):
    mode = "2" if f in ("D2BP", "L2BP") else ("h" if f in ("HD1BP", "HV1BP") else "1")
    return _arrays(json.dumps(g, sort_keys=True), dims, data, mode)


@functools.lru_cache(maxsize=256)
def _exact(gjson, dims, data, mode, exponent):
    g = json.loads(gjson)
    arrs, _ = _arrays(gjson, dims, data, mode)
    ex = {}
    if mode != "2":
        ex["Z"] = X.value(arrs, exponent)
    else:
        outs = out_labels(g)
        psi = X.dense(arrs, outs, exponent)
        ex["outs"] = outs
        ex["psi"] = psi
        ex["N2"] = X.norm2(psi)
    return ex


def exact_for(g, dims, data, f, exponent):
    mode = "2" if f in ("D2BP", "L2BP") else ("h" if f in ("HD1BP", "HV1BP") else "1")
    return _exact(json.dumps(g, sort_keys=True), dims, data, mode, float(exponent))


def build_tn(g, arrs, order, exponent=0.0, structured=False):
    import quimb.tensor as qtn

    ts = []
    for s in order:
        for t, site in enumerate(g["sites"]):
            if site == s:
                ts.append(qtn.Tensor(np.array(arrs[t][0]), inds=arrs[t][1], tags=["I%d" % s, "T%d" % t]))
    tn = qtn.TensorNetwork(ts)
    if structured:
        sites = sorted(int(l[1:]) for l in phys_labels(g))
        tn = qtn.TensorNetworkGenVector.from_TN(tn, sites=sites, site_tag_id="I{}", site_ind_id="k{}")
    if exponent:
        tn.exponent = float(exponent)
    return tn


def site_tags(g):
    return ["I%d" % s for s in sorted(set(g["sites"]))]


# --------------------------------------------------------------------------- #
#                         signatures / small helpers                          #
# --------------------------------------------------------------------------- #

D1_LOOP_ENTRIES = ("contract_gloop_expand", "contract_loop_series_expansion", "contract_with_loops")


def _facts(f, entry, cell, g):
    """Structural facts of the CASE that are known to select a distinct code
    path for this (flavour, entry); part of the root-cause signature."""
    base = entry.split(">")[0]
    if f == "HD1BP" and cell["data"].startswith("zsum") and cell.get("init", "default") == "default":
        # default initial messages come from initialize_hyper_messages
        return {"zero_sum_message": True, "init": "initialize_hyper_messages"}
    if entry == "run" and f in HAS_LC:
        return {"damping": "nonzero" if cell.get("damp") else "zero", "local_convergence": bool(cell.get("lc", True))}
    if f == "HV1BP" and base in ("contract", "contract(strip_exponent)", "contract_hv1bp", "zvals[-1]"):
        return {"scalar_tensor": has_scalar(g)}
    if f == "D1BP" and base in D1_LOOP_ENTRIES and ">" not in entry:
        return {"data": "positive" if cell["data"] == "positive" else "signed-or-complex"}
    if f == "HD1BP" and base == "normalize_messages":
        return {"data": "signed-real" if cell["data"] == "signed" else "other"}
    if f == "D2BP" and base == "contract_loop_series_expansion" and ">" not in entry:
        return {"exponent": "nonzero" if cell.get("exp") else "zero"}
    if entry.split(">")[-1] == "compute_tensor_marginal":
        cnt = {}
        for t in g["tensors"]:
            for l in t:
                cnt[l] = cnt.get(l, 0) + 1
        return {"dangling_label": any(c == 1 for c in cnt.values())}
    return {}


def _sig(f, entry, what, cell, g):
    s = {"flavour": f, "entry": entry, "what": what}
    s.update(_facts(f, entry, cell, g))
    return s


def _rel(got, want):
    got = np.asarray(got)
    want = np.asarray(want)
    if got.shape != want.shape:
        return float("inf")
    return X.R.relerr(got, want)


def _num(x):
    x = np.asarray(x)
    if x.size == 1:
        return complex(x.reshape(-1)[0])
    raise ValueError("not a scalar: shape %r" % (x.shape,))


def _seeded(key, dtype):
    """Deterministic positive message initialiser fill_fn(shape); values are
    positive reals stored in the NETWORK's dtype (HV1BP stacks the initial
    messages into typed batch arrays and writes updates into them in place: a
    real-typed initialiser on a complex network is outside its domain)."""
    cnt = [0]

    def fn(shape):
        cnt[0] += 1
        return fill("positive", tuple(int(s) for s in shape), "float64", key=("c14init",) + tuple(key) + (cnt[0],)).astype(dtype)

    return fn


class _Skip(Exception):
    pass


def _degenerate_gauge(cell):
    """get_gauged_tn inverts the eigenvector matrix of the rank-1 matrix
    outer(ma, mb); for bond dimension >= 3 its zero eigenvalue is degenerate
    and on structured (exact zeros) messages LAPACK may return parallel
    eigenvectors - an unconditioned decision, not asserted."""
    return cell["data"].startswith("zsum") and cell["dims"] != "2"


def _gauge_what(bp):
    """Classify a get_gauged_tn cell from the messages alone (before reading
    any result): the implementation inverts the eigenvector matrix of the
    rank-1 matrix outer(ma, mb); when LAPACK returns numerically parallel
    eigenvectors for the degenerate zero eigenvalue (bond dimension >= 3) that
    inverse is garbage.  Those cells get their own 'what' so the recorded
    finding C14-gauged-tn-singular-eigenvectors names them and nothing else."""
    try:
        for ind, tids in bp.tn.ind_map.items():
            if len(tids) != 2:
                continue
            ta, tb = tids
            ka, kb = ((ind, ta), (ind, tb)) if (ind, ta) in bp.messages else ((ta, ind), (tb, ind))
            m = np.outer(np.asarray(bp.messages[ka]), np.asarray(bp.messages[kb]))
            el, ev = np.linalg.eig(m)
            ev = ev[:, np.argsort(-np.abs(el))]
            if not np.linalg.cond(ev) < 1e8:
                return "value-singular-gauge-eigenvectors"
    except Exception:
        pass
    return "value"


class _Eval:
    """Collects one table result per entry point of one cell."""

    def __init__(self, cell, g, tol):
        self.cell = cell
        self.g = g
        self.f = cell["f"]
        self.tol = tol
        self.out = []
        self.nt = n_sites(g) >= 2
        c = cell
        self.keybase = (self.f, g["name"], tuple(c["ord"]), c["dims"], c["data"], c.get("exp", 0.0), c["upd"], c["damp"], c.get("lc"), c.get("init"), c.get("norm"), c.get("ce"), c.get("pool"))

    def bad(self, entry, what, msg):
        self.out.append(table.bad(core.problem("%s %s on %s: %s [cell %s]" % (self.f, entry, self.g["name"], msg, _short(self.cell)), **_sig(self.f, entry, what, self.cell, self.g)), sub=entry))

    def ok(self, entry, tag="ok"):
        self.out.append(table.ok(key=self.keybase + (entry,), nontrivial=self.nt, outcome="%s:%s:%s" % (self.f, entry, tag), sub=entry))

    def scalar(self, entry, fn, want, what="value"):
        """fn() -> scalar (or (mantissa, exponent)); compared with want."""
        try:
            got = fn()
            if isinstance(got, tuple) and len(got) == 2:
                got = _num(got[0]) * 10.0 ** float(np.real(got[1]))
            got = _num(got)
        except Exception as ex:  # every entry point must work on its domain
            self.bad(entry, "exception", "%s: %s" % (type(ex).__name__, str(ex)[:200]))
            return None
        err = abs(got - want) / abs(want) if np.isfinite(got) else float("inf")
        if not err <= self.tol:
            self.bad(entry, what, "got %r, exact %r (rel.err %.3g)" % (got, want, err))
        else:
            self.ok(entry)
        return got

    def arrays(self, entry, fn, what="marginal"):
        """fn() -> list of (name, got_array, want_array)."""
        try:
            triples = fn()
        except Exception as ex:
            self.bad(entry, "exception", "%s: %s" % (type(ex).__name__, str(ex)[:200]))
            return
        worst, wname = 0.0, None
        for name, got, want in triples:
            e = _rel(got, want)
            if not e <= worst:
                worst, wname = e, name
        if not worst <= self.tol:
            self.bad(entry, what, "%s differs from the exact result (rel.err %.3g)" % (wname, worst))
        else:
            self.ok(entry, "n=%d" % min(len(triples), 3))


def _short(cell):
    c = dict(cell)
    c.pop("g", None)
    return json.dumps(c, sort_keys=True)


# --------------------------------------------------------------------------- #
#                              running one flavour                            #
# --------------------------------------------------------------------------- #


def _bp_kwargs(f, cell, g, tn):
    import quimb.tensor.belief_propagation as qbp

    kw = {"update": cell["upd"], "damping": cell["damp"]}
    if cell.get("norm"):
        kw["normalize"] = cell["norm"]
    if f in HAS_LC:
        kw["local_convergence"] = bool(cell.get("lc", True))
    if cell.get("ce") and f in HAS_CE:
        kw["contract_every"] = int(cell["ce"])
    if cell.get("pool") and f == "HV1BP":
        kw["thread_pool"] = int(cell["pool"])
    init = cell.get("init", "default")
    key = (g["name"], cell["dims"], f)
    if init != "default":
        if f == "D1BP":
            kw["message_init_function" if init == "seeded" else "messages"] = _seeded(key, str(tn.dtype))
        elif f == "HD1BP":
            kw["messages"] = _seeded(key, str(tn.dtype))
        elif f == "HV1BP":
            if init == "seeded":
                kw["messages"] = _seeded(key, str(tn.dtype))
            elif init == "dense":
                kw["messages"] = "dense"
            elif init == "dict":
                kw["messages"] = qbp.initialize_hyper_messages(tn, fill_fn=_seeded(key, str(tn.dtype)))
        elif f == "L1BP":
            kw["message_init_function"] = _seeded(key, str(tn.dtype))
        elif f == "D2BP":
            # PSD initial messages on every second bond (the rest is created
            # by D2BP: "only create missing messages")
            msgs = {}
            for j, (ix, tids) in enumerate(sorted(tn.ind_map.items())):
                if len(tids) == 2 and j % 2 == 0:
                    d = tn.ind_size(ix)
                    for tid in sorted(tids):
                        msgs[ix, tid] = fill("psd", (d, d), str(tn.dtype), key=("c14init", g["name"], ix, tid))
            kw["messages"] = msgs
    if f in ("L1BP", "L2BP"):
        if not cell.get("structured"):
            kw["site_tags"] = site_tags(g)
    return kw


def _run_kwargs(cell):
    return {"max_iterations": MAXIT, "tol": BP_TOL}


def _new_bp(f, cell, g, arrs, run=True, inplace=False):
    import quimb.tensor.belief_propagation as qbp

    tn = build_tn(g, arrs, cell["ord"], cell.get("exp", 0.0), structured=bool(cell.get("structured")))
    kw = _bp_kwargs(f, cell, g, tn)
    if inplace:
        kw["inplace"] = True
    bp = getattr(qbp, f)(tn, **kw)
    info = {}
    if run:
        bp.run(info=info, **_run_kwargs(cell))
    return tn, bp, info


def cell_bp(cell, common=None):
    """One (flavour, geometry, order, dims, data, exponent, schedule) cell."""
    import warnings

    warnings.filterwarnings("ignore")
    f = cell["f"]
    g = cell["g"]
    if f == "HV1BP" and cell["upd"] != "parallel":
        # documented: "Only parallel update supported."
        try:
            arrs, _ = arrays_for(g, cell["dims"], cell["data"], f)
            _new_bp(f, cell, g, arrs, run=False)
        except ValueError as ex:
            if "parallel" in str(ex):
                return table.rejected("HV1BP:update=sequential:ValueError")
            raise
        return table.bad(core.problem("HV1BP accepted update='sequential' (documented as unsupported) [%s]" % _short(cell), flavour=f, entry="__init__", what="rejection-missing"), sub="__init__")
    arrs, attempt = arrays_for(g, cell["dims"], cell["data"], f)
    if f not in ("L1BP", "L2BP") and g["cls"] != "lazy" and not X.is_acyclic([(a, l) for a, l in arrs]):
        raise core.HarnessError("geometry %s is not acyclic" % g["name"])
    ex = exact_for(g, cell["dims"], cell["data"], f, cell.get("exp", 0.0))
    E = _Eval(cell, g, TOL)
    try:
        tn, bp, info = _new_bp(f, cell, g, arrs)
    except Exception as exn:
        E.bad("run", "exception", "%s: %s" % (type(exn).__name__, str(exn)[:300]))
        return E.out
    if not (info.get("converged") and bp.converged):
        try:
            nonfinite = sorted(k for k, m in _canon_messages(f, bp).items() if not np.all(np.isfinite(m)))
        except Exception:
            nonfinite = []
        if nonfinite:
            E.bad("run", "nonfinite-messages", "run() did not converge in %s iterations (max_mdiff %r) and %d message(s) are not finite, e.g. %s" % (info.get("iterations"), info.get("max_mdiff"), len(nonfinite), nonfinite[0]))
            return E.out
        E.bad("run", "converged", "not converged after %s iterations, max_mdiff %r" % (info.get("iterations"), info.get("max_mdiff")))
        return E.out
    it = info["iterations"]
    # a run that reports converged may not hold nan / inf messages (a nan
    # distance compares False against tol); reported once, not read further
    try:
        bad_keys = sorted(k for k, m in _canon_messages(f, bp).items() if not np.all(np.isfinite(m)))
    except Exception as exn:
        E.bad("run", "exception", "reading the messages: %s: %s" % (type(exn).__name__, str(exn)[:200]))
        return E.out
    if bad_keys:
        E.bad("run", "nonfinite-messages", "run() reported converged after %d iterations but %d message(s) are not finite, e.g. %s" % (it, len(bad_keys), bad_keys[0]))
        return E.out
    # "converged" must be true: one more round over ALL messages (public
    # attribute local_convergence=False = "check all messages") may not move
    # any message by more than the tolerance (x1000 slack: local convergence tolerates inputs that moved by <= tol).  A
    # violating state is not expanded further (its values / marginals are
    # consequences of the same root cause).
    try:
        lc0 = getattr(bp, "local_convergence", None)
        if lc0 is not None:
            bp.local_convergence = False
        r = bp.iterate(tol=BP_TOL)
        if lc0 is not None:
            bp.local_convergence = lc0
        resid = float(r["max_mdiff"] if isinstance(r, dict) else r)
    except Exception as exn:
        E.bad("run", "exception", "re-check iterate(): %s: %s" % (type(exn).__name__, str(exn)[:200]))
        return E.out
    if not resid <= RESID_SLACK * BP_TOL:
        E.bad("run", "residual", "run(tol=%g) reported converged after %d iterations with max_mdiff %.3g, but re-checking every message once gives max_mdiff %.3g" % (BP_TOL, it, float(info.get("max_mdiff", float("nan"))), resid))
        return E.out
    E.ok("run", "it<=4" if it <= 4 else ("it<=40" if it <= 40 else "it>40"))
    globals()["_entries_" + f](E, cell, g, arrs, ex, tn, bp)
    return E.out


def _fresh(E, cell, g, arrs, entry, **kw):
    """A fresh converged BP object for entry points that mutate it."""
    tn, bp, info = _new_bp(E.f, cell, g, arrs, **kw)
    if not (info.get("converged") and bp.converged):
        raise RuntimeError("fresh run for %s did not converge" % entry)
    return tn, bp


def _common_1norm(E, cell, g, ex, bp):
    Z = ex["Z"]
    kw = {"check_zero": False} if E.f == "HV1BP" else {}
    E.scalar("contract", lambda: bp.contract(**kw), Z)
    E.scalar("contract(strip_exponent)", lambda: bp.contract(strip_exponent=True, **kw), Z)
    if cell.get("ce") and E.f in HAS_CE:
        E.scalar("zvals[-1]", lambda: bp.zvals[-1], Z)


def _func_kwargs(cell, names):
    kw = {"max_iterations": MAXIT, "tol": BP_TOL}
    if "update" in names:
        kw["update"] = cell["upd"]
    if "damping" in names:
        kw["damping"] = cell["damp"]
    if "normalize" in names and cell.get("norm"):
        kw["normalize"] = cell["norm"]
    if "local_convergence" in names:
        kw["local_convergence"] = bool(cell.get("lc", True))
    return kw


def _tensor_index(t):
    return int(next(tag for tag in t.tags if tag.startswith("T"))[1:])


# ------------------------------- D1BP -------------------------------------- #


def _entries_D1BP(E, cell, g, arrs, ex, tn, bp):
    import quimb.tensor.belief_propagation as qbp

    Z = ex["Z"]
    _common_1norm(E, cell, g, ex, bp)

    def index_marginals():
        out = []
        for ix, tids in bp.tn.ind_map.items():
            a, b = tuple(tids)
            out.append((ix, X.normalized(bp.messages[ix, a] * bp.messages[ix, b]), X.index_marginal(arrs, ix)))
        return out

    def tensor_marginals():
        out = []
        for tid, t in bp.tn.tensor_map.items():
            if t.ndim == 0:
                continue
            m = np.array(t.data)
            for ax, ix in enumerate(t.inds):
                shp = [1] * t.ndim
                shp[ax] = -1
                m = m * np.reshape(bp.messages[ix, tid], shp)
            out.append(("tensor %d" % _tensor_index(t), X.normalized(m), X.tensor_marginal(arrs, t.inds)))
        return out

    if n_sites(g) >= 2:
        E.arrays("index_marginals(messages)", index_marginals)
        E.arrays("tensor_marginals(messages)", tensor_marginals)
    if not cell.get("extra"):
        return
    E.scalar("contract_d1bp", lambda: qbp.contract_d1bp(build_tn(g, arrs, cell["ord"], cell.get("exp", 0.0)), **_func_kwargs(cell, ("update", "damping", "normalize", "local_convergence"))), Z)

    def gauged():
        tg = bp.get_gauged_tn()
        zero = 10.0 ** float(tg.exponent)
        for t in tg:
            zero = zero * np.asarray(t.data).reshape(-1)[0]
        return tg.contract(all, output_inds=()), zero

    try:
        if _degenerate_gauge(cell):
            raise _Skip()
        gw = _gauge_what(bp)
        full, zero = gauged()
        E.scalar("get_gauged_tn.contract", lambda: full, Z, what=gw)
        E.scalar("get_gauged_tn.zeroth_entries", lambda: zero, Z, what=gw)
    except _Skip:
        pass
    except Exception as exn:
        E.bad("get_gauged_tn.contract", "exception", "%s: %s" % (type(exn).__name__, str(exn)[:200]))
    for name in D1_LOOP_ENTRIES:
        try:
            _, b2 = _fresh(E, cell, g, arrs, name)
        except Exception as exn:
            E.bad(name, "exception", "%s: %s" % (type(exn).__name__, str(exn)[:200]))
            continue
        E.scalar(name, lambda: getattr(b2, name)(), Z)
        E.scalar(name + ">contract", lambda: b2.contract(), Z)
    try:
        _, b3 = _fresh(E, cell, g, arrs, "normalize")
        b3.normalize_message_pairs()
        b3.normalize_tensors()
        E.scalar("normalize_tensors>contract", lambda: b3.contract(), Z)
    except Exception as exn:
        E.bad("normalize_tensors>contract", "exception", "%s: %s" % (type(exn).__name__, str(exn)[:200]))


# ------------------------------ HD1BP / HV1BP ------------------------------ #


def _hyper_marginals(E, arrs, tn, msgs, prefix=""):
    from quimb.tensor.belief_propagation import bp_common as bc

    def all_index():
        got = bc.compute_all_index_marginals_from_messages(tn, msgs)
        if set(got) != set(tn.ind_map):
            raise RuntimeError("marginals for %r, labels %r" % (sorted(got), sorted(tn.ind_map)))
        return [(ix, got[ix], X.index_marginal(arrs, ix)) for ix in sorted(got)]

    def one_index():
        return [(ix, bc.compute_index_marginal(tn, ix, msgs), X.index_marginal(arrs, ix)) for ix in sorted(tn.ind_map)]

    def tensors():
        out = []
        for tid, t in tn.tensor_map.items():
            if t.ndim == 0:
                continue
            out.append(("tensor %d" % _tensor_index(t), bc.compute_tensor_marginal(tn, tid, msgs), X.tensor_marginal(arrs, t.inds)))
        return out

    if tn.ind_map:
        E.arrays(prefix + "compute_all_index_marginals_from_messages", all_index)
        E.arrays(prefix + "compute_index_marginal", one_index)
        E.arrays(prefix + "compute_tensor_marginal", tensors)


def _entries_HD1BP(E, cell, g, arrs, ex, tn, bp):
    import quimb.tensor.belief_propagation as qbp
    from quimb.tensor.belief_propagation import hd1bp

    Z = ex["Z"]
    _common_1norm(E, cell, g, ex, bp)
    _hyper_marginals(E, arrs, tn, bp.messages)
    if not cell.get("extra"):
        return
    fk = _func_kwargs(cell, ("update", "damping", "normalize"))
    E.scalar("contract_hd1bp", lambda: qbp.contract_hd1bp(build_tn(g, arrs, cell["ord"], cell.get("exp", 0.0)), **fk), Z)
    if cell["upd"] == "sequential" and not cell.get("norm"):
        # run_belief_propagation_hd1bp has no update / normalize arguments
        try:
            tn2 = build_tn(g, arrs, cell["ord"], cell.get("exp", 0.0))
            msgs, conv = hd1bp.run_belief_propagation_hd1bp(tn2, max_iterations=MAXIT, tol=BP_TOL, damping=cell["damp"])
            if not conv:
                E.bad("run_belief_propagation_hd1bp", "converged", "returned converged=False")
            else:
                _hyper_marginals(E, arrs, tn2, msgs, prefix="run_belief_propagation_hd1bp>")
        except Exception as exn:
            E.bad("run_belief_propagation_hd1bp", "exception", "%s: %s" % (type(exn).__name__, str(exn)[:200]))
    if True:
        if all(len(tids) == 2 for tids in tn.ind_map.values()) and tn.ind_map and not _degenerate_gauge(cell):

            def gauged():
                tg = bp.get_gauged_tn()
                zero = 10.0 ** float(tg.exponent)
                for t in tg:
                    zero = zero * np.asarray(t.data).reshape(-1)[0]
                return tg.contract(all, output_inds=()), zero

            try:
                gw = _gauge_what(bp)
                full, zero = gauged()
                E.scalar("get_gauged_tn.contract", lambda: full, Z, what=gw)
                E.scalar("get_gauged_tn.zeroth_entries", lambda: zero, Z, what=gw)
            except Exception as exn:
                E.bad("get_gauged_tn.contract", "exception", "%s: %s" % (type(exn).__name__, str(exn)[:200]))
    try:
        _, b2 = _fresh(E, cell, g, arrs, "normalize_messages")
        b2.normalize_messages()
        E.scalar("normalize_messages>contract", lambda: b2.contract(), Z)
    except Exception as exn:
        E.bad("normalize_messages>contract", "exception", "%s: %s" % (type(exn).__name__, str(exn)[:200]))
    if cell["data"] != "signed":
        # (signed data: normalize_messages, which this entry calls first,
        # already poisons the messages - reported under its own entry)
        try:
            _, b3 = _fresh(E, cell, g, arrs, "contract_gloop_expand")
            E.scalar("contract_gloop_expand", lambda: b3.contract_gloop_expand(), Z)
        except Exception as exn:
            E.bad("contract_gloop_expand", "exception", "%s: %s" % (type(exn).__name__, str(exn)[:200]))


def _entries_HV1BP(E, cell, g, arrs, ex, tn, bp):
    import quimb.tensor.belief_propagation as qbp
    from quimb.tensor.belief_propagation import hv1bp

    Z = ex["Z"]
    _common_1norm(E, cell, g, ex, bp)
    E.scalar("contract_dense", lambda: bp.contract_dense(), Z)
    _hyper_marginals(E, arrs, tn, bp.get_messages_dense())
    if not cell.get("extra"):
        return
    fk = _func_kwargs(cell, ("update", "damping", "normalize"))
    E.scalar("contract_hv1bp", lambda: qbp.contract_hv1bp(build_tn(g, arrs, cell["ord"], cell.get("exp", 0.0)), **fk), Z)
    try:
        tn2 = build_tn(g, arrs, cell["ord"], cell.get("exp", 0.0))
        msgs, conv = hv1bp.run_belief_propagation_hv1bp(tn2, **fk)
        if not conv:
            E.bad("run_belief_propagation_hv1bp", "converged", "returned converged=False")
        else:
            _hyper_marginals(E, arrs, tn2, msgs, prefix="run_belief_propagation_hv1bp>")
    except Exception as exn:
        E.bad("run_belief_propagation_hv1bp", "exception", "%s: %s" % (type(exn).__name__, str(exn)[:200]))


# --------------------------------- L1BP ------------------------------------ #


def _entries_L1BP(E, cell, g, arrs, ex, tn, bp):
    import quimb.tensor.belief_propagation as qbp

    Z = ex["Z"]
    _common_1norm(E, cell, g, ex, bp)
    if not cell.get("extra"):
        return
    fk = _func_kwargs(cell, ("update", "damping", "local_convergence"))
    E.scalar("contract_l1bp", lambda: qbp.contract_l1bp(build_tn(g, arrs, cell["ord"], cell.get("exp", 0.0)), site_tags=site_tags(g), **fk), Z)
    try:
        _, b2 = _fresh(E, cell, g, arrs, "normalize_message_pairs")
        b2.normalize_message_pairs()
        E.scalar("normalize_message_pairs>contract", lambda: b2.contract(), Z)
    except Exception as exn:
        E.bad("normalize_message_pairs>contract", "exception", "%s: %s" % (type(exn).__name__, str(exn)[:200]))


# --------------------------------- D2BP ------------------------------------ #


def _dense_of(tn, outs):
    if not outs:
        return np.asarray(tn.contract(all, output_inds=()))
    t = tn.contract(all, output_inds=tuple(outs), preserve_tensor=True)
    return np.asarray(t.transpose(*outs).data) * 1.0


def _tensor_entry(E, entry, fn, ex):
    """fn() -> TensorNetwork that must denote the same tensor as the input."""

    sizes = []

    def go():
        out = fn()
        if set(out.outer_inds()) != set(ex["outs"]):
            raise RuntimeError("outer labels changed: %r" % (sorted(out.outer_inds()),))
        if out.num_tensors == n_sites(E.g):
            sizes.append(sorted(int(out.ind_size(ix)) for ix in out.inner_inds()))
        return [("dense", _dense_of(out, ex["outs"]), ex["psi"])]

    E.arrays(entry, go, what="tensor")
    c = E.cell
    if sizes and c["data"] == "graded" and c["dims"] == "2" and E.g["name"].split(":")[1] == "all":
        # every bond has full rank with Schmidt weights ~(1, 1e-4): nothing
        # may be discarded with max_bond=None, cutoff=0.0
        ld = label_dims(E.g, c["dims"])
        want = sorted(ld[l] for l in ld if l[0] == "x")
        if sizes[0] != want:
            E.bad(entry + ".bond_sizes", "bond-size", "bond sizes %r after an untruncated compression / gauging, %r before" % (sizes[0], want))
        else:
            E.ok(entry + ".bond_sizes")


def _connected_wheres(g):
    """Connected sets of physical sites of size 1 and 2 (both orders)."""
    ph = sorted(int(l[1:]) for l in phys_labels(g))
    out = [(i,) for i in ph]
    for a in ph:
        for b in ph:
            if a != b:
                la = {l for t, s in zip(g["tensors"], g["sites"]) if s == a for l in t}
                lb = {l for t, s in zip(g["tensors"], g["sites"]) if s == b for l in t}
                if la & lb:
                    out.append((a, b))
    return out


def _entries_D2BP(E, cell, g, arrs, ex, tn, bp):
    import quimb.tensor.belief_propagation as qbp

    N2 = ex["N2"]
    psi = ex["psi"]
    outs = ex["outs"]
    exp = cell.get("exp", 0.0)
    E.scalar("contract", lambda: bp.contract(), N2)
    E.scalar("contract(strip_exponent)", lambda: bp.contract(strip_exponent=True), N2)
    if cell.get("ce"):
        E.scalar("zvals[-1]", lambda: bp.zvals[-1], N2)
    if outs:
        E.arrays("compute_marginal", lambda: [(ix, bp.compute_marginal(ix), X.phys_marginal(psi, ax)) for ax, ix in enumerate(outs)])
    wheres = _connected_wheres(g) if cell.get("structured") else []
    axis = {int(l[1:]): ax for ax, l in enumerate(outs) if l.startswith("k")}
    if wheres:
        E.arrays("partial_trace", lambda: [(str(w), bp.partial_trace(w), X.rdm(psi, [axis[s] for s in w])) for w in wheres], what="marginal")
    _tensor_entry(E, "compress(max_bond=None)", lambda: bp.compress(max_bond=None, cutoff=0.0), ex)
    _tensor_entry(E, "gauge_symmetric", lambda: bp.gauge_symmetric(), ex)
    if not cell.get("extra"):
        return
    fk = _func_kwargs(cell, ("update", "damping", "normalize", "local_convergence"))
    fresh_tn = lambda: build_tn(g, arrs, cell["ord"], exp)  # noqa: E731
    E.scalar("contract_d2bp", lambda: qbp.contract_d2bp(fresh_tn(), **fk), N2)
    _tensor_entry(E, "compress_d2bp(max_bond=None)", lambda: qbp.compress_d2bp(fresh_tn(), max_bond=None, cutoff=0.0, **fk), ex)
    _tensor_entry(E, "gauge_d2bp", lambda: qbp.gauge_d2bp(fresh_tn(), **fk), ex)
    _tensor_entry(E, "gauge_all_belief_propagation(converged)", lambda: fresh_tn().gauge_all_belief_propagation(**fk), ex)
    _tensor_entry(E, "gauge_all_belief_propagation(defaults)", lambda: fresh_tn().gauge_all_belief_propagation(), ex)
    _tensor_entry(E, "gauge_all(method='bp')", lambda: fresh_tn().gauge_all("bp"), ex)

    def inplace_gauge():
        t = fresh_tn()
        r = t.gauge_all_belief_propagation_(**fk)
        if r is not t:
            raise RuntimeError("inplace gauging returned a different object")
        return t

    _tensor_entry(E, "gauge_all_belief_propagation_", inplace_gauge, ex)
    # inplace compression keeps the instance usable: messages are updated
    try:
        t4, b4 = _fresh(E, cell, g, arrs, "compress(inplace)", inplace=True)
        r4 = b4.compress(max_bond=None, cutoff=0.0, inplace=True)
        _tensor_entry(E, "compress(inplace=True)", lambda: r4, ex)
        E.scalar("compress(inplace=True)>contract", lambda: b4.contract(), N2)
    except Exception as exn:
        E.bad("compress(inplace=True)", "exception", "%s: %s" % (type(exn).__name__, str(exn)[:200]))
    for name in ("contract_gloop_expand", "contract_loop_series_expansion"):
        try:
            _, b2 = _fresh(E, cell, g, arrs, name)
        except Exception as exn:
            E.bad(name, "exception", "%s: %s" % (type(exn).__name__, str(exn)[:200]))
            continue
        E.scalar(name, lambda: getattr(b2, name)(), N2)
        if name == "contract_gloop_expand":
            E.scalar(name + ">contract", lambda: b2.contract(), N2)
    try:
        _, b3 = _fresh(E, cell, g, arrs, "normalize_tensors")
        b3.normalize_message_pairs()
        b3.normalize_tensors()
        E.scalar("normalize_tensors>contract", lambda: b3.contract(), N2)
    except Exception as exn:
        E.bad("normalize_tensors>contract", "exception", "%s: %s" % (type(exn).__name__, str(exn)[:200]))
    if wheres:
        for name in ("partial_trace_gloop_expand", "partial_trace_loop_series_expansion"):

            def go(name=name):
                out = []
                for w in wheres:
                    _, b5 = _fresh(E, cell, g, arrs, name)
                    out.append((str(w), getattr(b5, name)(w), X.rdm(psi, [axis[s] for s in w])))
                return out

            E.arrays(name, go, what="marginal")


# --------------------------------- L2BP ------------------------------------ #


def _entries_L2BP(E, cell, g, arrs, ex, tn, bp):
    import quimb.tensor.belief_propagation as qbp

    N2 = ex["N2"]
    psi = ex["psi"]
    outs = ex["outs"]
    exp = cell.get("exp", 0.0)
    E.scalar("contract", lambda: bp.contract(), N2)
    E.scalar("contract(strip_exponent)", lambda: bp.contract(strip_exponent=True), N2)
    if cell.get("ce"):
        E.scalar("zvals[-1]", lambda: bp.zvals[-1], N2)
    axis = {int(l[1:]): ax for ax, l in enumerate(outs) if l.startswith("k")}
    if cell.get("structured") and outs and n_sites(g) >= 2:
        E.arrays("partial_trace", lambda: [("site %d" % s, bp.partial_trace(s), X.rdm(psi, [axis[s]])) for s in sorted(axis)], what="marginal")
    fresh_tn = lambda: build_tn(g, arrs, cell["ord"], exp, structured=bool(cell.get("structured")))  # noqa: E731
    if n_sites(g) >= 2:
        _tensor_entry(E, "compress(max_bond=None)", lambda: bp.compress(fresh_tn(), max_bond=None, cutoff=0.0), ex)
        _tensor_entry(E, "compress(max_bond=None,lazy)", lambda: bp.compress(fresh_tn(), max_bond=None, cutoff=0.0, lazy=True), ex)
    if not cell.get("extra"):
        return
    fk = _func_kwargs(cell, ("update", "damping", "local_convergence"))
    st = {} if cell.get("structured") else {"site_tags": site_tags(g)}
    E.scalar("contract_l2bp", lambda: qbp.contract_l2bp(fresh_tn(), **st, **fk), N2)
    if n_sites(g) >= 2:
        _tensor_entry(E, "compress_l2bp(max_bond=None)", lambda: qbp.compress_l2bp(fresh_tn(), max_bond=None, cutoff=0.0, **st, **fk), ex)
        _tensor_entry(E, "compress_l2bp(max_bond=None,lazy)", lambda: qbp.compress_l2bp(fresh_tn(), max_bond=None, cutoff=0.0, lazy=True, **st, **fk), ex)
    if n_sites(g) >= 2:
        from quimb.tensor.tnag.compress import tensor_network_ag_compress

        _tensor_entry(
            E,
            "tensor_network_ag_compress(method='l2bp')",
            lambda: tensor_network_ag_compress(fresh_tn(), max_bond=None, cutoff=0.0, method="l2bp", site_tags=site_tags(g), max_iterations=MAXIT, tol=BP_TOL, update=cell["upd"], damping=cell["damp"], local_convergence=bool(cell.get("lc", True))),
            ex,
        )
    try:
        _, b2 = _fresh(E, cell, g, arrs, "normalize_message_pairs")
        b2.normalize_message_pairs()
        E.scalar("normalize_message_pairs>contract", lambda: b2.contract(), N2)
    except Exception as exn:
        E.bad("normalize_message_pairs>contract", "exception", "%s: %s" % (type(exn).__name__, str(exn)[:200]))


# --------------------------------------------------------------------------- #
#              P: one parallel round does not depend on the order             #
# --------------------------------------------------------------------------- #


def _canon_messages(f, bp):
    """Messages of a BP object keyed by labels / harness tensor tags (not by
    tids, which depend on the insertion order)."""
    tag = {tid: "T%d" % _tensor_index(t) for tid, t in bp.tn.tensor_map.items()}
    out = {}
    if f in ("D1BP", "D2BP"):
        for (ix, tid), m in bp.messages.items():
            out["%s->%s" % (ix, tag[tid])] = np.asarray(m)
    elif f in ("HD1BP", "HV1BP"):
        msgs = bp.messages if f == "HD1BP" else bp.get_messages_dense()
        for (a, b), m in msgs.items():
            out["%s->%s" % (tag.get(a, a) if not isinstance(a, str) else a, tag.get(b, b) if not isinstance(b, str) else b)] = np.asarray(m)
    else:
        for (i, j), tm in bp.messages.items():
            inds = sorted(tm.inds)
            out["%s->%s" % (i, j)] = np.asarray(tm.transpose(*inds).data)
    return out


def cell_parallel_round(cell, common=None):
    """update='parallel' is documented as 'all messages are computed using
    messages from the previous round only': the messages after k rounds can
    then not depend on the order in which the tensors were inserted."""
    import warnings

    warnings.filterwarnings("ignore")
    f = cell["f"]
    g = cell["g"]
    arrs, _ = arrays_for(g, cell["dims"], cell["data"], f)
    n = n_sites(g)
    res = []
    ref_cell = dict(cell, ord=list(range(n)))
    try:
        _, bp0, _ = _new_bp(f, ref_cell, g, arrs, run=False)
        _, bp1, _ = _new_bp(f, cell, g, arrs, run=False)
        for rnd in (0, 1, 2):
            if rnd:
                bp0.iterate(tol=BP_TOL)
                bp1.iterate(tol=BP_TOL)
            m0 = _canon_messages(f, bp0)
            m1 = _canon_messages(f, bp1)
            entry = "messages after %d parallel round(s)" % rnd
            if set(m0) != set(m1):
                res.append(table.bad(core.problem("%s %s: message keys differ between insertion orders" % (f, entry), flavour=f, entry="parallel-round", what="keys"), sub=entry))
                break
            worst = max([_rel(m1[k], m0[k]) for k in m0] or [0.0])
            if not worst <= 1e-10:
                res.append(table.bad(core.problem("%s on %s: %s differ between insertion order %r and the identity order (rel.err %.3g) although update='parallel' [%s]" % (f, g["name"], entry, cell["ord"], worst, _short(cell)), flavour=f, entry="parallel-round", what="order-dependent"), sub=entry))
                break
            res.append(table.ok(key=(f, g["name"], tuple(cell["ord"]), cell["data"], cell["damp"], rnd), nontrivial=cell["ord"] != list(range(n)), outcome="%s:parallel-round-%d:ok" % (f, rnd), sub=entry))
    except Exception as exn:
        res.append(table.bad(core.problem("%s parallel round on %s raised %s: %s [%s]" % (f, g["name"], type(exn).__name__, str(exn)[:200], _short(cell)), flavour=f, entry="parallel-round", what="exception"), sub="exception"))
    return res


# --------------------------------------------------------------------------- #
#                               M: sampling                                   #
# --------------------------------------------------------------------------- #


def cell_sample(cell, common=None):
    import warnings

    warnings.filterwarnings("ignore")
    import quimb.tensor.belief_propagation as qbp

    f = cell["f"]
    g = cell["g"]
    arrs, _ = arrays_for(g, cell["dims"], cell["data"], f)
    ex = exact_for(g, cell["dims"], cell["data"], f, 0.0)
    entry = {"HD1BP": "sample_hd1bp", "HV1BP": "sample_hv1bp", "D2BP": "sample_d2bp"}[f]
    sig = {"flavour": f, "entry": entry}
    if f == "D2BP":
        sig["messages"] = "shared-dict" if cell.get("share") else "default-None"
    tn = build_tn(g, arrs, cell["ord"])
    key = (f, g["name"], cell["dims"], cell["data"], cell["seed"], cell.get("bias"), cell.get("share"), len(cell["outs"]) if cell.get("outs") is not None else None)
    try:
        if f == "D2BP":
            kw = {}
            if cell.get("outs") is not None:
                kw["output_inds"] = list(cell["outs"])
            config, tnc, omega = qbp.sample_d2bp(tn, max_iterations=MAXIT, tol=BP_TOL, seed=cell["seed"], messages=({} if cell.get("share") else None), **kw)
        else:
            fn = qbp.sample_hd1bp if f == "HD1BP" else qbp.sample_hv1bp
            config, tnc, omega = fn(tn, max_iterations=MAXIT, tol=BP_TOL, seed=cell["seed"], bias=bool(cell.get("bias")))
    except Exception as exn:
        return table.bad(core.problem("%s raised %s: %s [%s]" % (entry, type(exn).__name__, str(exn)[:200], _short(cell)), what="exception", **sig), sub=entry)
    config = {k: int(v) for k, v in config.items()}
    res = []
    if f == "D2BP":
        outs = ex["outs"]
        asked = list(cell["outs"]) if cell.get("outs") is not None else outs
        if set(config) != set(asked):
            return table.bad(core.problem("%s sampled labels %r, expected %r" % (entry, sorted(config), asked), what="labels", **sig), sub=entry)
        # probability of the (partial) config: unsampled labels are summed
        amp = ex["psi"][tuple(config[l] if l in config else slice(None) for l in outs)]
        p = float(np.sum(np.abs(amp) ** 2)) / ex["N2"]
    else:
        labels = X.all_labels(arrs)
        if set(config) != set(labels):
            return table.bad(core.problem("%s sampled labels %r, expected %r" % (entry, sorted(config), labels), what="labels", **sig), sub=entry)
        w = 1.0
        for a, ls in arrs:
            w = w * a[tuple(config[l] for l in ls)]
        p = float(np.real(w / ex["Z"]))
        try:
            wq = _num(tnc.contract(all, output_inds=()))
        except Exception as exn:
            return table.bad(core.problem("%s: contracting tn_config raised %s: %s" % (entry, type(exn).__name__, str(exn)[:200]), what="exception", **sig), sub=entry + ".tn_config")
        if not abs(wq - w) <= TOL * abs(w):
            res.append(table.bad(core.problem("%s: tn_config contracts to %r, weight of the returned config is %r [%s]" % (entry, wq, w, _short(cell)), what="weight", **sig), sub=entry + ".tn_config"))
        else:
            res.append(table.ok(key=key + ("tn_config",), nontrivial=True, outcome="%s.tn_config:ok" % entry, sub=entry + ".tn_config"))
    if not abs(float(omega) - p) <= 1e-7 * p:
        res.append(table.bad(core.problem("%s: omega=%r but the exact probability of the returned config is %r [%s]" % (entry, float(omega), p, _short(cell)), what="omega", **sig), sub=entry))
    else:
        res.append(table.ok(key=key, nontrivial=True, outcome="%s:ok" % entry, sub=entry))
    return res


# --------------------------------------------------------------------------- #
#                               R: region counts                              #
# --------------------------------------------------------------------------- #


def cell_regions(cell, common=None):
    from quimb.tensor.belief_propagation import RegionGraph, gen_region_counts

    fam = [tuple(r) for r in cell["fam"]]
    want = X.region_counts(fam)
    want_pruned = {r: c for r, c in want.items() if c != 0}
    st = X.region_structure(fam)
    res = []

    def judge(entry, got, ref, root):
        key = (entry, tuple(fam))
        if got != ref:
            tot = X.node_totals(got)
            off = {x: c for x, c in sorted(tot.items()) if c != 1}
            msg = "%s(%r): counts %r, inclusion-exclusion on the intersection closure gives %r; node totals != 1: %r" % (
                entry,
                fam,
                sorted((sorted(r), c) for r, c in got.items()),
                sorted((sorted(r), c) for r, c in ref.items()),
                off,
            )
            res.append(table.bad(core.problem(msg, flavour="regions", entry=entry, what="counts", root=root), sub=entry))
        else:
            res.append(table.ok(key=key, nontrivial=len(want) > len(set(map(frozenset, fam))), outcome="%s:%s" % (entry, "closure+%d" % min(3, len(want) - len(set(map(frozenset, fam))))), sub=entry))

    groot = "pair-meets-only-in-common-core" if st["core_only_pair"] else ("nested-intersection" if st["nested"] else "none")
    rroot = "common-core+nested-intersection" if (st["core"] and st["nested"]) else ("nested-intersection" if st["nested"] else "none")
    try:
        got = {}
        for r, c in gen_region_counts(fam):
            if r in got:
                raise RuntimeError("region %r yielded twice" % (sorted(r),))
            got[r] = c
        judge("gen_region_counts", got, want_pruned, groot)
    except Exception as exn:
        res.append(table.bad(core.problem("gen_region_counts(%r) raised %s: %s" % (fam, type(exn).__name__, exn), flavour="regions", entry="gen_region_counts", what="exception", root=groot), sub="gen_region_counts"))
    try:
        got = dict(gen_region_counts(fam, autoprune=False))
        judge("gen_region_counts(autoprune=False)", got, want, groot)
    except Exception as exn:
        res.append(table.bad(core.problem("gen_region_counts(%r, autoprune=False) raised %s: %s" % (fam, type(exn).__name__, exn), flavour="regions", entry="gen_region_counts(autoprune=False)", what="exception", root=groot), sub="gen_region_counts(autoprune=False)"))
    try:
        rg = RegionGraph(fam)
        got = {r: rg.get_count(r) for r in rg.regions}
        judge("RegionGraph", got, want_pruned, rroot)
        if got == want_pruned:
            # the documented balance self-check must agree with the reference
            if not rg.isbalanced():
                res.append(table.bad(core.problem("RegionGraph(%r).isbalanced() is False on counts equal to the reference" % (fam,), flavour="regions", entry="RegionGraph.isbalanced", what="counts", root=rroot), sub="RegionGraph.isbalanced"))
    except Exception as exn:
        res.append(table.bad(core.problem("RegionGraph(%r) raised %s: %s" % (fam, type(exn).__name__, exn), flavour="regions", entry="RegionGraph", what="exception", root=rroot), sub="RegionGraph"))
    return res


# --------------------------------------------------------------------------- #
#                               enumeration                                   #
# --------------------------------------------------------------------------- #


def _orders(n, full):
    ident = list(range(n))
    if full:
        return [list(p) for p in itertools.permutations(ident)]
    out = [ident]
    for o in (ident[::-1],) + tuple(ident[k:] + ident[:k] for k in range(1, n)):
        if list(o) not in out:
            out.append(list(o))
    return out


def _domain(f, tier):
    """Geometries of a flavour's documented domain for table O."""
    quick = tier == "quick"
    nmax = 5 if quick else 6
    out = []
    trees = all_trees(nmax)
    if quick:
        # plus the deepest 6-node tree (the path), the rest of n = 6 is thorough
        trees = trees + [(6, 0, X.unlabelled_trees(6)[0])]
    if f in ONE_NORM:
        for n, idx, e in trees:
            if n == 1 and f == "HV1BP":
                continue  # a network without any label has nothing to batch (degenerate, excluded)
            out.append(tree_geom(n, idx, e))
        out += [FORESTS[k] for k in sorted(FORESTS)]
        if f in ("HD1BP", "HV1BP"):
            out += [HYPER[k] for k in sorted(HYPER)]
        if f == "L1BP":
            for n, idx, e in all_trees(4 if quick else 5, 2):
                out.append(tree_geom(n, idx, e, fat="split"))
                out.append(tree_geom(n, idx, e, fat="double"))
    else:
        for n, idx, e in trees:
            for phys in ("all", "alt") + (("none",) if n <= 4 else ()) + (("op",) if (n <= 4 or not quick) else ()):
                out.append(tree_geom(n, idx, e, phys=phys))
        if f == "L2BP":
            for n, idx, e in all_trees(3 if quick else 4, 2):
                out.append(tree_geom(n, idx, e, phys="op", fat="split"))
            for n, idx, e in all_trees(4 if quick else 5, 2):
                out.append(tree_geom(n, idx, e, phys="all", fat="split"))
                out.append(tree_geom(n, idx, e, phys="alt", fat="double"))
    return out


def _bundles(f, tier):
    """Schedule / option bundles of table O (S has the full schedule product)."""
    inits = {"D1BP": ["seeded", "callable"], "HD1BP": ["seeded"], "HV1BP": ["seeded", "dense", "dict"], "L1BP": ["seeded"], "D2BP": ["seeded"], "L2BP": []}[f]
    norms = ["L1", "Linf"] if f == "HV1BP" else ["L1", "Linf", "L2"]
    upds = ["parallel"] if f == "HV1BP" else ["sequential", "parallel"]
    out = []
    for upd in upds:
        base = {"upd": upd, "damp": 0.0, "lc": True, "init": "default", "norm": None, "ce": None}
        if tier == "quick":
            out.append(dict(base, extra=1))
            for i in inits:
                out.append(dict(base, init=i))
            out.append(dict(base, norm=norms[0]))
            out.append(dict(base, damp=0.3, lc=False, init=(inits[0] if inits else "default"), norm=norms[1]))
            if f in HAS_LC:
                out.append(dict(base, damp=0.3, lc=True, init=(inits[0] if inits else "default")))
            if f in HAS_CE:
                out.append(dict(base, ce=1))
        else:
            # complete: update x damping x local_convergence x init (default
            # normalize); update x normalize; one combined exotic bundle
            for damp in (0.0, 0.3):
                for lc in (True, False) if f in HAS_LC else (True,):
                    for i in ["default"] + inits:
                        out.append(dict(base, damp=damp, lc=lc, init=i, extra=1 if (damp == 0.0 and i == "default") else 0))
            for nm in norms:
                out.append(dict(base, norm=nm))
            out.append(dict(base, damp=0.3, lc=False, init=(inits[0] if inits else "default"), norm=norms[1]))
            if f in HAS_CE:
                out.append(dict(base, ce=1))
                out.append(dict(base, ce=1, damp=0.3))
    if f == "HV1BP":
        # the batched kernels submitted to a real 2-thread pool (tasks are
        # independent per rank, so the result may not change)
        out.append(dict(upd="parallel", damp=0.0, lc=True, init="default", norm=None, ce=None, pool=2))
        out.append(dict(upd="sequential", damp=0.0, lc=True, init="default", norm=None, ce=None))
    return out


def cells_structured(tier, flavours):
    """Structured data kinds x every flavour x dtype (appended to table O):
    exact-zero-sum messages (complex: 'L2phased' is the default normalisation;
    real: requested explicitly) and graded bond spectra for the 2-norm
    gauging / compression entries."""
    quick = tier == "quick"
    cells = []
    for f in flavours:
        dims_list = ["2", "3"]
        upds = ["parallel"] if f == "HV1BP" else ["sequential", "parallel"]
        for g in _domain(f, tier):
            ns = n_sites(g)
            if ns < 2:
                continue
            orders = [list(range(ns)), list(range(ns))[::-1]]
            jobs = []
            if zsum_leaf(g) is not None and (not quick or ns <= 5):
                jobs.append(("zsum", None))
                if f != "HV1BP":
                    jobs.append(("zsum-real", "L2phased"))
                    if not quick:
                        jobs.append(("zsum", "L2"))
            if f in ("D2BP", "L2BP") and ":all" in g["name"] and g["cls"] != "lazy" or (f == "L2BP" and g["name"].endswith(":all:split")):
                jobs.append(("graded", None))
            for data, norm in jobs:
                for order in orders if not quick else orders[:1] + (orders[1:] if data == "zsum" else []):
                    for dims in dims_list:
                        for upd in upds:
                            c = {"f": f, "g": g, "ord": order, "dims": dims, "data": data, "exp": 0.0, "upd": upd, "damp": 0.0, "lc": True, "init": "default", "norm": norm, "ce": None, "extra": 1}
                            if f in ("D2BP", "L2BP") and phys_labels(g) and g["cls"] != "lazy":
                                c["structured"] = 1 if (f == "D2BP" or g["name"].endswith((":all", ":op"))) else 0
                            cells.append(c)
    return cells


def cells_O(tier, flavours):
    return _cells_O(tier, flavours) + cells_structured(tier, flavours)


def _cells_O(tier, flavours):
    quick = tier == "quick"
    cells = []
    for f in flavours:
        dims_list = ["3", "mix"] if quick else ["2", "3", "mix"]
        if f == "HV1BP":
            dims_list = ["3"] if quick else ["2", "3"]  # "require all dimensions to match"
        datas = ["positive", "signed", "complex"] if f in ONE_NORM else ["signed", "complex"]
        if not quick and f not in ONE_NORM:
            datas = ["positive", "signed", "complex"]
        for g in _domain(f, tier):
            ns = n_sites(g)
            orders = [list(range(ns))] + ([list(range(ns))[::-1]] if ns >= 2 else [])
            for oi, order in enumerate(orders):
                for dims in dims_list:
                    for data in datas:
                        for bi, b in enumerate(_bundles(f, tier)):
                            if f == "HV1BP" and b["upd"] == "sequential" and not (g["name"] == "tree2.0" and oi == 0 and dims == dims_list[0]):
                                continue  # the documented rejection is probed once per data kind, not per geometry
                            # exponent 0.5 rides on the base bundles; structured
                            # networks (site_ind_id / site_tags) where they exist
                            exps = (0.0, 0.5) if (b.get("extra") or (quick and bi == 0)) else (0.0,)
                            for exp in exps:
                                if oi == 1 and not (b.get("extra") or b["damp"]):
                                    continue  # reversed order: base + damped bundles only (S has all orders)
                                c = {"f": f, "g": g, "ord": order, "dims": dims, "data": data, "exp": exp}
                                c.update(b)
                                if f in ("D2BP", "L2BP") and phys_labels(g) and g["cls"] != "lazy":
                                    c["structured"] = 1 if (f == "D2BP" or g["name"].endswith((":all", ":op"))) else 0
                                cells.append(c)
    return cells


def cells_S(tier, flavours):
    quick = tier == "quick"
    cells = []
    for f in flavours:
        for n, idx, e in all_trees(6 if not quick else 5, 2):
            if f in ONE_NORM:
                g = tree_geom(n, idx, e)
            else:
                g = tree_geom(n, idx, e, phys="all")
            # thorough: all 720 orders of the 6-node trees too, for the cheap dense 1-norm flavours (undamped)
            dense6 = (not quick) and n == 6 and f in ("D1BP", "HD1BP", "HV1BP")
            full = n <= (4 if quick else 5) or dense6
            for order in _orders(n, full):
                for upd in ("sequential", "parallel") if f != "HV1BP" else ("parallel",):
                    for damp in (0.0, 0.3):
                        for lc in (True, False) if f in HAS_LC else (True,):
                            for data in ("positive", "complex") if f in ONE_NORM else ("complex",):
                                if not full and (damp or data == "positive"):
                                    continue  # beyond the exhaustive-order bound: rotations, undamped, complex only
                                if dense6 and damp:
                                    continue
                                c = {"f": f, "g": g, "ord": order, "dims": "3", "data": data, "exp": 0.0, "upd": upd, "damp": damp, "lc": lc, "init": "default", "norm": None, "ce": None}
                                if f == "D2BP":
                                    c["structured"] = 1
                                cells.append(c)
    return cells


def cells_P(tier, flavours):
    quick = tier == "quick"
    cells = []
    for f in flavours:
        for n, idx, e in all_trees(4 if quick else 5, 2):
            g = tree_geom(n, idx, e) if f in ONE_NORM else tree_geom(n, idx, e, phys="all")
            for order in _orders(n, True):
                for data in ("positive", "complex") if f in ONE_NORM else ("complex",):
                    for damp in (0.0, 0.3):
                        cells.append({"f": f, "g": g, "ord": order, "dims": "3", "data": data, "exp": 0.0, "upd": "parallel", "damp": damp, "lc": False, "init": "default", "norm": None, "ce": None})
    return cells


def cells_M(tier):
    quick = tier == "quick"
    cells = []
    geoms1 = [tree_geom(n, idx, e) for n, idx, e in all_trees(4 if quick else 5, 2)] + [HYPER[k] for k in ("hyper3+leaves", "hyper-star", "hyper+dangling")]
    for f in ("HD1BP", "HV1BP"):
        for g in geoms1:
            for dims in ("2", "3") if f == "HV1BP" else ("2", "3", "mix"):
                for seed in range(2 if quick else 4):
                    for bias in (False, True):
                        cells.append({"f": f, "g": g, "ord": list(range(n_sites(g))), "dims": dims, "data": "positive", "seed": seed, "bias": bias})
    for n, idx, e in all_trees(4 if quick else 5, 2):
        for phys in ("all", "alt"):
            g = tree_geom(n, idx, e, phys=phys)
            for dims in ("2", "3"):  # physical dimension 2 only (sample_d2bp draws from [0, 1])
                for data in ("signed", "complex"):
                    for seed in range(2 if quick else 4):
                        for share in (0, 1):
                            cells.append({"f": "D2BP", "g": g, "ord": list(range(n)), "dims": dims, "data": data, "seed": seed, "share": share})
        # tree 'operators': only the size-2 dangling labels are sampled, the
        # size-3 ones stay open and are traced inside every marginal
        g = tree_geom(n, idx, e, phys="op")
        two = [l for l in out_labels(g) if l[0] in "kr"]
        for data in ("signed", "complex"):
            for seed in range(2 if quick else 4):
                for outs in (two, [l for l in two if l[0] == "k"]):
                    cells.append({"f": "D2BP", "g": g, "ord": list(range(n)), "dims": "3", "data": data, "seed": seed, "share": 1, "outs": outs})
    return cells


def cells_R(tier):
    quick = tier == "quick"
    cells = []

    def subsets(ground, sizes):
        return [s for k in sizes for s in itertools.combinations(range(ground), k)]

    # every ORDERED family of <= 3 distinct subsets (sizes 2..4) of a 5-set
    s5 = subsets(5, (2, 3, 4))
    for k in (1, 2, 3):
        for fam in itertools.permutations(s5, k):
            cells.append({"fam": [list(r) for r in fam]})
    # every unordered family of 4 subsets (sizes 2..3) of a 4-set / (thorough) 2..4 of a 5-set
    for fam in itertools.combinations(subsets(4, (2, 3)), 4):
        cells.append({"fam": [list(r) for r in fam]})
    if not quick:
        for fam in itertools.combinations(s5, 4):
            cells.append({"fam": [list(r) for r in fam]})
        s6 = subsets(6, (2, 3, 4))
        for fam in itertools.combinations(s6, 3):
            cells.append({"fam": [list(r) for r in fam]})
    return cells


# --------------------------------------------------------------------------- #
#                                     run                                     #
# --------------------------------------------------------------------------- #


def run(ctx):
    quick = ctx.tier == "quick"
    only = ctx.opts.get("only")
    only = set(only.split(",")) if only else {"S", "O", "P", "M", "R"}
    flavours = tuple(ctx.opts["flavour"].split(",")) if ctx.opts.get("flavour") else FLAVOURS
    ctx.rule = (
        "every cell (BP flavour, acyclic geometry, insertion order of the sites, bond dimensions, data kind, exponent, schedule options) is run on the real "
        "BP class with tol=1e-12 and read through every public entry point of the flavour (one evaluation each); oracle = explicit numpy einsum over all labels. "
        "A case is distinct by that tuple + entry point and non-trivial when the network has >= 2 sites joined by a label (at least one message exists). "
        "Region tables: every ordered family of generating regions below the bound against inclusion-exclusion on the intersection closure; non-trivial when the closure adds a region."
    )
    ctx.bounds = {
        "trees": "every unlabelled tree on <= %d nodes in O (%d trees%s), <= %d in S" % (5 if quick else 6, len(all_trees(5 if quick else 6)), " + the 6-node path" if quick else "", 5 if quick else 6),
        "insertion_orders": "ALL n! orders for n <= %d%s; identity, reversal and all rotations above" % (4 if quick else 5, "" if quick else " (n = 6 too for D1BP/HD1BP/HV1BP, undamped)"),
        "other_geometries": sorted(FORESTS) + sorted(HYPER) + ["lazy: split sites (2 tensors/site), doubled bonds", "physical labels: all / even sites / none / op (k on every site + a size-3 label on even sites + a third label on site 0)"],
        "dims": "bond dimension 2, 3 and mixed 2/3 (HV1BP: uniform only)",
        "data": ["positive", "signed", "complex", "zsum / zsum-real (one |-> leaf: a message summing to exactly zero)", "graded (bond weights 1, 1e-2, 1e-4; 2-norm flavours)"],
        "exponent": [0.0, 0.5],
        "schedule": "update {sequential, parallel} x damping {0, 0.3} x local_convergence {True, False}; init {default, seeded positive, dense, dict}; normalize {default, L1, Linf, L2}; contract_every {None, 1}",
        "bp_tol": BP_TOL,
        "max_iterations": MAXIT,
        "value_rtol": TOL,
        "regions": "ordered families of <= 3 subsets (sizes 2..4) of a 5-set; 4 subsets of a 4-set" + ("" if quick else "; 4 subsets of a 5-set; 3 subsets of a 6-set"),
    }
    ctx.assumptions += [
        "signed / complex fills are re-drawn deterministically until |Z| >= 1e-4 * sum|terms| (no near-cancellation) and, for HD1BP/HV1BP, until no exact message into a hyper or dangling label has an entry below 1e-2 of its largest (those flavours divide by messages + 1e-12 smudge)",
        "HV1BP only gets uniform dimensions (documented: 'require all dimensions to match') and update='parallel' (sequential is a documented rejection)",
        "D1BP / L1BP are not fed dangling or hyper labels, D2BP / L2BP no hyper labels (documented domains)",
        "lazy flavours get explicit site_tags or a structured TensorNetworkGenVector (DESIGN section 7)",
        "reduced density matrices are only asserted for connected sets of sites (one site, two adjacent sites): a disconnected region with boundary messages is not exact even on a tree",
        "power=1, smudge=0 for D2BP (other values change the fixed point on purpose); diis is not enumerated",
        "get_gauged_tn is not read on the zero-sum-message data with bond dimension >= 3 (degenerate eigenvectors of a rank-1 matrix with exact zeros: LAPACK may return a singular eigenvector matrix)",
        "bond labels never collide with the default bra labels 'b{}' of D2BP.partial_trace",
        "'converged' is asserted as: one further round over all messages (local_convergence switched off through its public attribute) moves no message by more than 1000 x tol; a cell that fails this is reported once and not read further",
        "damping: only the converged result is asserted (L1BP/L2BP mix damping*new + (1-damping)*old, the reverse of the documented formula; the fixed point is the same)",
    ]
    tables = []
    if "S" in only:
        tables.append(("S:flavour x tree x all orders x update x damping x local_convergence", "cell_bp", cells_S(ctx.tier, flavours)))
    if "O" in only:
        tables.append(("O:flavour x geometry x dims x data x exponent x option bundles", "cell_bp", cells_O(ctx.tier, flavours)))
    if "P" in only:
        tables.append(("P:parallel round x all orders", "cell_parallel_round", cells_P(ctx.tier, flavours)))
    if "M" in only:
        tables.append(("M:sampling omega", "cell_sample", cells_M(ctx.tier)))
    if "R" in only:
        tables.append(("R:region counts", "cell_regions", cells_R(ctx.tier)))
    if ctx.opts.get("data"):
        # development aid: restrict the BP tables to some data kinds (the run is then not the claimed enumeration)
        keep = tuple(ctx.opts["data"].split(","))
        tables = [(n, fn, [c for c in cells if str(c.get("data", "")).startswith(keep)]) for n, fn, cells in tables]
        ctx.cap("restricted to data kinds %r by --opt data=" % (keep,))
    for name, fname, cells in tables:
        t0 = ctx.elapsed()
        n_ok, n_rej, n_bad = table.run(ctx, fname, cells, name=name)
        ctx.notes.setdefault("table_wall_s", {})[name] = round(ctx.elapsed() - t0, 1)
        ctx.subproducts.append("%s: %d cells complete (%d evaluations ok, %d documented rejections, %d violating)" % (name, len(cells), n_ok, n_rej, n_bad))


def replay(case):
    return table.replay(sys.modules[__name__], case)

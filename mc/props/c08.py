"""C08 - an MPS's recorded canonical form is always true, and its consumers
are correct.  SeqExplorer threading ONE info dict through every history
(DESIGN 3/C08)."""

from __future__ import annotations

import itertools

import numpy as np

from .. import core, ref, seq
from ..alphabet import fill

TOL_ISO = 1e-8
TOL_VAL = 1e-8


class W:
    def __init__(self, psi, info, dims):
        self.psi = psi
        self.info = info
        self.dims = list(dims)  # physical dims by position
        self.vec = None  # reference dense state (numpy), same site order as psi
        self.flagged = set()  # sites whose left_inds the library set


def _dense(psi):
    return np.asarray(psi.to_dense()).reshape(-1)


def _gate1(d, k):
    return fill("unitary", (d, d), "complex128", key=("c08u1", d, k))


def _gate2(d0, d1, k, dtype):
    return fill("generic", (d0 * d1, d0 * d1), dtype, key=("c08g2", d0, d1, k))


def site_iso(psi, s):
    """(left_isometric?, right_isometric?) of site s by a numpy Gram test."""
    t = psi[s]
    L = psi.L
    out = []
    for side in ("l", "r"):
        if side == "l":
            if s == L - 1:
                keep = None
            else:
                keep = psi.bond(s, s + 1)
        else:
            if s == 0:
                keep = None
            else:
                keep = psi.bond(s - 1, s)
        other = [ix for ix in t.inds if ix != keep]
        if keep is None:
            m = np.asarray(t.to_dense(other)).reshape(-1, 1)
        else:
            m = np.asarray(t.to_dense(other, [keep]))
        out.append(ref.isometry_defect(m))
    return out


def record_range(info):
    co = info.get("cur_orthog", None)
    if co is None or co == "calc":
        return None
    if isinstance(co, (int, np.integer)):
        return (int(co), int(co))
    return (int(min(co)), int(max(co)))


SITE_ARGS = {
    "canon": (1,), "gate1": (1,), "gate2": (2, 3), "swap": (1, 2), "svals": (1,), "compress_site": (1,), "expec_canon": (1,),
    "shift": (1, 2), "auto_swap_noback": (1, 2), "gate3": (2,), "nonlocal_method": (2, 3), "submpo": (1,), "swap_to": (1, 2),
    "schmidt": (1,), "entropy": (1,), "schmidt_gap": (1,), "bipartite": (1,), "magnetization": (1,), "ptr_canon": (1,),
    "measure": (1,), "measure_seed": (1,), "measure_get_outcome": (1,), "measure_get_outcome_inplace": (1,), "gate1_nonunitary": (1,),
}


def _sites_ok(e, L):
    sites = []
    for pos in SITE_ARGS.get(e[0], ()):
        a = e[pos]
        sites.extend(a if isinstance(a, tuple) else (a,))
    if any((not isinstance(x, int)) or x < 0 or x >= L for x in sites):
        return False
    if e[0] in ("gate2", "swap", "auto_swap_noback", "nonlocal_method", "gate3", "submpo", "ptr_canon", "swap_to", "shift") and len(set(sites)) != len(sites):
        return False
    if e[0] in ("svals", "schmidt", "entropy", "schmidt_gap", "bipartite") and not (1 <= e[1] <= L - 1):
        return False
    if e[0] == "measure" and e[3] and L <= 2:
        return False  # keep at least two sites
    return True


class C08Case(seq.Case):
    rejections = (ValueError, NotImplementedError)
    step_timeout = 180

    def __init__(self, spec):
        super().__init__(spec)
        self.L = spec["L"]
        self.dims = list(spec["dims"])
        self.bond = spec["bond"]
        self.dtype = spec["dtype"]
        self.init = spec["init"]  # 'none' | 'calc' | int | (i, j)
        self.rich = spec.get("rich", True)

    # ------------------------------------------------------------------ #
    def build(self):
        import quimb.tensor as qtn

        L = self.L

        def fill_fn(shape):
            build.counter += 1
            return fill("generic", shape, self.dtype, key=("c08psi", self.L, tuple(self.dims), self.bond, build.counter))

        build = fill_fn
        build.counter = 0
        psi = qtn.MatrixProductState.from_fill_fn(fill_fn, L=L, bond_dim=self.bond, phys_dim=self.dims if len(set(self.dims)) > 1 else self.dims[0])
        psi /= np.sqrt(abs(np.vdot(_dense(psi), _dense(psi))))
        info = {}
        if self.init == "none":
            pass
        elif self.init == "calc":
            info["cur_orthog"] = "calc"
        elif isinstance(self.init, int):
            psi.canonicalize_(self.init)  # record known to the harness only
            info["cur_orthog"] = (self.init, self.init)
        else:
            i, j = self.init
            psi.left_canonicalize_(i)
            psi.right_canonicalize_(j)
            info["cur_orthog"] = (i, j)
        w = W(psi, info, self.dims)
        w.vec = _dense(psi)
        return w

    # ------------------------------------------------------------------ #
    def menu(self, w):
        L = w.psi.L
        ev = []
        for i in range(L):
            ev.append(("canon", i))
        for i, j in itertools.combinations(range(L), 2):
            ev.append(("canon", (i, j)))
        for i in range(L):
            ev.append(("gate1", i))
        for i, j in itertools.permutations(range(L), 2):
            ev.append(("gate2", "swap+split", i, j))
        for i, j in itertools.combinations(range(L), 2):
            for ab in (None, "left", "right", "both"):
                ev.append(("swap", i, j, ab))
        for i in range(1, L):
            ev.append(("svals", i))
        for i in range(L):
            ev.append(("compress_site", i))
        pairs_nl = [(0, 1), (1, 2), (0, 2), (L - 1, 1), (0, L - 1)]
        for i, j in pairs_nl:
            ev.append(("gate2", "nonlocal", i, j))
        for i in range(L - 1):
            ev.append(("expec_canon", (i, i + 1)))
        ev.append(("expec_canon", (0,)))
        ev.append(("expec_canon", (L - 1,)))
        if self.rich:
            rec = record_range(w.info)
            if rec is not None and rec[0] == rec[1]:
                for new in range(L):
                    if new != rec[0]:
                        ev.append(("shift", rec[0], new))
            ev.append(("lcanon",))
            ev.append(("rcanon",))
            ev.append(("forget",))
            for i, j in [(0, 2), (2, 0), (1, L - 1), (L - 1, 0)]:
                ev.append(("auto_swap_noback", i, j))
            ev.append(("gate2", "auto-mps", 0, 2))
            ev.append(("gate2", "auto-mps", L - 1, L - 2))
            ev.append(("gate3", "auto-mps", (0, 1, 2)))
            ev.append(("gate3", "nonlocal", (2, 0, L - 1)))
            for meth in ("dm", "zipup"):
                ev.append(("nonlocal_method", meth, 0, 2, 0))
            for sd in (0, 1, 2, 3):
                # the fit compressor starts from a random guess drawn from
                # quimb's global generator: the seed is part of the event
                ev.append(("nonlocal_method", "fit", 0, 2, sd))
            ev.append(("submpo", (0, 1), False))
            ev.append(("submpo", (1, L - 1), True))
            ev.append(("with_mpo",))
            for i, f in [(0, L - 1), (L - 1, 0), (1, 2)]:
                ev.append(("swap_to", i, f))
            for form in (None, "left", "right", 1):
                ev.append(("compress", form))
            ev.append(("left_compress",))
            ev.append(("right_compress",))
            for i in range(1, L):
                ev.append(("schmidt", i))
                ev.append(("entropy", i))
                ev.append(("schmidt_gap", i))
                ev.append(("bipartite", i))
            for i in range(L):
                for direction in ("Z", "X", "Y"):
                    ev.append(("magnetization", i, direction))
            ev.append(("ptr_canon", (1,)))
            ev.append(("ptr_canon", (0, 1)))
            ev.append(("ptr_canon", (1, L - 1)))
            # sites in the order GIVEN, not sorted
            ev.append(("ptr_canon", (1, 0)))
            ev.append(("ptr_canon", (L - 1, 1)))
            ev.append(("ptr_canon", (2, 0, 1)))
            ev.append(("expec_canon", (1, 0)))
            ev.append(("expec_canon", (L - 1, L - 2)))
            ev.append(("expec_canon", (2, 0)))
            for s in (0, L - 1):
                ev.append(("measure_get_outcome", s, 7))
                # in-place spelling: the state's centre really moves
                ev.append(("measure_get_outcome_inplace", s, 7))
            # a NON-unitary one-site operator (projector-like / imaginary time
            # step): the API cannot know, so the caller drops the record - but
            # any isometry flag on that tensor must be cleared by the library
            for i in range(L):
                ev.append(("gate1_nonunitary", i))
            ev.append(("compute_expec_canon",))
            for s in range(L):
                for oc in (0, 1):
                    ev.append(("measure", s, oc, False, True))
            ev.append(("measure", 0, 1, False, False))
            ev.append(("measure", L - 1, 0, True, True))
            ev.append(("measure", 1, 1, True, True))
            ev.append(("measure", L - 1, 1, True, False))
            ev.append(("measure_seed", 1, 5))
            ev.append(("sample_configuration", 3))
            ev.append(("sample", 2, 4))
        # the chain may have been shortened by measure(remove=True): only offer
        # events whose sites exist and are distinct
        return [e for e in dict.fromkeys(ev) if _sites_ok(e, L)]

    # ------------------------------------------------------------------ #
    def pre(self, w, e):
        return {"vec": w.vec.copy(), "dims": list(w.dims), "rec": record_range(w.info)}

    def apply(self, w, e):
        import quimb as qu
        import quimb.tensor as qtn

        psi, info = w.psi, w.info
        k = e[0]
        dims = w.dims
        # own every source of randomness: quimb's global generator is reseeded
        # before every step (fit-type compressors draw their start from it)
        qu.seed_rand(1000 + (e[4] if k == "nonlocal_method" else 0))
        L = psi.L
        obs = None
        if k == "canon":
            psi.canonicalize_(e[1], info=info)
        elif k == "shift":
            psi.shift_orthogonality_center(e[1], e[2])
            info["cur_orthog"] = (e[2], e[2])  # the caller threads the record
        elif k == "lcanon":
            psi.left_canonicalize_()
            info["cur_orthog"] = (L - 1, L - 1)
        elif k == "rcanon":
            psi.right_canonicalize_()
            info["cur_orthog"] = (0, 0)
        elif k == "forget":
            info.clear()
        elif k == "gate1":
            U = _gate1(dims[e[1]], e[1])
            psi.gate_(U, e[1], contract=True, info=info)
            w.vec = ref.apply_op(U, w.vec, dims, [e[1]])
        elif k == "gate2":
            i, j = e[2], e[3]
            G = _gate2(dims[i], dims[j], (i, j), self.dtype)
            psi.gate_(G, (i, j), contract=e[1], info=info, cutoff=0.0, max_bond=None)
            w.vec = ref.apply_op(G, w.vec, dims, [i, j])
        elif k == "gate3":
            where = e[2]
            D = int(np.prod([dims[s] for s in where]))
            G = fill("generic", (D, D), self.dtype, key=("c08g3", where))
            psi.gate_(G, where, contract=e[1], info=info, cutoff=0.0, max_bond=None)
            w.vec = ref.apply_op(G, w.vec, dims, list(where))
        elif k == "nonlocal_method":
            i, j = e[2], e[3]
            G = _gate2(dims[i], dims[j], (i, j), self.dtype)
            kw = {"cutoff": 0.0, "max_bond": None}
            if e[1] == "fit":
                kw = {"max_bond": 16, "cutoff": 0.0, "tol": 1e-14, "max_iterations": 200, "seed": 100 + e[4]}
            psi.gate_nonlocal_(G, (i, j), method=e[1], info=info, **kw)
            w.vec = ref.apply_op(G, w.vec, dims, [i, j])
        elif k == "auto_swap_noback":
            i, j = e[1], e[2]
            G = _gate2(dims[i], dims[j], (i, j), self.dtype)
            psi.gate_with_auto_swap_(G, (i, j), info=info, swap_back=False, cutoff=0.0)
            v = ref.apply_op(G, w.vec, dims, [i, j])
            # documented: site j is left adjacent to site i (moved, not moved back)
            lo, hi = min(i, j), max(i, j)
            order = list(range(L))
            order.remove(hi)
            order.insert(lo + 1, hi)
            w.vec = v.reshape(dims).transpose(order).reshape(-1)
            w.dims = [dims[o] for o in order]
        elif k == "submpo":
            where, rev = e[1], e[2]
            dd = [dims[s] for s in where]
            D = int(np.prod(dd))
            G = fill("generic", (D, D), self.dtype, key=("c08sub", where))
            mpo = qtn.MatrixProductOperator.from_dense(G, dims=dd, sites=where, L=L)
            psi.gate_with_submpo_(mpo, where=where, info=info, cutoff=0.0, max_bond=None, sweep_reverse=rev)
            w.vec = ref.apply_op(G, w.vec, dims, list(where))
        elif k == "with_mpo":
            mpo = qtn.MPO_rand(L, 2, phys_dim=2, dtype=self.dtype, seed=3) if len(set(dims)) == 1 else None
            if mpo is None:
                raise ValueError("precondition: uniform physical dimension")
            psi.gate_with_mpo_(mpo, cutoff=0.0, max_bond=None)
            w.vec = np.asarray(mpo.to_dense()) @ w.vec
            info.clear()  # the call takes no record: the caller must drop it
        elif k == "swap":
            i, j, ab = e[1], e[2], e[3]
            kw = {} if ab is None else {"absorb": ab}
            psi.swap_sites_with_compress_(i, j, info=info, cutoff=0.0, **kw)
            order = list(range(L))
            order[i], order[j] = order[j], order[i]
            w.vec = w.vec.reshape(dims).transpose(order).reshape(-1)
            w.dims = [dims[o] for o in order]
        elif k == "swap_to":
            i, f = e[1], e[2]
            psi.swap_site_to_(i, f, info=info, cutoff=0.0)
            order = list(range(L))
            order.remove(i)
            order.insert(f, i)
            w.vec = w.vec.reshape(dims).transpose(order).reshape(-1)
            w.dims = [dims[o] for o in order]
        elif k == "compress_site":
            psi.compress_site(e[1], info=info, cutoff=0.0)
        elif k == "compress":
            psi.compress(form=e[1], cutoff=0.0)
            info.clear()
        elif k == "left_compress":
            psi.left_compress(cutoff=0.0)
            info.clear()
        elif k == "right_compress":
            psi.right_compress(cutoff=0.0)
            info.clear()
        elif k == "svals":
            obs = np.asarray(psi.singular_values(e[1], info=info))
        elif k == "schmidt":
            obs = np.asarray(psi.schmidt_values(e[1], info=info))
        elif k == "entropy":
            obs = float(psi.entropy(e[1], info=info))
        elif k == "schmidt_gap":
            obs = float(psi.schmidt_gap(e[1], info=info))
        elif k == "bipartite":
            obs = np.asarray(psi.bipartite_schmidt_state(e[1], get="ket-dense", info=info)).reshape(-1)
        elif k == "magnetization":
            if dims[e[1]] != 2:
                raise ValueError("precondition: spin-1/2 site")
            obs = complex(psi.magnetization(e[1], direction=e[2], info=info))
        elif k == "expec_canon":
            where = e[1]
            D = int(np.prod([dims[s] for s in where]))
            G = fill("generic", (D, D), "complex128", key=("c08ex", where))
            obs = complex(psi.local_expectation_canonical(G, where, info=info))
        elif k == "compute_expec_canon":
            terms = {}
            for i in range(L - 1):
                D = dims[i] * dims[i + 1]
                terms[(i, i + 1)] = fill("generic", (D, D), "complex128", key=("c08ex", (i, i + 1)))
            terms[(0,)] = fill("generic", (dims[0], dims[0]), "complex128", key=("c08ex", (0,)))
            r = psi.compute_local_expectation_canonical(terms, return_all=True, info=info)
            obs = {kk: complex(v[0]) / complex(v[1]) if isinstance(v, tuple) else complex(v) for kk, v in r.items()}
        elif k == "ptr_canon":
            obs = np.asarray(psi.partial_trace_to_dense_canonical(e[1], info=info))
        elif k == "measure":
            s, oc, remove, renorm = e[1], e[2], e[3], e[4]
            p0 = np.take(w.vec.reshape(dims), oc, axis=s)
            if np.vdot(p0, p0).real < 1e-6 * np.vdot(w.vec, w.vec).real:
                raise ValueError("precondition: requested outcome has (almost) zero probability")
            out, _ = psi.measure_(s, outcome=oc, remove=remove, renorm=renorm, info=info)
            v = w.vec.reshape(dims)
            proj = np.take(v, oc, axis=s)
            p = float(np.vdot(proj, proj).real / np.vdot(w.vec, w.vec).real)
            if remove:
                newv = proj.reshape(-1)
                w.dims = dims[:s] + dims[s + 1 :]
            else:
                z = np.zeros_like(v)
                idx = [slice(None)] * len(dims)
                idx[s] = oc
                z[tuple(idx)] = proj
                newv = z.reshape(-1)
            if renorm:
                newv = newv / np.sqrt(p)
            w.vec = newv
            obs = (int(out), p)
        elif k == "measure_get_outcome":
            # plain (non in-place) spelling that only returns an outcome: the
            # state is untouched, so the record must keep describing it
            out = psi.measure(e[1], get="outcome", seed=e[2], info=info)
            p0 = np.take(w.vec.reshape(dims), int(out), axis=e[1])
            obs = (int(out), float(np.vdot(p0, p0).real / np.vdot(w.vec, w.vec).real))
        elif k == "measure_get_outcome_inplace":
            out = psi.measure_(e[1], get="outcome", seed=e[2], info=info)
            p0 = np.take(w.vec.reshape(dims), int(out), axis=e[1])
            obs = (int(out), float(np.vdot(p0, p0).real / np.vdot(w.vec, w.vec).real))
        elif k == "gate1_nonunitary":
            G = fill("generic", (dims[e[1]], dims[e[1]]), self.dtype, key=("c08nu", dims[e[1]], e[1]))
            psi.gate_(G, e[1], contract=True, info=info)
            w.vec = ref.apply_op(G, w.vec, dims, [e[1]])
            info.clear()  # the caller must drop the record after a non-unitary gate
        elif k == "measure_seed":
            s, sd = e[1], e[2]
            out, _ = psi.measure_(s, seed=sd, info=info)
            v = w.vec.reshape(dims)
            proj = np.take(v, out, axis=s)
            p = float(np.vdot(proj, proj).real / np.vdot(w.vec, w.vec).real)
            z = np.zeros_like(v)
            idx = [slice(None)] * len(dims)
            idx[s] = out
            z[tuple(idx)] = proj
            w.vec = z.reshape(-1) / np.sqrt(p)
            obs = (int(out), p)
        elif k == "sample_configuration":
            config, omega = psi.sample_configuration(seed=e[1], info=info)
            obs = (tuple(int(c) for c in config), float(omega))
        elif k == "sample":
            obs = [(tuple(int(c) for c in cfg), float(om)) for cfg, om in psi.sample(e[1], seed=e[2], info=info)]
        else:
            raise core.HarnessError("unknown event %r" % (e,))
        return obs

    # ------------------------------------------------------------------ #
    def _root(self, e, pre, w):
        """Root cause from the pre-state and the event, not from the failure."""
        k = e[0]
        rec = pre["rec"] if pre else None
        if k == "nonlocal_method" and e[1] == "fit":
            return "submpo-fit-record"
        if k == "swap":
            i, j, ab = sorted((e[1], e[2])) + [e[3]]
            if j == i + 1 and ab in (None, "both"):
                return "adjacent-swap-absorb-both"
            if j != i + 1 and ab == "both":
                return "adjacent-swap-absorb-both"
        return "none"

    def check(self, w, e, obs, pre):
        psi, info = w.psi, w.info
        probs = []
        root = self._root(e, pre, w) if e[0] != "init" else "none"
        L = psi.L
        # structural: still an MPS with L sites
        try:
            defects = [site_iso(psi, s) for s in range(L)]
        except Exception as ex:
            return [core.problem("after %r the MPS structure is broken: %s %s" % (e, type(ex).__name__, str(ex)[:100]), root=root, event=e[0], kind="structure")]
        rec = record_range(info)
        if rec is not None:
            lo, hi = rec
            if lo < 0 or hi > L - 1:
                probs.append(core.problem("after %r record %r is outside the chain of length %d" % (e, rec, L), root=root, event=e[0], kind="record-out-of-range"))
            for s in range(L):
                if s < lo and defects[s][0] > TOL_ISO:
                    probs.append(core.problem("after %r record %r but site %d is not a left isometry (defect %.2e)" % (e, rec, s, defects[s][0]), root=root, event=e[0], kind="record-unsound"))
                    break
                if s > hi and defects[s][1] > TOL_ISO:
                    probs.append(core.problem("after %r record %r but site %d is not a right isometry (defect %.2e)" % (e, rec, s, defects[s][1]), root=root, event=e[0], kind="record-unsound"))
                    break
        for s in range(L):
            t = psi[s]
            if t.left_inds is not None:
                other = [ix for ix in t.inds if ix not in t.left_inds]
                m = np.asarray(t.to_dense(t.left_inds, other))
                if ref.isometry_defect(m) > TOL_ISO:
                    probs.append(core.problem("after %r site %d is flagged left_inds=%r but is not isometric" % (e, s, t.left_inds), root=root, event=e[0], kind="flag-unsound"))
        # dense state agrees with the reference
        try:
            got = _dense(psi)
        except Exception as ex:
            return probs + [core.problem("after %r to_dense failed: %s" % (e, ex), root=root, event=e[0], kind="structure")]
        tol = 1e-6 if e[0] == "nonlocal_method" and e[1] == "fit" else TOL_VAL
        if got.shape != w.vec.shape or ref.relerr(got, w.vec) > tol:
            probs.append(core.problem("after %r dense state differs from the reference (relerr %.2e)" % (e, ref.relerr(got, w.vec) if got.shape == w.vec.shape else float("inf")), root=root, event=e[0], kind="state"))
        if obs is not None and pre is not None:
            p = self._check_obs(e, obs, pre, w)
            if p:
                probs.append(core.problem("%r returned %s" % (e, p), root=root, event=e[0], kind="value"))
        return probs

    def _check_obs(self, e, obs, pre, w):
        k = e[0]
        v, dims = pre["vec"], pre["dims"]
        nrm2 = float(np.vdot(v, v).real)
        if k in ("svals", "schmidt", "entropy", "schmidt_gap", "bipartite"):
            i = e[1]
            dl = int(np.prod(dims[:i]))
            sv = np.linalg.svd(v.reshape(dl, -1), compute_uv=False)
            if k == "svals":
                got = np.sort(np.asarray(obs))[::-1]
                want = np.concatenate([sv, np.zeros(max(0, len(got) - len(sv)))])[: len(got)]
                if len(got) < np.sum(sv > 1e-9 * sv[0]) or not np.allclose(got, want, atol=1e-8):
                    return "singular values %r, dense state gives %r" % (got, sv)
            elif k == "schmidt":
                got = np.sort(np.asarray(obs))[::-1]
                want = np.concatenate([sv**2, np.zeros(max(0, len(got) - len(sv)))])[: len(got)]
                if not np.allclose(got, want, atol=1e-8):
                    return "schmidt values %r, dense state gives %r" % (got, sv**2)
            elif k == "entropy":
                p = sv**2 / np.sum(sv**2)
                want = ref.entropy_vn(p)
                # library convention: entropy of the (unnormalised) squared singular values
                p2 = sv**2
                p2 = p2[p2 > 0]
                want_raw = float(-np.sum(p2 * np.log2(p2)))
                if abs(obs - want_raw) > 1e-7 and abs(obs - want) > 1e-7:
                    return "entropy %r, dense state gives %r" % (obs, want)
            elif k == "schmidt_gap":
                p = sv**2
                want = float(p[0] - (p[1] if len(p) > 1 else 0.0))
                if abs(obs - want) > 1e-7:
                    return "schmidt gap %r, dense state gives %r" % (obs, want)
            elif k == "bipartite":
                # state of the two 'Schmidt' registers: singular values on the diagonal
                got = np.sort(np.abs(np.asarray(obs)))[::-1]
                n = min(len(sv), len(got))
                if not np.allclose(got[:n], sv[:n], atol=1e-8) or np.any(got[n:] > 1e-8):
                    return "bipartite schmidt state amplitudes %r, dense singular values %r" % (got[:6], sv)
        elif k == "magnetization":
            Z = {"Z": np.diag([0.5, -0.5]), "X": np.array([[0, 0.5], [0.5, 0]]), "Y": np.array([[0, -0.5j], [0.5j, 0]])}[e[2]]
            # the library returns the plain <psi|S|psi> (no division by the norm)
            want = np.vdot(v, ref.apply_op(Z, v, dims, [e[1]]))
            if abs(obs - want) > 1e-8 * max(1.0, abs(want)):
                return "magnetization %r, dense state gives %r" % (obs, want)
        elif k == "expec_canon":
            where = e[1]
            D = int(np.prod([dims[s] for s in where]))
            G = fill("generic", (D, D), "complex128", key=("c08ex", where))
            want = np.vdot(v, ref.apply_op(G, v, dims, list(where))) / nrm2
            if abs(obs - want) > 1e-8 * max(1, abs(want)):
                return "local_expectation_canonical %r, dense state gives %r" % (obs, want)
        elif k == "compute_expec_canon":
            for where, got in obs.items():
                D = int(np.prod([dims[s] for s in where]))
                G = fill("generic", (D, D), "complex128", key=("c08ex", tuple(where)))
                want = np.vdot(v, ref.apply_op(G, v, dims, list(where))) / nrm2
                if abs(got - want) > 1e-8 * max(1, abs(want)):
                    return "compute_local_expectation_canonical[%r] = %r, dense state gives %r" % (where, got, want)
        elif k == "ptr_canon":
            want = ref.ptrace(v, dims, list(e[1])) / nrm2
            if obs.shape != want.shape or ref.relerr(obs, want) > 1e-8:
                return "reduced density matrix differs from the dense partial trace (relerr %.2e)" % (ref.relerr(obs, want) if obs.shape == want.shape else float("inf"))
        elif k in ("measure", "measure_seed", "measure_get_outcome", "measure_get_outcome_inplace"):
            out, p = obs
            if k == "measure" and out != e[2]:
                return "outcome %r but %r was requested" % (out, e[2])
            if p < 1e-12:
                return "an outcome of probability %g" % p
        elif k == "sample_configuration":
            cfg, omega = obs
            amp = v.reshape(dims)[cfg]
            want = abs(amp) ** 2 / nrm2
            if want < 1e-14 or abs(omega - want) > 1e-8:
                return "configuration %r with probability %r, dense state gives %r" % (cfg, omega, want)
        elif k == "sample":
            for cfg, omega in obs:
                amp = v.reshape(dims)[cfg]
                want = abs(amp) ** 2 / nrm2
                if want < 1e-14 or abs(omega - want) > 1e-8:
                    return "sample %r with probability %r, dense state gives %r" % (cfg, omega, want)
        return None

    def unexpected(self, w, e, exc):
        return [core.problem("%r raised %s: %s" % (e, type(exc).__name__, str(exc)[:160]), root="none", event=e[0], kind="exception:" + type(exc).__name__)]

    def canon(self, w):
        psi = w.psi
        L = psi.L
        pat = tuple((d[0] < TOL_ISO, d[1] < TOL_ISO) for d in (site_iso(psi, s) for s in range(L)))
        nrm = float(np.vdot(w.vec, w.vec).real)
        return core.digest((L, tuple(w.dims), str(record_range(w.info)), "cur_orthog" in w.info, pat, tuple(psi.bond_sizes()), tuple(t.left_inds is not None for t in psi), abs(nrm - 1) < 1e-9, tuple(sorted(k for k in w.info if k != "cur_orthog"))))

    def nontrivial(self, w, e, obs):
        return record_range(w.info) is not None

    def outcome(self, w, e, obs):
        return "%s:%s" % (e[0], record_range(w.info))


def make_case(spec):
    return C08Case(spec)


def specs(tier):
    base = {"L": 4, "dims": (2, 2, 2, 2), "bond": 3, "dtype": "complex128", "init": "none", "rich": True}
    out = []
    if tier == "quick":
        out.append((dict(base), 2))
        out.append((dict(base, init=1), 2))
        out.append((dict(base, dims=(2, 3, 2, 2), dtype="float64", init=(1, 2)), 2))
        out.append(({"L": 3, "dims": (2, 2, 2), "bond": 2, "dtype": "complex128", "init": 2, "rich": False}, 3))
    else:
        out.append((dict(base), 3))
        out.append((dict(base, init=1), 3))
        out.append((dict(base, dims=(2, 3, 2, 2), dtype="float64", init=(1, 2)), 3))
        out.append(({"L": 5, "dims": (2, 2, 2, 2, 2), "bond": 3, "dtype": "complex128", "init": "calc", "rich": False}, 3))
        out.append(({"L": 5, "dims": (2, 2, 3, 2, 2), "bond": 2, "dtype": "complex128", "init": 4, "rich": True}, 3))
        out.append(({"L": 3, "dims": (2, 2, 2), "bond": 2, "dtype": "complex128", "init": 2, "rich": False}, 4))
    return out


def run(ctx):
    ctx.rule = (
        "BFS over histories of MPS events (canonicalize every site/pair, shift, one-site unitary and two/three-site generic gates in every MPS mode, "
        "swaps with every absorb option, sub-MPO/MPO application, compress-site/compress, canonical-form queries, measurement, sampling) threading one info dict; "
        "distinct by (record, per-site left/right isometry pattern, left_inds flags, bond sizes, physical dims by position, normalised?); non-trivial when a record is present; "
        "oracle after every transition: record soundness by numpy Gram tests, flagged tensors isometric, dense state = numpy reference, returned values = dense definitions"
    )
    ctx.assumptions += [
        "one-site gates are unitary (a non-unitary one-site gate legitimately breaks isometry and the API cannot know)",
        "the futures of the record logic depend only on the fields of the canonical key; the dense state is carried alongside for the value oracles",
        "operations that take no record (compress, gate_with_mpo) are followed by the caller dropping the record",
    ]
    sp = specs(ctx.tier)
    ctx.bounds = {"specs": [dict(s, depth=d) for s, d in sp]}
    for i, (spec, depth) in enumerate(sp):
        if "only" in ctx.opts and int(ctx.opts["only"]) != i:
            continue
        depth = int(ctx.opts.get("depth", depth))
        seq.explore(ctx, spec, depth, label="L%d-%s-%s-%s" % (spec["L"], "x".join(map(str, spec["dims"])), spec["init"], "rich" if spec["rich"] else "core"))


def replay(case):
    return seq.replay(__name__, case)

"""C02 - network index/tag/ownership maps stay exact under any mutation
history.  SeqExplorer over a world of named tensors and named networks
(DESIGN.md section 3, C02) + an exhaustive sub-model of quimb.utils.oset.
"""

from __future__ import annotations

import collections
import gc
import itertools
import pickle

import numpy as np

from .. import core, seq
from ..alphabet import fill
from ..qhelp import Renamer, scan_network

DIM = {"a": 2, "b": 2, "c": 2, "d": 2, "e": 1, "z": 2, "y": 2}
NEWTAG = "Q"


def _mk(inds, tags, key):
    import quimb.tensor as qtn

    shape = [DIM.get(i, 2) for i in inds]
    return qtn.Tensor(fill("generic", shape, "float64", key=("c02", key)), inds, tags)


class World:
    def __init__(self):
        self.ts = {}
        self.tns = {}
        self.dead = []  # names of dropped networks (for reporting only)

    def newname(self):
        i = 0
        while "M%d" % i in self.tns or "M%d" % i in self.dead:
            i += 1
        return "M%d" % i


def _init(recipe):
    import quimb.tensor as qtn

    TN = qtn.TensorNetwork
    w = World()
    if recipe in ("W1", "W2"):
        w.ts["X"] = _mk(("a", "b"), ["T0", "G"], "X")
        w.ts["Y"] = _mk(("b", "c"), ["T1", "G"], "Y")
        w.tns["N0"] = TN([w.ts["X"], w.ts["Y"]], virtual=True)
        if recipe == "W2":
            w.ts["Z"] = _mk(("c", "d"), ["T2"], "Z")
            w.tns["V"] = w.tns["N0"].select("G", virtual=True)
            w.tns["N1"] = TN([w.ts["Y"], w.ts["Z"]], virtual=True)
    elif recipe == "W3":
        w.ts["R"] = _mk(("a", "a"), ["T3"], "R")
        w.ts["X"] = _mk(("a", "b"), ["T0", "G"], "X")
        w.ts["S"] = _mk((), ["T4"], "S")
        w.tns["N0"] = TN([w.ts["R"], w.ts["X"], w.ts["S"]], virtual=True)
    elif recipe == "W4":
        # two networks whose INNER labels coincide (collision path) and which
        # also share an outer label
        w.ts["X"] = _mk(("a", "b"), ["T0", "G"], "X")
        w.ts["Y"] = _mk(("b", "c"), ["T1", "G"], "Y")
        w.ts["P"] = _mk(("d", "b"), ["T2", "H"], "P")
        w.ts["Qq"] = _mk(("b", "c"), ["T3", "H"], "Qq")
        w.tns["N0"] = TN([w.ts["X"], w.ts["Y"]], virtual=True)
        w.tns["N1"] = TN([w.ts["P"], w.ts["Qq"]], virtual=True)
    elif recipe == "W5":
        # hyper label on three tensors + a size-1 label + multibond
        w.ts["X"] = _mk(("a", "b", "e"), ["T0", "G"], "X")
        w.ts["Y"] = _mk(("b", "c", "a"), ["T1", "G"], "Y")
        w.ts["Z"] = _mk(("b", "d"), ["T2"], "Z")
        w.tns["N0"] = TN([w.ts["X"], w.ts["Y"], w.ts["Z"]], virtual=True)
    else:
        raise KeyError(recipe)
    return w


# --------------------------------------------------------------------------- #
#                                fresh scans                                  #
# --------------------------------------------------------------------------- #


def _all_tensor_objects(w):
    """id -> (tensor, [(netname, tid), ...]) over handles and networks."""
    objs = {}
    for n in sorted(w.ts):
        t = w.ts[n]
        objs.setdefault(id(t), (t, []))
    for n in sorted(w.tns):
        for tid, t in w.tns[n].tensor_map.items():
            objs.setdefault(id(t), (t, []))[1].append((n, tid))
    return objs


def _roots(w):
    """Structural facts about a world used as ROOT-CAUSE classification of a
    violation (computed from the state, not from the failure)."""
    r = set()
    for t, holders in _all_tensor_objects(w).values():
        if len(set(t.inds)) != len(t.inds):
            r.add("repeated-label")
        per = collections.Counter(n for n, _ in holders)
        if any(c > 1 for c in per.values()):
            r.add("tensor-held-twice")
    return r


def _slot_partition(tn_tensors):
    """tn_tensors: list of (key, inds) -> partition of slots by label."""
    part = collections.defaultdict(set)
    for key, inds in tn_tensors:
        for ax, ix in enumerate(inds):
            part[ix].add((key, ax))
    return part


def check_world(w):
    probs = []
    objs = _all_tensor_objects(w)
    for name in sorted(w.tns):
        tn = w.tns[name]
        im, tm, cnt = scan_network(tn)
        got_im = {k: set(v) for k, v in tn.ind_map.items()}
        got_tm = {k: set(v) for k, v in tn.tag_map.items()}
        if got_im != im:
            probs.append(("ind_map", "%s: ind_map %r != scan %r" % (name, got_im, im)))
        if got_tm != tm:
            probs.append(("tag_map", "%s: tag_map %r != scan %r" % (name, got_tm, tm)))
        inner = {i for i, c in cnt.items() if c >= 2}
        outer = {i for i, c in cnt.items() if c == 1}
        if set(tn._inner_inds) != inner:
            probs.append(("inner", "%s: _inner_inds %r != scan %r" % (name, sorted(tn._inner_inds), sorted(inner))))
        if set(tn._outer_inds) != outer:
            probs.append(("outer", "%s: _outer_inds %r != scan %r" % (name, sorted(tn._outer_inds), sorted(outer))))
        try:
            if set(tn.inner_inds()) != inner or set(tn.outer_inds()) != outer:
                probs.append(("inner-outer-api", "%s: inner_inds()/outer_inds() %r/%r != scan %r/%r" % (name, tn.inner_inds(), tn.outer_inds(), sorted(inner), sorted(outer))))
        except Exception as ex:
            probs.append(("inner-outer-api", "%s: inner_inds()/outer_inds() raised %r" % (name, ex)))
        for ix, tids in im.items():
            if len({tn.tensor_map[t].ind_size(ix) for t in tids}) != 1:
                probs.append(("size", "%s: label %s has inconsistent sizes" % (name, ix)))
        if not probs:
            try:
                tn.check()
            except Exception as ex:
                probs.append(("check", "%s: tn.check() raised %s" % (name, str(ex)[:150])))
        # selection agrees with the scan
        if not probs:
            tags = sorted(tm)
            try:
                for tg in tags:
                    got = {id(t) for t in tn.select_tensors(tg, "any")}
                    want = {id(tn.tensor_map[t]) for t in tm[tg]}
                    if got != want:
                        probs.append(("select", "%s: select_tensors(%s) wrong" % (name, tg)))
                    if len(tm[tg]) == 1 and id(tn[tg]) not in want:
                        probs.append(("select", "%s: tn[%s] wrong" % (name, tg)))
                for t1, t2 in itertools.combinations(tags[:4], 2):
                    for which, want_tids in (
                        ("all", tm[t1] & tm[t2]),
                        ("any", tm[t1] | tm[t2]),
                        ("!all", set(tn.tensor_map) - (tm[t1] & tm[t2])),
                        ("!any", set(tn.tensor_map) - (tm[t1] | tm[t2])),
                    ):
                        got = set(tn._get_tids_from_tags((t1, t2), which))
                        if got != want_tids:
                            probs.append(("select", "%s: tags (%s,%s) which=%s gives %r want %r" % (name, t1, t2, which, got, want_tids)))
                for ix in sorted(im):
                    got = set(tn._get_tids_from_inds((ix,), "any"))
                    if got != im[ix]:
                        probs.append(("select", "%s: _get_tids_from_inds(%s) wrong" % (name, ix)))
            except Exception as ex:
                probs.append(("select", "%s: selection raised %s %s" % (name, type(ex).__name__, str(ex)[:100])))
    # owners: every tensor notifies exactly the live networks that hold it
    nets_by_id = {id(tn): n for n, tn in w.tns.items()}
    for t, holders in objs.values():
        live = set()
        for ref, tid in list(t._owners.values()):
            o = ref()
            if o is None:
                continue
            live.add((nets_by_id.get(id(o), "<network outside world %x>" % id(o)), tid))
        want = set(holders)
        if live != want:
            probs.append(("owners", "tensor %r%r: owners %r != holders %r" % (t.inds, tuple(sorted(t.tags)), sorted(live, key=repr), sorted(want, key=repr))))
    return probs


# --------------------------------------------------------------------------- #
#                                   events                                    #
# --------------------------------------------------------------------------- #


def _net_tensor_ref(w, n, tid):
    return w.tns[n].tensor_map[tid]


def menu(w, rich):
    ev = []
    names = sorted(w.tns)
    for n in names:
        tn = w.tns[n]
        tids = sorted(tn.tensor_map)
        tags = sorted(tn.tag_map)
        inds = sorted(tn.ind_map)
        for tid in tids[:4]:
            ev.append(("pop", n, tid))
        for tg in tags[:3]:
            ev.append(("retag_tn", n, tg, NEWTAG))
            ev.append(("delete", n, tg))
        if len(tags) >= 2:
            ev.append(("retag_tn", n, tags[0], tags[1]))
        for ix in inds[:4]:
            ev.append(("reindex_tn", n, ix, "z"))
        if len(inds) >= 2:
            for i0, i1 in ((inds[0], inds[1]), (inds[1], inds[0])):
                if tn.ind_size(i0) == tn.ind_size(i1):
                    ev.append(("reindex_tn", n, i0, i1))
        for tname in sorted(w.ts):
            ev.append(("add_virtual", n, tname))
            ev.append(("add_copy", n, tname))
        ev.append(("make_norm", n, "*"))
        ev.append(("make_norm", n, None))
        ev.append(("copy", n))
        ev.append(("vcopy", n))
        ev.append(("pickle", n))
        if tags:
            ev.append(("select", n, tags[0], True))
            ev.append(("partition_inplace", n, tags[0]))
        ev.append(("drop", n))
        if rich:
            for tid in tids[:3]:
                t = tn.tensor_map[tid]
                if t.inds:
                    ev.append(("nt_reindex", n, tid, t.inds[0], "y"))
                ev.append(("nt_add_tag", n, tid, NEWTAG))
                if len(t.inds) >= 2:
                    ev.append(("nt_transpose", n, tid))
                    ev.append(("nt_fuse", n, tid))
                if t.tags:
                    ev.append(("nt_retag", n, tid, sorted(t.tags)[0], NEWTAG))
            for tg in tags[:2]:
                ev.append(("popitem_tags", n, tg))
                ev.append(("delitem", n, tg))
                ev.append(("setitem", n, tg))
                ev.append(("select", n, tg, False))
                ev.append(("partition", n, tg))
                ev.append(("partition_tensors_inplace", n, tg))
                ev.append(("drop_tags_tn", n, tg))
                ev.append(("contract_tags", n, tg))
                ev.append(("split_tensor", n, tg))
                ev.append(("convert_tag_isel", n, tg))
            ev.append(("add_tag_tn", n))
            ev.append(("deepcopy", n))
            ev.append(("remove_all", n))
            ev.append(("consecutive", n))
            ev.append(("mangle_inner", n))
            ev.append(("fuse_multibonds", n))
            ev.append(("squeeze", n))
            ev.append(("view_as", n))
            ev.append(("convert_to_zero", n))
            for ix in inds[:3]:
                ev.append(("contract_ind", n, ix))
                ev.append(("isel", n, ix))
                ev.append(("sum_reduce", n, ix))
                ev.append(("gate_inds", n, ix, False))
                ev.append(("gate_inds", n, ix, True))
                ev.append(("cut_bond", n, ix))
            if len(tags) >= 2:
                ev.append(("contract_between", n, tags[0], tags[1]))
                ev.append(("new_bond", n, tags[0], tags[1]))
                ev.append(("insert_operator", n, tags[0], tags[1]))
            if len(inds) >= 2:
                ev.append(("gate_inds_split", n, inds[0], inds[1]))
                ev.append(("gate_inds_with_tn", n, inds[0]))
            ev.append(("replace_with_identity", n, tags[0]) if tags else ("remove_all", n))
    for tname in sorted(w.ts):
        t = w.ts[tname]
        uniq = sorted(set(t.inds))
        for ix in uniq[:2]:
            ev.append(("reindex_t", tname, ix, "z"))
        if len(uniq) >= 1:
            others = [o for o in ("a", "b", "c") if o != uniq[0] and DIM[o] == t.ind_size(uniq[0])]
            if others:
                ev.append(("reindex_t", tname, uniq[0], others[0]))
        for tg in sorted(t.tags)[:2]:
            ev.append(("retag_t", tname, tg, NEWTAG))
        ev.append(("add_tag_t", tname, "G"))
        ev.append(("drop_tags_t", tname))
        if len(t.inds) >= 2:
            ev.append(("transpose_t", tname))
        if rich:
            ev.append(("modify_tags_t", tname))
            if len(t.inds) >= 2:
                ev.append(("modify_inds_perm_t", tname))
                ev.append(("modify_inds_rename_t", tname))
                ev.append(("fuse_t", tname))
            if len(t.inds) >= 1:
                ev.append(("isel_t", tname))
                ev.append(("sum_reduce_t", tname))
            ev.append(("new_ind_t", tname))
            ev.append(("squeeze_t", tname))
            ev.append(("collapse_repeated_t", tname))
            if len(t.inds) >= 1:
                ev.append(("expand_ind_t", tname))
    for a in names:
        ev.append(("make_overlap", a, a))
    for a, b in itertools.permutations(names, 2):
        ev.append(("combine_and", a, b))
        ev.append(("combine_or", a, b))
        ev.append(("ior", a, b))
        ev.append(("combine", a, b, True))
        ev.append(("make_overlap", a, b))
        if rich:
            ev.append(("combine", a, b, False))
            ev.append(("tn_from_list", a, b))
            ev.append(("iand", a, b))
            ev.append(("add_tn", a, b, True, False))
            ev.append(("add_tn", a, b, False, False))
    if rich:
        tnames = sorted(w.ts)
        if len(tnames) >= 2:
            ev.append(("t_new_bond", tnames[0], tnames[1]))
            ev.append(("t_and", tnames[0], tnames[1]))
    return ev


class Precondition(ValueError):
    """Menu precondition not met in this state (not a library rejection)."""


def _size_ok(w, new, size, skip=None):
    """A rename/creation of label ``new`` with ``size`` is only offered when
    every other occurrence of ``new`` in the world has that size."""
    for t, _ in _all_tensor_objects(w).values():
        if t is skip:
            continue
        if new in t.inds and t.ind_size(new) != size:
            raise Precondition("label %s exists with another size" % new)


def _unshared(w, t, ix):
    for o, _ in _all_tensor_objects(w).values():
        if o is not t and ix in o.inds:
            raise Precondition("label %s is shared" % ix)


def _exclusive_labels(w, n):
    """Operations that change the SIZE of labels in place are only meaningful
    on a network none of whose labels is shared with a tensor outside it
    (else the outside holder keeps the old size: a misuse of a virtual view,
    not a bookkeeping defect)."""
    tn = w.tns[n]
    mine = {id(t) for t in tn.tensor_map.values()}
    labels = set(tn.ind_map)
    for t, _ in _all_tensor_objects(w).values():
        if id(t) not in mine and labels & set(t.inds):
            raise Precondition("labels shared with tensors outside the network")


def _sizes_agree(tn, inds_sizes):
    """Adding tensors whose labels exist in the network with another size is a
    user error: not offered."""
    for ix, sz in inds_sizes:
        if ix in tn.ind_map and tn.ind_size(ix) != sz:
            raise Precondition("label %s has another size in the receiving network" % ix)


def _tn_sizes(tn):
    return [(ix, tn.ind_size(ix)) for ix in tn.ind_map]


COMBINE = {"combine_and", "combine_or", "ior", "iand", "add_tn", "combine", "tn_from_list", "make_norm", "make_overlap"}
NEWNET = {"combine_and", "combine_or", "combine", "tn_from_list", "make_norm", "make_overlap"}
# events that only LINK tensors into (new or existing) networks or copy
# networks: the known repeated-label defect lives in the unlink / re-label
# paths, so a wrong map after one of these is never attributed to it
# (make_norm / make_overlap re-label a conjugated copy internally: not here)
LINK_ONLY = {"init", "add_virtual", "add_copy", "copy", "vcopy", "deepcopy", "pickle", "select", "combine_and", "combine_or", "combine", "tn_from_list", "ior", "iand", "add_tn", "t_and", "view_as", "add_tag_tn", "add_tag_t", "nt_add_tag"}


def apply(w, e):
    import quimb.tensor as qtn

    k = e[0]
    T = w.tns
    if k == "pop":
        T[e[1]].pop_tensor(e[2])
    elif k == "popitem_tags":
        T[e[1]].pop_tensor(e[2])
    elif k == "retag_tn":
        T[e[1]].retag_({e[2]: e[3]})
    elif k == "delete":
        T[e[1]].delete(e[2])
    elif k == "delitem":
        del T[e[1]][e[2]]
    elif k == "setitem":
        old = T[e[1]][e[2]]
        if not isinstance(old, qtn.Tensor):
            raise KeyError("not unique")
        new = qtn.Tensor(np.asarray(old.data) * 2.0, old.inds, tags=("T9",) + tuple(old.tags)[:1])
        T[e[1]][e[2]] = new
    elif k == "reindex_tn":
        _size_ok(w, e[3], T[e[1]].ind_size(e[2]))
        T[e[1]].reindex_({e[2]: e[3]})
    elif k == "add_virtual":
        _sizes_agree(T[e[1]], zip(w.ts[e[2]].inds, w.ts[e[2]].shape))
        T[e[1]].add_tensor(w.ts[e[2]], virtual=True)
    elif k == "add_copy":
        _sizes_agree(T[e[1]], zip(w.ts[e[2]].inds, w.ts[e[2]].shape))
        T[e[1]].add_tensor(w.ts[e[2]], virtual=False)
    elif k == "copy":
        T[w.newname()] = T[e[1]].copy()
    elif k == "vcopy":
        T[w.newname()] = T[e[1]].copy(virtual=True)
    elif k == "deepcopy":
        T[w.newname()] = T[e[1]].copy(deep=True)
    elif k == "pickle":
        T[w.newname()] = pickle.loads(pickle.dumps(T[e[1]]))
    elif k == "select":
        T[w.newname()] = T[e[1]].select(e[2], virtual=e[3])
    elif k == "partition_inplace":
        _, t2 = T[e[1]].partition(e[2], inplace=True)
        T[w.newname()] = t2
    elif k == "partition":
        t1, t2 = T[e[1]].partition(e[2], inplace=False)
        T[w.newname()] = t1
        T[w.newname()] = t2
    elif k == "partition_tensors_inplace":
        _, ts = T[e[1]].partition_tensors(e[2], inplace=True)
        for i, t in enumerate(ts[:1]):
            w.ts["K%d" % len(w.ts)] = t
    elif k == "drop":
        del T[e[1]]
        w.dead.append(e[1])
        gc.collect()
    elif k == "drop_tags_tn":
        T[e[1]].drop_tags(e[2])
    elif k == "add_tag_tn":
        T[e[1]].add_tag(NEWTAG)
    elif k == "remove_all":
        T[e[1]].remove_all_tensors()
    elif k == "consecutive":
        T[e[1]].make_tids_consecutive()
    elif k == "mangle_inner":
        T[e[1]].mangle_inner_()
    elif k == "fuse_multibonds":
        _exclusive_labels(w, e[1])
        T[e[1]].fuse_multibonds_()
    elif k == "squeeze":
        T[e[1]].squeeze_()
    elif k == "view_as":
        T[e[1]].view_as_(qtn.TensorNetworkGen, sites=(0,), site_tag_id="T{}")
    elif k == "convert_to_zero":
        # shrinks the network's inner bonds to size 1 in place: only meaningful
        # when no tensor outside this network shares one of its labels
        mine = {id(t) for t in T[e[1]].tensor_map.values()}
        labels = set(T[e[1]].ind_map)
        for t, _ in _all_tensor_objects(w).values():
            if id(t) not in mine and labels & set(t.inds):
                raise Precondition("labels shared with tensors outside the network")
        T[e[1]].convert_to_zero()
    elif k == "contract_tags":
        T[e[1]].contract_tags_(e[2], which="any")
    elif k == "split_tensor":
        t = T[e[1]][e[2]]
        if not isinstance(t, qtn.Tensor) or len(t.inds) < 2:
            raise ValueError("need a unique tensor of rank >= 2")
        T[e[1]].split_tensor(e[2], left_inds=t.inds[:1], cutoff=0.0)
    elif k == "convert_tag_isel":
        # replace a tensor by its slice through the public setitem route
        t = T[e[1]][e[2]]
        if not isinstance(t, qtn.Tensor) or not t.inds:
            raise ValueError("need a unique tensor with a label")
        T[e[1]][e[2]] = t.isel({t.inds[0]: 0})
    elif k == "contract_ind":
        T[e[1]].contract_ind(e[2])
    elif k == "isel":
        T[e[1]].isel_({e[2]: 0})
    elif k == "sum_reduce":
        T[e[1]].sum_reduce_(e[2])
    elif k == "gate_inds":
        d = T[e[1]].ind_size(e[2])
        G = fill("generic", (d, d), "float64", key="c02G")
        T[e[1]].gate_inds_(G, [e[2]], contract=e[3])
    elif k == "gate_inds_split":
        d0, d1 = T[e[1]].ind_size(e[2]), T[e[1]].ind_size(e[3])
        G = fill("generic", (d0 * d1, d0 * d1), "float64", key="c02G2")
        T[e[1]].gate_inds_(G, [e[2], e[3]], contract="split", cutoff=0.0)
    elif k == "gate_inds_with_tn":
        d = T[e[1]].ind_size(e[2])
        g = qtn.TensorNetwork([_mk(("gu", "gm"), ["GA"], "gA"), _mk(("gm", "gl"), ["GB"], "gB")])
        if d != 2:
            raise ValueError("size")
        T[e[1]].gate_inds_with_tn_([e[2]], g, ["gu"], ["gl"])
    elif k == "cut_bond":
        if len(T[e[1]].ind_map[e[2]]) != 2:
            raise ValueError("not a bond between two tensors")
        T[e[1]].cut_bond(e[2])
    elif k == "contract_between":
        T[e[1]].contract_between(e[2], e[3])
    elif k == "new_bond":
        T[e[1]].new_bond(e[2], e[3])
    elif k == "insert_operator":
        tn = T[e[1]]
        t1, t2 = tn[e[2]], tn[e[3]]
        if not (isinstance(t1, qtn.Tensor) and isinstance(t2, qtn.Tensor)) or t1 is t2:
            raise ValueError("need two unique tensors")
        (bnd,) = qtn.bonds(t1, t2) if len(qtn.bonds(t1, t2)) == 1 else (None,)
        if bnd is None:
            raise ValueError("need exactly one bond")
        d = t1.ind_size(bnd)
        tn.insert_operator_(fill("generic", (d, d), "float64", key="c02A"), e[2], e[3], tags=["OP"])
    elif k == "replace_with_identity":
        T[e[1]].replace_with_identity(e[2], inplace=True)
    elif k.startswith("nt_"):
        t = _net_tensor_ref(w, e[1], e[2])
        if k == "nt_reindex":
            _size_ok(w, e[4], t.ind_size(e[3]))
            t.reindex_({e[3]: e[4]})
        elif k == "nt_add_tag":
            t.add_tag(e[3])
        elif k == "nt_transpose":
            t.transpose_(*t.inds[::-1])
        elif k == "nt_fuse":
            if len(set(t.inds)) != len(t.inds):
                raise Precondition("repeated")
            _size_ok(w, "f", t.ind_size(t.inds[0]) * t.ind_size(t.inds[1]))
            t.fuse_({"f": t.inds[:2]})
        elif k == "nt_retag":
            t.retag_({e[3]: e[4]})
    elif k == "reindex_t":
        _size_ok(w, e[3], w.ts[e[1]].ind_size(e[2]))
        w.ts[e[1]].reindex_({e[2]: e[3]})
    elif k == "retag_t":
        w.ts[e[1]].retag_({e[2]: e[3]})
    elif k == "add_tag_t":
        w.ts[e[1]].add_tag(e[2])
    elif k == "drop_tags_t":
        w.ts[e[1]].drop_tags()
    elif k == "transpose_t":
        w.ts[e[1]].transpose_(*w.ts[e[1]].inds[::-1])
    elif k == "modify_tags_t":
        w.ts[e[1]].modify(tags=["T7", "G"])
    elif k == "modify_inds_perm_t":
        t = w.ts[e[1]]
        # a pure relabelling that permutes the names (data is NOT transposed:
        # the tensor denotes something else, but the maps must still be exact)
        if any(t.ind_size(i) != t.ind_size(t.inds[0]) for i in t.inds):
            raise ValueError("sizes differ")
        t.modify(inds=t.inds[::-1])
    elif k == "modify_inds_rename_t":
        t = w.ts[e[1]]
        _size_ok(w, "y", t.ind_size(t.inds[0]))
        t.modify(inds=("y",) + tuple(t.inds[1:]))
    elif k == "fuse_t":
        t = w.ts[e[1]]
        if len(set(t.inds)) != len(t.inds):
            raise Precondition("repeated")
        _size_ok(w, "f", t.ind_size(t.inds[0]) * t.ind_size(t.inds[1]))
        t.fuse_({"f": t.inds[:2]})
    elif k == "isel_t":
        t = w.ts[e[1]]
        t.isel_({t.inds[0]: 0})
    elif k == "sum_reduce_t":
        t = w.ts[e[1]]
        t.sum_reduce_(t.inds[0])
    elif k == "new_ind_t":
        _size_ok(w, "n", 2)
        w.ts[e[1]].new_ind("n", size=2)
    elif k == "squeeze_t":
        w.ts[e[1]].squeeze_()
    elif k == "collapse_repeated_t":
        w.ts[e[1]].collapse_repeated_()
    elif k == "expand_ind_t":
        t = w.ts[e[1]]
        _unshared(w, t, t.inds[0])
        t.expand_ind(t.inds[0], t.ind_size(t.inds[0]) + 1)
    elif k == "t_new_bond":
        qtn.new_bond(w.ts[e[1]], w.ts[e[2]])
    elif k == "t_and":
        T[w.newname()] = w.ts[e[1]] & w.ts[e[2]]
    elif k == "make_norm":
        if not T[e[1]].tensor_map:
            raise Precondition("empty network")
        T[w.newname()] = T[e[1]].make_norm(mangle_append=e[2])
    elif k == "make_overlap":
        if not T[e[1]].tensor_map or not T[e[2]].tensor_map:
            raise Precondition("empty network")
        _sizes_agree(T[e[1]], _tn_sizes(T[e[2]]))
        # <other|self> is defined for two networks with the same open labels
        oa = {i for i, c in scan_network(T[e[1]])[2].items() if c == 1}
        ob = {i for i, c in scan_network(T[e[2]])[2].items() if c == 1}
        if oa != ob:
            raise Precondition("overlap of networks with different open labels")
        T[w.newname()] = T[e[1]].make_overlap(T[e[2]])
    elif k == "combine":
        _sizes_agree(T[e[1]], _tn_sizes(T[e[2]]))
        T[w.newname()] = T[e[1]].combine(T[e[2]], virtual=e[3], check_collisions=True)
    elif k == "tn_from_list":
        _sizes_agree(T[e[1]], _tn_sizes(T[e[2]]))
        T[w.newname()] = qtn.TensorNetwork([T[e[1]], T[e[2]]])
    elif k == "combine_and":
        _sizes_agree(T[e[1]], _tn_sizes(T[e[2]]))
        T[w.newname()] = T[e[1]] & T[e[2]]
    elif k == "combine_or":
        _sizes_agree(T[e[1]], _tn_sizes(T[e[2]]))
        T[w.newname()] = T[e[1]] | T[e[2]]
    elif k == "ior":
        _sizes_agree(T[e[1]], _tn_sizes(T[e[2]]))
        T[e[1]] |= T[e[2]]
    elif k == "iand":
        _sizes_agree(T[e[1]], _tn_sizes(T[e[2]]))
        T[e[1]] &= T[e[2]]
    elif k == "add_tn":
        _sizes_agree(T[e[1]], _tn_sizes(T[e[2]]))
        T[e[1]].add_tensor_network(T[e[2]], virtual=e[3], check_collisions=True)
    else:
        raise core.HarnessError("unknown event %r" % (e,))
    return None


def _combine_pre(w, e):
    """Record, before a combination, each operand's tensors in order with
    their labels and the inner/outer classification by a fresh scan."""
    out = {}
    second = e[1] if e[0] == "make_norm" else e[2]
    for side, n in (("A", e[1]), ("B", second)):
        tn = w.tns[n]
        _, _, cnt = scan_network(tn)
        out[side] = {
            "tensors": [(tid, tuple(t.inds)) for tid, t in tn.tensor_map.items()],
            "inner": {i for i, c in cnt.items() if c >= 2},
            "outer": {i for i, c in cnt.items() if c == 1},
            "same_objs": None,
        }
    a_ids = {id(t) for t in w.tns[e[1]].tensor_map.values()}
    # make_norm / make_overlap combine internal copies: they never share tensor objects
    out["overlap"] = e[0] not in ("make_norm", "make_overlap") and any(id(t) in a_ids for t in w.tns[second].tensor_map.values())
    return out


def _combine_check(w, e, pre):
    """Combining never merges two previously distinct bonds and never renames
    an outer label (C02 statement, last sentence)."""
    k = e[0]
    res = w.tns[e[1]] if k in ("ior", "iand", "add_tn") else w.tns[sorted(w.tns, key=lambda s: (len(s), s))[-1]]
    if k in NEWNET:
        # the new network was stored under the newest M<i> name
        ms = [n for n in w.tns if n.startswith("M")]
        res = w.tns[sorted(ms, key=lambda s: int(s[1:]))[-1]]
    A, B = pre["A"], pre["B"]
    if pre["overlap"]:
        return []  # operands share tensor objects: a 'held twice' situation, classified by _roots
    nA, nB = len(A["tensors"]), len(B["tensors"])
    rts = list(res.tensor_map.values())
    if len(rts) != nA + nB:
        return [("combine", "combined network has %d tensors, expected %d" % (len(rts), nA + nB))]
    probs = []
    # expected slot partition: same label within a side => same class; across
    # sides joined iff same label and not inner in both
    exp = collections.defaultdict(set)
    for side, off, S in (("A", 0, A), ("B", nA, B)):
        for j, (tid, inds) in enumerate(S["tensors"]):
            for ax, ix in enumerate(inds):
                clash = ix in A["inner"] and ix in B["inner"]
                exp[(side, ix) if clash else ix].add((off + j, ax))
    got = collections.defaultdict(set)
    for j, t in enumerate(rts):
        for ax, ix in enumerate(t.inds):
            got[ix].add((j, ax))
    if sorted(map(sorted, exp.values())) != sorted(map(sorted, got.values())):
        probs.append(("combine", "bond structure changed by combination: expected classes %r got %r" % (sorted(map(sorted, exp.values())), sorted(map(sorted, got.values())))))
    # outer labels keep their names
    for side, off, S in (("A", 0, A), ("B", nA, B)):
        for j, (tid, inds) in enumerate(S["tensors"]):
            for ax, ix in enumerate(inds):
                if ix in S["outer"] and j + off < len(rts) and rts[off + j].inds[ax] != ix:
                    probs.append(("combine", "outer label %s of %s renamed to %s" % (ix, side, rts[off + j].inds[ax])))
    return probs


def canon(w):
    rn = Renamer()
    ids = {}

    def oid(t):
        if id(t) not in ids:
            ids[id(t)] = len(ids)
        return ids[id(t)]

    for n in sorted(w.ts):
        oid(w.ts[n])
    nets = []
    for n in sorted(w.tns):
        tn = w.tns[n]
        nets.append(
            (
                n,
                type(tn).__name__,
                tuple((tid, oid(t), tuple(map(rn, t.inds)), tuple(t.shape), tuple(sorted(map(rn, t.tags)))) for tid, t in sorted(tn.tensor_map.items())),
                tn._tid_counter,
            )
        )
    free = tuple((n, oid(w.ts[n]), tuple(map(rn, w.ts[n].inds)), tuple(w.ts[n].shape), tuple(sorted(map(rn, w.ts[n].tags)))) for n in sorted(w.ts))
    return core.digest((tuple(nets), free, tuple(sorted(w.dead))))


class C02Case(seq.Case):
    rejections = (ValueError, KeyError, TypeError, NotImplementedError, IndexError)

    def __init__(self, spec):
        super().__init__(spec)
        self.recipe = spec["recipe"]
        self.rich = bool(spec.get("rich", True))

    def build(self):
        return _init(self.recipe)

    def menu(self, w):
        return menu(w, self.rich)

    def pre(self, w, e):
        p = {"roots": _roots(w)}
        if e[0] in COMBINE:
            p["combine"] = _combine_pre(w, e)
        return p

    def apply(self, w, e):
        return apply(w, e)

    def _classify(self, w, pre, e=None):
        roots = set(pre["roots"]) if pre else set()
        roots |= _roots(w)
        if "tensor-held-twice" in roots:
            return "tensor-held-twice"
        if "repeated-label" in roots:
            virtual_combo = e is not None and (e[0] in ("combine_or", "ior") or (e[0] in ("combine", "add_tn") and e[3]))
            # (a virtual combination re-labels the operand's clashing inner
            # labels IN PLACE, i.e. goes through the known re-label path)
            if e is not None and e[0] in LINK_ONLY and not virtual_combo:
                # a repeated label is classified correctly when a tensor is
                # linked in (clean code: inner); only unlinking / re-labelling
                # is the known finding
                return "repeated-label-on-link"
            return "repeated-label"
        return "none"

    def check(self, w, e, obs, pre):
        raw = check_world(w)
        if pre and "combine" in pre and not raw:
            raw += _combine_check(w, e, pre["combine"])
        if not raw:
            return []
        root = self._classify(w, pre, e)
        kinds = sorted({k for k, _ in raw})
        return [core.problem("after %r: %s" % (e, "; ".join(m for _, m in raw[:3])), root=root, event=e[0], kinds="+".join(kinds))]

    def check_rejected(self, w, e, exc, pre):
        # a rejected call must not leave the maps inconsistent either
        raw = check_world(w)
        if not raw:
            return []
        root = self._classify(w, pre)
        return [core.problem("rejected %r (%s) left inconsistent maps: %s" % (e, type(exc).__name__, raw[0][1]), root=root, event=e[0], kinds="rejected+" + "+".join(sorted({k for k, _ in raw})))]

    def unexpected(self, w, e, exc):
        return [core.problem("%r raised %s: %s" % (e, type(exc).__name__, str(exc)[:200]), root=self._classify(w, None), event=e[0], kinds="exception:" + type(exc).__name__)]

    def canon(self, w):
        return canon(w)

    def nontrivial(self, w, e, obs):
        # a state where at least two tensors share a label or a tensor is
        # shared between two networks
        for tn in w.tns.values():
            if tn._inner_inds:
                return True
        return any(len(h) > 1 for _, h in _all_tensor_objects(w).values())


_SLOTS = {}  # id(network) -> (slot, weakref)


def install_hash_seam():
    """Own the one source of nondeterminism of the owner registry: it is keyed
    on hash(network), which is the object's address, and addresses are reused
    after a network dies in an allocator-dependent way.  The harness gives
    every TensorNetwork a small integer hash taken from the lowest slot whose
    previous holder is dead - i.e. ids are ALWAYS reused as early as possible.
    Every behaviour under this seam is a behaviour CPython may show (an id may
    be reused as soon as its object is gone), and it is deterministic."""
    import weakref

    import quimb.tensor as qtn

    if getattr(qtn.TensorNetwork, "_verif_hash_seam", False):
        return

    def _hash(self):
        ent = _SLOTS.get(id(self))
        if ent is not None and ent[1]() is self:
            return ent[0]
        used = {sl for k, (sl, r) in list(_SLOTS.items()) if r() is not None}
        for k in [k for k, (sl, r) in _SLOTS.items() if r() is None]:
            del _SLOTS[k]
        slot = 0
        while slot in used:
            slot += 1
        _SLOTS[id(self)] = (slot, weakref.ref(self))
        return slot

    qtn.TensorNetwork.__hash__ = _hash
    qtn.TensorNetwork._verif_hash_seam = True


def make_case(spec):
    install_hash_seam()
    return C02Case(spec)


# --------------------------------------------------------------------------- #
#                             oset sub-model                                  #
# --------------------------------------------------------------------------- #

OSET_KEYS = (0, 1, 2)


def _oset_ops():
    ops = []
    for k in OSET_KEYS:
        ops += [("add", k), ("discard", k), ("remove", k), ("contains", k)]
    ops += [("pop",), ("popleft",), ("popright",), ("clear",), ("copy",), ("len",), ("iter",)]
    for name in ("update", "union", "intersection_update", "intersection", "difference_update", "difference", "or", "ior", "and", "iand", "sub", "isub", "eq"):
        for other in ((), (1,), (2, 0)):
            ops.append((name, other))
    return ops


def _oset_ref(lst, op):
    """list-based reference; returns (newlist, observation)."""
    lst = list(lst)
    k = op[0]

    def uniq(xs):
        out = []
        for x in xs:
            if x not in out:
                out.append(x)
        return out

    if k == "add":
        if op[1] not in lst:
            lst.append(op[1])
        return lst, None
    if k == "discard":
        if op[1] in lst:
            lst.remove(op[1])
        return lst, None
    if k == "remove":
        if op[1] not in lst:
            return lst, "KeyError"
        lst.remove(op[1])
        return lst, None
    if k == "contains":
        return lst, op[1] in lst
    if k in ("pop", "popright"):
        if not lst:
            return lst, "KeyError"
        return lst[:-1], lst[-1]
    if k == "popleft":
        if not lst:
            return lst, "KeyError"
        return lst[1:], lst[0]
    if k == "clear":
        return [], None
    if k == "copy":
        return lst, list(lst)
    if k == "len":
        return lst, len(lst)
    if k == "iter":
        return lst, list(lst)
    o = list(op[1])
    if k in ("update", "ior"):
        return uniq(lst + o), None
    if k in ("union", "or"):
        return lst, uniq(lst + o)
    if k in ("intersection_update", "iand"):
        return [x for x in lst if x in o], None
    if k in ("intersection", "and"):
        return lst, [x for x in lst if x in o]
    if k in ("difference_update", "isub"):
        return [x for x in lst if x not in o], None
    if k in ("difference", "sub"):
        return lst, [x for x in lst if x not in o]
    if k in ("symmetric_difference", "xor"):
        return lst, [x for x in lst if x not in o] + [x for x in o if x not in lst]
    if k == "eq":
        return lst, set(lst) == set(o) and len(lst) == len(o)
    if k == "issubset":
        return lst, set(lst) <= set(o)
    if k == "issuperset":
        return lst, set(lst) >= set(o)
    raise KeyError(k)


def _oset_apply(s, op):
    from quimb.utils import oset

    k = op[0]
    try:
        if k in ("add", "discard", "remove"):
            return getattr(s, k)(op[1]), s
        if k == "contains":
            return op[1] in s, s
        if k in ("pop", "popleft", "popright"):
            return getattr(s, k)(), s
        if k == "clear":
            return s.clear(), s
        if k == "copy":
            c = s.copy()
            assert c is not s
            return list(c), s
        if k == "len":
            return len(s), s
        if k == "iter":
            return list(s), s
        o = oset(op[1])
        if k in ("update", "intersection_update", "difference_update"):
            return getattr(s, k)(o), s
        if k in ("union", "intersection", "difference", "symmetric_difference"):
            r = getattr(s, k)(o)
            return list(r), s
        if k == "or":
            return list(s | o), s
        if k == "and":
            return list(s & o), s
        if k == "sub":
            return list(s - o), s
        if k == "xor":
            return list(s ^ o), s
        if k == "ior":
            s |= o
            return None, s
        if k == "iand":
            s &= o
            return None, s
        if k == "isub":
            s -= o
            return None, s
        if k == "eq":
            return s == o, s
        if k in ("issubset", "issuperset"):
            return getattr(s, k)(o), s
    except (KeyError, StopIteration):
        # removing from / popping an empty set: any lookup-style error is the
        # documented behaviour (dict semantics)
        return "KeyError", s
    raise AttributeError(k)


def oset_expand(item, common):
    """Worker: run every operation from one oset state (given as a list)."""
    from quimb.utils import oset

    state = list(item)
    out = []
    for op in _oset_ops():
        if not hasattr(oset, op[0]) and op[0] in ("popleft", "popright", "symmetric_difference", "issubset", "issuperset", "intersection_update", "difference_update"):
            continue
        s = oset(state)
        try:
            obs, s2 = _oset_apply(s, op)
        except AttributeError:
            continue
        except TypeError as ex:
            out.append((op, None, core.problem("oset %r on %r raised TypeError %s" % (op, state, ex), root="oset", op=op[0])))
            continue
        want_state, want_obs = _oset_ref(state, op)
        bad = None
        if list(s2) != want_state:
            bad = "state %r want %r" % (list(s2), want_state)
        elif isinstance(want_obs, list):
            if op[0] in ("xor", "symmetric_difference", "union", "or"):
                ok = isinstance(obs, list) and sorted(obs) == sorted(want_obs) and len(obs) == len(set(obs))
            else:
                ok = obs == want_obs
            if not ok:
                bad = "returned %r want %r" % (obs, want_obs)
        elif want_obs is not None and obs != want_obs:
            bad = "returned %r want %r" % (obs, want_obs)
        # membership/len coherence
        if bad is None and (len(s2) != len(want_state) or any((k in s2) != (k in want_state) for k in OSET_KEYS)):
            bad = "len/contains incoherent"
        out.append((op, tuple(s2) if bad is None else None, core.problem("oset(%r) %r: %s" % (state, op, bad), root="oset", op=op[0]) if bad else None))
    return out


def run_oset(ctx, depth):
    seen = {()}
    frontier = [()]
    for d in range(depth):
        res = ctx.pmap("oset_expand", frontier)
        nxt = []
        for st, outs in zip(frontier, res):
            for op, new, prob in outs:
                ctx.transitions += 1
                ctx.evaluations += 1
                ctx.traces += 1
                if prob is not None:
                    ctx.violation(prob, {"engine": "oset", "state": list(st), "op": op})
                    continue
                ctx.outcome("oset:" + op[0])
                if new not in seen:
                    seen.add(new)
                    nxt.append(new)
                    ctx.nontrivial_keys.add(core.digest(("oset", new)))
        frontier = nxt
        if not frontier:
            break
    ctx.states += len(seen)
    ctx.counters["oset.states"] = len(seen)


# --------------------------------------------------------------------------- #
#                                   driver                                    #
# --------------------------------------------------------------------------- #

PLAN = {
    # recipe: (rich menu quick?, rich menu thorough?, depth quick, depth thorough)
    "W1": (True, True, 2, 3),
    "W2": (True, False, 2, 3),
    "W3": (True, True, 2, 3),
    "W4": (False, False, 2, 3),
    "W5": (True, True, 2, 3),
}


def run(ctx):
    ctx.rule = (
        "BFS over histories of public mutation events on a world of named tensors and networks (recipes W1-W5: plain pair, "
        "virtual view + second network sharing a tensor, repeated label + scalar, colliding inner labels, hyper label + multibond + size-1 label); "
        "a state is distinct by its canonical key (per network sorted (tid, labels, shapes, tags), object sharing relation, tid counter, dropped views) "
        "and non-trivial when some label is shared by two tensors or a tensor object is held by two networks; oracle = fresh scan after every transition"
    )
    ctx.assumptions += [
        "array data never influences bookkeeping, so one data fill per tensor is enough",
        "events are offered only when their evident precondition holds (sizes equal for a rename onto an existing label, unique tensor for item access)",
        "identical canonical keys have identical futures (keys contain every field the maps are computed from)",
        "hash(network) (an address) is replaced by a harness-side slot number that is reused as early as possible after a network dies - a legal, worst-case and deterministic id-reuse pattern",
    ]
    thorough = ctx.tier == "thorough"
    ctx.bounds = {"depth": {k: (v[3] if thorough else v[2]) for k, v in PLAN.items()}, "oset_depth": 5 if thorough else 4}
    run_oset(ctx, 5 if thorough else 4)
    for recipe, (richq, richt, dq, dt) in PLAN.items():
        rich = richt if thorough else richq
        if "only" in ctx.opts and ctx.opts["only"] != recipe:
            continue
        depth = int(ctx.opts.get("depth", dt if thorough else dq))
        seq.explore(ctx, {"recipe": recipe, "rich": rich}, depth, label=recipe)


def replay(case):
    if case.get("engine") == "oset":
        outs = oset_expand(tuple(case["state"]), None)
        return [p for op, new, p in outs if p is not None and tuple(core.tuplify(op)) == tuple(core.tuplify(case["op"]))]
    return seq.replay(__name__, case)

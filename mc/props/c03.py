"""C03 - labelled semantics: axis order never matters; plain spellings never
mutate (DESIGN.md section 3, C03).

TableExplorer driven by reflection.  One *cell* = (domain entry, receiver):
a public method (found as an ``f`` / ``f_`` pair, an ``inplace=`` keyword or an
operator) together with one hand-written, in-domain argument recipe and one
small fixed receiver.  Inside the cell the worker fans out into

  (i)   purity          plain call on a receiver whose arrays are read-only and
                        fingerprinted (labels, tags, left_inds, dtype, bytes,
                        exponent, extra properties, tids, maps); arguments too
  (ii)  spelling        ``f(x)`` vs ``f_(copy(x))``: strict equality (same
                        class / properties / tids order / label order / data,
                        fresh uuid labels renamed by first appearance), ``f_``
                        returns its receiver, and ``x`` - whose arrays the copy
                        shares - is still untouched afterwards
  (iii) axis order      every axis permutation of every tensor of the receiver
                        and of every tensor argument (one tensor at a time, all
                        permutations up to rank 3 / a generating family above)
                        plus all-tensors-reversed: result must be labelled-equal
  (iv)  insertion order all insertion orders (n <= 3) / reversal+rotation

A second, purely static table is exhaustive over reflection: for every
Tensor / TensorNetwork (sub)class exported by quimb.tensor and every (f, f_)
pair visible on it, ``f_`` must be functools.partialmethod of the very
function ``f`` resolves to on that class, plus inplace=True (an override of
``f`` that forgets to re-alias ``f_`` makes the two spellings run different
code - five such pairs exist in the tree).

Besides the pairs / ``inplace=`` methods / operators, the table holds query
methods without in-place twin (``q:``), properties (``p:``) and in-place-only
mutators run on a copy (``mut:``) - the first sentence of the property ("the
result of ANY method depends only on labelled content") applies to them too;
they get checks (i), (iii), (iv).

The domain table lives in ``c03_dom.py``.
"""

from __future__ import annotations

import hashlib
import inspect
import itertools
import sys

import numpy as np

from .. import core, table
from ..qhelp import Renamer

# --------------------------------------------------------------------------- #
#                       walking / freezing / fingerprints                     #
# --------------------------------------------------------------------------- #

EXEMPT_KW = ("info", "gauges", "cache", "messages")  # documented in/out containers


def _qtn():
    import quimb.tensor as qtn

    return qtn


def _arrays_of(obj, out, seen):
    """All numpy arrays reachable from obj (Tensor, network, containers)."""
    qtn = _qtn()
    if id(obj) in seen:
        return
    seen.add(id(obj))
    if isinstance(obj, np.ndarray):
        out.append(obj)
    elif isinstance(obj, qtn.Tensor):
        d = obj._data
        if isinstance(d, np.ndarray):
            out.append(d)
    elif isinstance(obj, qtn.TensorNetwork):
        for t in obj.tensor_map.values():
            _arrays_of(t, out, seen)
    elif isinstance(obj, dict):
        for v in obj.values():
            _arrays_of(v, out, seen)
    elif isinstance(obj, (list, tuple)):
        for v in obj:
            _arrays_of(v, out, seen)


def freeze(objs):
    arrs = []
    _arrays_of(objs, arrs, set())
    for a in arrs:
        b = a
        while b is not None and isinstance(b, np.ndarray):
            try:
                b.flags.writeable = False
            except ValueError:
                pass
            b = b.base
    return arrs


def thaw(arrs):
    for a in arrs:
        chain = []
        b = a
        while b is not None and isinstance(b, np.ndarray):
            chain.append(b)
            b = b.base
        for b in reversed(chain):
            try:
                b.flags.writeable = True
            except ValueError:
                pass


def _sha(a):
    a = np.asarray(a)
    return hashlib.sha1(np.ascontiguousarray(a).tobytes()).hexdigest()[:16]


def _plain(v):
    """repr of simple attribute values (extra properties etc.)."""
    if isinstance(v, (str, int, float, bool, complex)) or v is None:
        return repr(v)
    if isinstance(v, (tuple, list)):
        return "(" + ",".join(_plain(u) for u in v) + ")"
    if isinstance(v, dict):
        return "{" + ",".join("%s:%s" % (_plain(k), _plain(u)) for k, u in v.items()) + "}"
    if isinstance(v, np.ndarray):
        return "nd%s%s:%s" % (v.shape, v.dtype, _sha(v))
    if isinstance(v, (set, frozenset)):
        return "{" + ",".join(sorted(_plain(u) for u in v)) + "}"
    if isinstance(v, np.generic):
        return repr(v.item())
    return type(v).__name__


_TN_CORE = ("tensor_map", "ind_map", "tag_map", "_inner_inds", "_outer_inds", "_tid_counter", "exponent")


def fingerprint(obj):
    """Observable state of obj as a flat dict path -> value (so that a change
    can be reported by path)."""
    out = {}
    _fp(obj, "", out, set())
    return out


def _fp(obj, path, out, seen):
    qtn = _qtn()
    if isinstance(obj, qtn.Tensor):
        d = obj._data
        out[path + ".cls"] = type(obj).__name__
        out[path + ".inds"] = tuple(obj.inds)
        out[path + ".tags"] = tuple(obj.tags)
        out[path + ".left_inds"] = None if obj.left_inds is None else tuple(obj.left_inds)
        out[path + ".dtype"] = str(getattr(d, "dtype", None))
        out[path + ".shape"] = tuple(getattr(d, "shape", ()))
        out[path + ".data"] = _sha(d)
        out[path + ".id"] = id(obj)
    elif isinstance(obj, qtn.TensorNetwork):
        out[path + ".cls"] = type(obj).__name__
        out[path + ".exponent"] = repr(obj.exponent)
        out[path + ".tids"] = tuple(obj.tensor_map)
        # declared extra properties + public attributes (private ones that
        # are not declared, e.g. `_site_set`, are lazily filled caches)
        for k in sorted(set(type(obj)._EXTRA_PROPS) | {k for k in vars(obj) if not k.startswith("_")}):
            if k not in _TN_CORE:
                out[path + ".attr." + k] = _plain(getattr(obj, k, "<unset>"))
        out[path + ".ind_map"] = tuple((ix, tuple(sorted(obj.ind_map[ix]))) for ix in sorted(obj.ind_map))
        out[path + ".tag_map"] = tuple((tg, tuple(sorted(obj.tag_map[tg]))) for tg in sorted(obj.tag_map))
        out[path + ".outer"] = tuple(obj.outer_inds())
        for tid, t in obj.tensor_map.items():
            _fp(t, path + ".t%s" % tid, out, seen)
    elif isinstance(obj, np.ndarray):
        out[path + ".nd"] = (obj.shape, str(obj.dtype), _sha(obj))
    elif isinstance(obj, dict):
        out[path + ".keys"] = tuple(_plain(k) for k in obj)
        for k, v in obj.items():
            _fp(v, path + "[%s]" % _plain(k), out, seen)
    elif isinstance(obj, (list, tuple)):
        out[path + ".len"] = len(obj)
        for i, v in enumerate(obj):
            _fp(v, path + "[%d]" % i, out, seen)
    else:
        out[path + ".v"] = _plain(obj)


def fp_diff(a, b):
    ks = [k for k in a if a[k] != b.get(k, "<missing>")] + [k for k in b if k not in a]
    return ks


def tensor_ids(obj, out=None):
    qtn = _qtn()
    out = set() if out is None else out
    if isinstance(obj, qtn.Tensor):
        out.add(id(obj))
    elif isinstance(obj, qtn.TensorNetwork):
        for t in obj.tensor_map.values():
            out.add(id(t))
    elif isinstance(obj, dict):
        for v in obj.values():
            tensor_ids(v, out)
    elif isinstance(obj, (list, tuple)):
        for v in obj:
            tensor_ids(v, out)
    return out


# --------------------------------------------------------------------------- #
#                          snapshots and comparisons                          #
# --------------------------------------------------------------------------- #

MAX_DENSE = 1 << 14


def _rtol(*dtypes):
    single = False
    for dt in dtypes:
        try:
            dt = np.dtype(dt)
        except TypeError:
            continue
        if dt.kind in "fc" and dt.itemsize // (2 if dt.kind == "c" else 1) <= 4:
            single = True
    return 5e-4 if single else 1e-9


def _close(x, y, rtol):
    x = np.asarray(x)
    y = np.asarray(y)
    if x.shape != y.shape:
        return False
    if x.size == 0:
        return True
    if x.dtype == object or y.dtype == object:
        return bool(np.all(x == y))
    if x.dtype.kind in "US" or y.dtype.kind in "US":
        return bool(np.all(x == y))
    fx, fy = np.isfinite(x), np.isfinite(y)
    if not (np.all(fx) and np.all(fy)):
        return bool(np.array_equal(fx, fy) and np.array_equal(np.isnan(x), np.isnan(y)) and _close(np.where(fx, x, 0), np.where(fy, y, 0), rtol))
    scale = max(float(np.max(np.abs(x))), float(np.max(np.abs(y))), 1e-300)
    return float(np.max(np.abs(x.astype(complex) - y.astype(complex)))) <= rtol * scale


def tn_dense(tn, outs=None):
    """(sorted outer labels, dense value incl. exponent) by one numpy einsum;
    None if too large.  ``outs``: explicit output labels (results of
    simplifiers may carry an output label on several tensors - a hyper label -
    which outer_inds() no longer lists)."""
    out = tuple(sorted(tn.outer_inds() if outs is None else outs, key=str))
    size = 1
    for ix in out:
        size *= tn.ind_size(ix)
    if size > MAX_DENSE:
        return out, None
    sym = {}
    args = []
    for t in tn.tensor_map.values():
        for ix in t.inds:
            sym.setdefault(ix, len(sym))
    if len(sym) > 50:
        x = tn.contract(all, output_inds=out, optimize="auto-hq") if tn.num_tensors else 1.0
        x = getattr(x, "data", x)
        return out, np.asarray(x)
    for t in tn.tensor_map.values():
        args.append(np.asarray(t.data))
        args.append([sym[ix] for ix in t.inds])
    args.append([sym[ix] for ix in out])
    total = 1
    for ix in sym:
        total *= tn.ind_size(ix)
    val = np.einsum(*args, optimize=(total > 1 << 16)) if tn.num_tensors else np.asarray(1.0)
    return out, val * 10.0 ** float(tn.exponent)


def snap(obj, ren=None, dense=True, outs=None):
    """Snapshot of a result: plain python/numpy structure with no references
    to live quimb objects.  ``ren`` renames uuid labels by first appearance."""
    qtn = _qtn()
    ren = ren or (lambda s: s)
    if isinstance(obj, qtn.Tensor):
        return {
            "k": "T",
            "cls": type(obj).__name__,
            "inds": tuple(ren(i) for i in obj.inds),
            "tags": tuple(ren(t) for t in obj.tags),
            "left": None if obj.left_inds is None else tuple(ren(i) for i in obj.left_inds),
            "dtype": str(obj.dtype),
            "data": np.array(obj.data),
        }
    if isinstance(obj, qtn.TensorNetwork):
        ts = [snap(t, ren) for t in obj.tensor_map.values()]
        props = tuple((k, ren(_plain(getattr(obj, k, None)))) for k in type(obj)._EXTRA_PROPS)
        if outs is None:
            outer = tuple(ren(i) for i in obj.outer_inds())
        else:
            # expected open labels that are still present + any NEW dangling one
            outer = tuple(o for o in outs if o in obj.ind_map) + tuple(i for i in obj.outer_inds() if i not in outs)
            outs = outer
        cnt = {}
        for t in obj.tensor_map.values():
            for ix in t.inds:
                cnt[ix] = cnt.get(ix, 0) + 1
        sk = []
        for t in obj.tensor_map.values():
            sk.append((tuple(sorted(map(str, t.tags))), tuple(sorted((str(ix) if cnt[ix] == 1 else "*%d" % cnt[ix], int(d)) for ix, d in zip(t.inds, t.shape)))))
        d = {
            "k": "N",
            "cls": type(obj).__name__,
            "props": props,
            "exponent": float(np.real(obj.exponent)),
            "tids": tuple(obj.tensor_map),
            "ts": ts,
            "outer": outer,
            "skeleton": tuple(sorted(sk)),
            "allinds": frozenset(obj.ind_map),
        }
        if dense:
            try:
                o, v = tn_dense(obj, outs)
                d["dense"] = (tuple(ren(i) for i in o), v)
            except Exception as ex:  # pragma: no cover - reported as incomparable
                d["dense"] = ("<error %s>" % type(ex).__name__, None)
        return d
    if isinstance(obj, np.ndarray):
        return {"k": "A", "data": np.array(obj)}
    if isinstance(obj, (np.generic, int, float, complex)) and not isinstance(obj, bool):
        return {"k": "S", "v": complex(obj)}
    if isinstance(obj, (tuple, list)):
        return {"k": "L", "t": type(obj).__name__, "items": [snap(v, ren, dense) for v in obj]}
    if isinstance(obj, dict):
        return {"k": "D", "items": [(ren(_plain(k)), snap(v, ren, dense)) for k, v in obj.items()]}
    if isinstance(obj, str):
        return {"k": "V", "v": ren(obj)}
    if obj is None or isinstance(obj, bool):
        return {"k": "V", "v": obj}
    return {"k": "V", "v": ren(_plain(obj))}


def _t_sorted(ts):
    """tensor snapshot -> (sorted labels, data transposed accordingly)."""
    order = sorted(range(len(ts["inds"])), key=lambda i: str(ts["inds"][i]))
    return tuple(ts["inds"][i] for i in order), np.transpose(ts["data"], order)


def unordered(sn):
    """Sort the items of a returned sequence by labelled content (for results
    that are collections without a documented order)."""
    if sn["k"] == "L":

        def key(it):
            if it["k"] == "T":
                return (0, tuple(sorted(map(str, it["tags"]))), tuple(sorted(map(str, it["inds"]))))
            if it["k"] == "V":
                return (1, repr(it["v"]))
            return (2, it["k"])

        return dict(sn, items=sorted(sn["items"], key=key))
    return sn


def diff_strict(a, b, path="ret"):
    """Spelling agreement: everything equal incl. order; None if equal, else
    (field, message)."""
    if a["k"] != b["k"]:
        return "kind", "%s: kind %s vs %s" % (path, a["k"], b["k"])
    k = a["k"]
    if k == "T":
        for f in ("cls", "inds", "tags", "left", "dtype"):
            if a[f] != b[f]:
                return {"left": "left_inds"}.get(f, f), "%s.%s: %r vs %r" % (path, f, a[f], b[f])
        if not _close(a["data"], b["data"], _rtol(a["dtype"]) * 1e-3):
            return "data", "%s.data differs" % path
        return None
    if k == "N":
        for f in ("cls", "props"):
            if a[f] != b[f]:
                return f, "%s.%s: %r vs %r" % (path, f, a[f], b[f])
        # (tids and the ORDER of outer_inds() are bookkeeping, not labelled
        # content: compared as sets / not at all)
        if set(a["outer"]) != set(b["outer"]):
            return "outer", "%s.outer: %r vs %r" % (path, a["outer"], b["outer"])
        if abs(a["exponent"] - b["exponent"]) > 1e-9 * max(1.0, abs(a["exponent"])):
            return "exponent", "%s.exponent: %r vs %r" % (path, a["exponent"], b["exponent"])
        if len(a["ts"]) != len(b["ts"]):
            return "ntensors", "%s: %d vs %d tensors" % (path, len(a["ts"]), len(b["ts"]))
        for i, (ta, tb) in enumerate(zip(a["ts"], b["ts"])):
            d = diff_strict(ta, tb, "%s.t[%d]" % (path, i))
            if d:
                return d
        return None
    if k == "A":
        return None if _close(a["data"], b["data"], _rtol(a["data"].dtype) * 1e-3) else ("value", "%s: arrays differ" % path)
    if k == "S":
        return None if _close(a["v"], b["v"], 1e-12) else ("value", "%s: %r vs %r" % (path, a["v"], b["v"]))
    if k == "L":
        if len(a["items"]) != len(b["items"]):  # (list vs tuple is not labelled content)
            return "len", "%s: sequence %s[%d] vs %s[%d]" % (path, a["t"], len(a["items"]), b["t"], len(b["items"]))
        for i, (u, v) in enumerate(zip(a["items"], b["items"])):
            d = diff_strict(u, v, "%s[%d]" % (path, i))
            if d:
                return d
        return None
    if k == "D":
        if [x[0] for x in a["items"]] != [x[0] for x in b["items"]]:
            return "keys", "%s: dict keys differ" % path
        for (ka, u), (_, v) in zip(a["items"], b["items"]):
            d = diff_strict(u, v, "%s[%s]" % (path, ka))
            if d:
                return d
        return None
    return None if a["v"] == b["v"] else ("value", "%s: %r vs %r" % (path, a["v"], b["v"]))


def diff_labelled(a, b, mode="exact", path="ret"):
    """Axis/insertion-order invariance: equality of LABELLED content (up to
    stored axis order and tensor order).  mode 'exact': per-tensor equality
    whenever tensors can be matched by (tags, labels); 'dense': only class,
    properties, outer labels, tags, skeleton and dense value; 'value': only
    outer labels and dense value.  None if equal, else (field, message)."""
    if a["k"] != b["k"]:
        return "kind", "%s: kind %s vs %s" % (path, a["k"], b["k"])
    k = a["k"]
    if k == "T":
        if a["cls"] != b["cls"]:
            return "cls", "%s.cls" % path
        if sorted(map(str, a["inds"])) != sorted(map(str, b["inds"])):
            return "inds", "%s.inds: %r vs %r" % (path, a["inds"], b["inds"])
        if set(a["tags"]) != set(b["tags"]):
            return "tags", "%s.tags: %r vs %r" % (path, a["tags"], b["tags"])
        if (a["left"] is None) != (b["left"] is None) or (a["left"] is not None and set(a["left"]) != set(b["left"])):
            return "left_inds", "%s.left_inds: %r vs %r" % (path, a["left"], b["left"])
        if a["dtype"] != b["dtype"]:
            return "dtype", "%s.dtype: %s vs %s" % (path, a["dtype"], b["dtype"])
        if len(set(a["inds"])) == len(a["inds"]):
            ia, da = _t_sorted(a)
            ib, db = _t_sorted(b)
        else:  # repeated labels: compare as stored only if stored alike
            if a["inds"] != b["inds"]:
                return None
            da, db = a["data"], b["data"]
        if not _close(da, db, _rtol(a["dtype"])):
            return "data", "%s.data differs (labelled)" % path
        return None
    if k == "N":
        if mode != "value":
            for f in ("cls", "props"):
                if a[f] != b[f]:
                    return f, "%s.%s: %r vs %r" % (path, f, a[f], b[f])
        if set(a["outer"]) != set(b["outer"]):
            return "outer", "%s.outer: %r vs %r" % (path, a["outer"], b["outer"])
        if mode != "value":
            if len(a["ts"]) != len(b["ts"]):
                return "ntensors", "%s: %d vs %d tensors" % (path, len(a["ts"]), len(b["ts"]))
            if a["skeleton"] != b["skeleton"]:
                return "skeleton", "%s.skeleton: %r vs %r" % (path, a["skeleton"], b["skeleton"])
        da, db = a.get("dense"), b.get("dense")
        if da is not None and db is not None and da[1] is not None and db[1] is not None:
            if da[0] != db[0]:
                return "outer", "%s.dense labels %r vs %r" % (path, da[0], db[0])
            dts = [t["dtype"] for t in a["ts"]]
            if not _close(da[1], db[1], _rtol(*dts) * 10):
                return "dense", "%s: dense value differs" % path
        if mode == "exact" and a["allinds"] == b["allinds"]:
            if abs(a["exponent"] - b["exponent"]) > 1e-9 * max(1.0, abs(a["exponent"])):
                return "exponent", "%s.exponent: %r vs %r" % (path, a["exponent"], b["exponent"])

            def key(t):
                return (tuple(sorted(map(str, t["tags"]))), tuple(sorted(map(str, t["inds"]))))

            ka = sorted(key(t) for t in a["ts"])
            kb = sorted(key(t) for t in b["ts"])
            if ka != kb:
                return "tensor-keys", "%s: per-tensor (tags, labels) differ: %r vs %r" % (path, ka, kb)
            if len(set(ka)) == len(ka):
                mb = {key(t): t for t in b["ts"]}
                for t in a["ts"]:
                    d = diff_labelled(t, mb[key(t)], mode, path + ".t%r" % (key(t),))
                    if d:
                        return d
        return None
    if k == "A":
        return None if _close(a["data"], b["data"], _rtol(a["data"].dtype)) else ("value", "%s: arrays differ" % path)
    if k == "S":
        return None if _close(a["v"], b["v"], 1e-9) else ("value", "%s: %r vs %r" % (path, a["v"], b["v"]))
    if k == "L":
        if len(a["items"]) != len(b["items"]):
            return "len", "%s: length %d vs %d" % (path, len(a["items"]), len(b["items"]))
        for i, (u, v) in enumerate(zip(a["items"], b["items"])):
            d = diff_labelled(u, v, mode, "%s[%d]" % (path, i))
            if d:
                return d
        return None
    if k == "D":
        ma, mb = dict(a["items"]), dict(b["items"])
        if set(ma) != set(mb):
            return "keys", "%s: dict keys differ" % path
        for kk in ma:
            d = diff_labelled(ma[kk], mb[kk], mode, "%s[%s]" % (path, kk))
            if d:
                return d
        return None
    return None if a["v"] == b["v"] else ("value", "%s: %r vs %r" % (path, a["v"], b["v"]))


# --------------------------------------------------------------------------- #
#                        variants: axis / insertion order                     #
# --------------------------------------------------------------------------- #


def permute_tensor(t, perm):
    """Store the same labelled tensor with its axes in another order (numpy
    transpose + relabel; quimb's own transpose is not involved)."""
    perm = tuple(perm)
    t.modify(
        data=np.ascontiguousarray(np.transpose(t.data, perm)),
        inds=tuple(t.inds[p] for p in perm),
        left_inds=t.left_inds,
    )


def reorder_network(x, order):
    qtn = _qtn()
    ts = list(x.tensor_map.values())
    new = qtn.TensorNetwork([ts[i] for i in order])
    new.exponent = x.exponent
    if type(x) is not qtn.TensorNetwork:
        new = new.view_like_(x)
    return new


def perms_for(rank, tier):
    ident = tuple(range(rank))
    if rank <= 1:
        return []
    if rank <= 3 or (rank == 4 and tier == "thorough"):
        return [p for p in itertools.permutations(range(rank)) if p != ident]
    # generating family: reversal, rotation, each adjacent transposition
    out = [ident[::-1], ident[1:] + ident[:1]]
    for i in range(rank - 1):
        p = list(ident)
        p[i], p[i + 1] = p[i + 1], p[i]
        out.append(tuple(p))
    seen = []
    for p in out:
        if p != ident and p not in seen:
            seen.append(p)
    return seen


def perms_small(rank):
    ident = tuple(range(rank))
    if rank <= 1:
        return []
    out = [ident[::-1]]
    if rank > 2:
        out.append(ident[1:] + ident[:1])
    return out


def orders_for(n, tier):
    ident = tuple(range(n))
    if n <= 1:
        return []
    if n <= 3 or (n == 4 and tier == "thorough"):
        return [p for p in itertools.permutations(range(n)) if p != ident]
    out = [ident[::-1], ident[1:] + ident[:1]]
    if tier == "thorough":
        # all rotations and all adjacent transpositions
        for k in range(2, n):
            out.append(ident[k:] + ident[:k])
        for k in range(n - 1):
            p = list(ident)
            p[k], p[k + 1] = p[k + 1], p[k]
            out.append(tuple(p))
    seen = []
    for p in out:
        if p != ident and p not in seen:
            seen.append(p)
    return seen


def obj_tensors(obj, out=None):
    """Tensor objects inside an argument structure, in deterministic order."""
    qtn = _qtn()
    out = [] if out is None else out
    if isinstance(obj, qtn.Tensor):
        out.append(obj)
    elif isinstance(obj, qtn.TensorNetwork):
        out.extend(obj.tensor_map.values())
    elif isinstance(obj, dict):
        for v in obj.values():
            obj_tensors(v, out)
    elif isinstance(obj, (list, tuple)):
        for v in obj:
            obj_tensors(v, out)
    return out


# --------------------------------------------------------------------------- #
#                               one execution                                 #
# --------------------------------------------------------------------------- #


class ReadOnlyWrite(Exception):
    pass


def _is_readonly_error(ex):
    s = str(ex).lower()
    return "read-only" in s or "readonly" in s or "not writeable" in s or "not writable" in s


def _build(ent, rname, variant):
    """Fresh receiver + fresh arguments, with the storage variant applied."""
    from . import c03_dom as dom

    x = dom.build_receiver(rname)
    qtn = _qtn()
    if variant is not None and variant[0] == "ordperm":
        # one tensor (numbered as built) stored with permuted axes AND the
        # tensors inserted in another order
        permute_tensor(list(x.tensor_map.values())[variant[2]], variant[3])
        x = reorder_network(x, variant[1])
    if variant is not None and variant[0] == "order":
        x = reorder_network(x, variant[1])
    xt = [x] if isinstance(x, qtn.Tensor) else list(x.tensor_map.values())
    if variant is not None and variant[0] == "perm":
        permute_tensor(xt[variant[1]], variant[2])
    if variant is not None and variant[0] == "perm2":
        permute_tensor(xt[variant[1]], variant[2])
        permute_tensor(xt[variant[3]], variant[4])
    if variant is not None and variant[0] == "rev":
        for t in xt:
            if t.ndim > 1:
                permute_tensor(t, tuple(range(t.ndim))[::-1])
    args, kwargs = ent["args"](x, dom.H)
    at = obj_tensors([args, {k: v for k, v in kwargs.items()}])
    at = [t for t in at if id(t) not in {id(u) for u in xt}]
    if variant is not None and variant[0] == "aperm":
        permute_tensor(at[variant[1]], variant[2])
    if variant is not None and variant[0] == "permx":
        permute_tensor(xt[variant[1]], variant[2])
        permute_tensor(at[variant[3]], variant[4])
    if variant is not None and variant[0] == "rev":
        for t in at:
            if t.ndim > 1:
                permute_tensor(t, tuple(range(t.ndim))[::-1])
    return x, args, kwargs, xt, at


def _call(x, name, args, kwargs):
    from . import c03_dom as dom

    if name in dom.OPERATORS:
        return dom.OPERATORS[name](x, *args)
    if name.startswith("q:"):  # query method without in-place twin
        return getattr(x, name[2:])(*args, **kwargs)
    if name.startswith("p:"):  # property
        return getattr(x, name[2:])
    if name.startswith("fn:"):
        # module-level function acting in place on (ta, tb, ...): run it on
        # copies (which share their arrays with the originals) and return the
        # pair as a network, so that the labelled whole can be compared
        import quimb.tensor as qtn

        fn = getattr(qtn, name[3:])
        ts = [x.copy()] + [a.copy() for a in args]
        fn(*ts, **kwargs)
        return qtn.TensorNetwork(ts)
    if name.startswith("mut:"):  # in-place-only mutator: run it on a copy
        y = x.copy()
        r = getattr(y, name[4:])(*args, **kwargs)
        return y if (r is None or r is y) else (y, r)
    return getattr(x, name)(*args, **kwargs)


def _purity_objs(x, args, kwargs):
    return [x, list(args), {k: v for k, v in kwargs.items() if k not in EXEMPT_KW}]


def run_plain(ent, rname, variant, readonly=True):
    """-> dict(status='ok'|'exc', ret snapshot (strict+labelled), purity
    problems, the live objects for the spelling step)."""
    x, args, kwargs, xt, at = _build(ent, rname, variant)
    objs = _purity_objs(x, args, kwargs)
    arrs = freeze(objs) if readonly else []
    fp0 = fingerprint(objs)
    ids0 = tensor_ids(objs)
    out = {"x": x, "fp0": fp0, "objs": objs, "arrs": arrs, "n_xt": [t.ndim for t in xt], "n_at": [t.ndim for t in at], "nt": len(xt)}
    from . import c03_dom as dom

    dom.seed_everything()  # same global random stream for every run of a cell
    outer0 = tuple(sorted(x.outer_inds(), key=str)) if isinstance(x, _qtn().TensorNetwork) else None
    try:
        ret = _call(x, ent["plain"], args, dict(kwargs, **ent.get("plain_kw", {})))
        out["status"] = "ok"
    except Exception as ex:  # noqa: BLE001 - classified by the caller
        out["status"] = "exc"
        out["exc"] = ex
        ret = None
    fp1 = fingerprint(objs)
    out["changed"] = fp_diff(fp0, fp1)
    out["ret"] = ret
    if out["status"] == "ok":
        out["alias"] = sorted(ids0 & tensor_ids(ret)) if ret is not None else []
        out["snap"] = snap(ret, Renamer())
        keep = "keep-outer" in ent["flags"] and isinstance(ret, _qtn().TensorNetwork) and isinstance(x, _qtn().TensorNetwork)
        out["snapL"] = snap(ret, outs=outer0) if keep else snap(ret)
    return out


def _sig(ent, rname, check, **kw):
    d = {"entry": ent["name"], "owner": ent["owner"], "check": check}
    d.update(kw)
    return d


def _where_changed(keys):
    """Summarise fingerprint paths into a stable structural description."""
    kinds = set()
    for k in keys:
        head = "receiver" if k.startswith("[0]") else "argument"
        tail = k.rsplit(".", 1)[-1]
        if ".attr." in k:
            tail = "attr"
        kinds.add("%s.%s" % (head, tail))
    return sorted(kinds)


def evaluate(ent, rname, tier):
    """All checks of one cell -> list of table results."""
    qtn = _qtn()
    res = []
    flags = ent["flags"]
    name = ent["name"]
    n_runs = 0

    # ------------------------------------------------------------------ (i)
    base = run_plain(ent, rname, None, readonly=True)
    n_runs += 1
    if base["status"] == "exc" and _is_readonly_error(base["exc"]):
        # somebody refused / tried to write a read-only array: decide by
        # re-running on writable arrays and looking at the bytes
        thaw(base["arrs"])
        again = run_plain(ent, rname, None, readonly=False)
        n_runs += 1
        if again["status"] == "ok" and not again["changed"]:
            base = again  # third-party code only *refused* read-only input
            res.append(table.rejected("readonly-unsupported:%s" % name, sub="ro"))
        else:
            base = again
    x = base["x"]
    if base["changed"] and "impure-ok" not in flags:
        where = _where_changed(base["changed"])
        res.append(
            table.bad(
                core.problem(
                    "plain %s.%s on %s changed its receiver/arguments: %s" % (ent["owner"], name, rname, base["changed"][:6]),
                    **_sig(ent, rname, "purity", what=where),
                ),
                sub="purity",
            )
        )
        # the receiver is spoilt: continue the spelling comparison on a fresh
        # one (an independent question), skip the storage variants
        base = run_plain(ent, rname, None, readonly=False)
        n_runs += 1
        x = _build(ent, rname, None)[0]  # (base["x"] is spoilt as well)
        flags = flags | {"noperm", "noorder", "impure-ok", "alias-ok"}
    plain_exc = base["exc"] if base["status"] == "exc" else None
    if plain_exc is None and base["alias"] and "alias-ok" not in flags:
        res.append(
            table.bad(
                core.problem(
                    "plain %s.%s on %s returns an object holding %d of the receiver's/arguments' own Tensor objects (not copies)" % (ent["owner"], name, rname, len(base["alias"])),
                    **_sig(ent, rname, "alias"),
                ),
                sub="alias",
            )
        )
        return res

    # ----------------------------------------------------------------- (ii)
    if ent["inplace"] is not None:
        from . import c03_dom as dom

        y = x.copy()
        args2, kwargs2 = ent["args"](y, dom.H)
        objs2 = [list(args2), {k: v for k, v in kwargs2.items() if k not in EXEMPT_KW}]
        freeze(objs2)
        fa0 = fingerprint(objs2)
        iname, ikw = ent["inplace"]
        dom.seed_everything()
        try:
            ret2 = _call(y, iname, args2, dict(kwargs2, **ikw))
            exc2 = None
        except Exception as ex:  # noqa: BLE001
            ret2, exc2 = None, ex
        n_runs += 1
        if exc2 is not None and _is_readonly_error(exc2) and "inplace-writes-ok" not in flags:
            res.append(
                table.bad(
                    core.problem(
                        "in-place %s on a copy writes into an array the copy shares with the original: %s: %s" % (iname, type(exc2).__name__, str(exc2)[:100]),
                        **_sig(ent, rname, "shared-array-write"),
                    ),
                    sub="shared",
                )
            )
            return res
        if (plain_exc is None) != (exc2 is None):
            bad_ex = plain_exc if plain_exc is not None else exc2
            res.append(
                table.bad(
                    core.problem(
                        "%s.%s on %s: %s spelling raises %s(%s) while the %s spelling succeeds" % (ent["owner"], name, rname, "plain" if plain_exc is not None else "in-place", type(bad_ex).__name__, str(bad_ex)[:120], "in-place" if plain_exc is not None else "plain"),
                        **_sig(ent, rname, "spelling-raises", which="plain" if plain_exc is not None else "inplace", exc=type(bad_ex).__name__),
                    ),
                    sub="spelling",
                )
            )
            return res
        if plain_exc is None:
            # original (sharing arrays with the copy) and arguments untouched
            ch = fp_diff(base["fp0"], fingerprint(base["objs"]))
            ch2 = [] if "inplace-mutates-args" in flags else fp_diff(fa0, fingerprint(objs2))
            if (ch or ch2) and "impure-ok" not in flags:
                res.append(
                    table.bad(
                        core.problem(
                            "in-place %s on a COPY of %s changed the original / the arguments: %s" % (iname, rname, (ch + ch2)[:6]),
                            **_sig(ent, rname, "copy-purity", what=_where_changed(ch) + _where_changed(["[1]" + k for k in ch2])),
                        ),
                        sub="copy-purity",
                    )
                )
                return res
            if base["ret"] is None and "inplace-returns-other" not in flags:
                res.append(
                    table.bad(
                        core.problem("plain %s.%s on %s returns None (its in-place twin works on the receiver): the result of the plain spelling is lost" % (ent["owner"], name, rname), **_sig(ent, rname, "plain-returns-none")),
                        sub="plain-none",
                    )
                )
                return res
            if "collapses" in flags and not isinstance(base["ret"], qtn.TensorNetwork):
                # documented: the in-place spelling keeps a one-tensor network
                if ret2 is not y or y.num_tensors != 1:
                    d = ("inplace-return", "in-place spelling should keep a one-tensor network")
                else:
                    (t1,) = y.tensors
                    t1 = t1 * 10.0 ** float(np.real(y.exponent)) if y.exponent else t1
                    pr = base["ret"]
                    if not isinstance(pr, qtn.Tensor):
                        pr = qtn.Tensor(np.asarray(pr), (), t1.tags)
                    d = diff_labelled(snap(pr), snap(t1))
            elif "inplace-returns-other" not in flags:
                if ret2 is not y:
                    res.append(
                        table.bad(
                            core.problem("in-place %s does not return its receiver (returned %s)" % (iname, type(ret2).__name__), **_sig(ent, rname, "inplace-return")),
                            sub="inplace-return",
                        )
                    )
                    return res
                if "spelling-dense" in flags:  # randomised start vectors: gauge differs per call
                    d = diff_labelled(base["snapL"], snap(y), "dense")
                else:
                    d = diff_strict(base["snap"], snap(y, Renamer()))
            else:
                d = diff_strict(base["snap"], snap(ret2, Renamer()))
            if d and "spelling-differs-ok" not in flags:
                res.append(
                    table.bad(
                        core.problem("%s.%s on %s: plain result differs from in-place result on a copy: %s" % (ent["owner"], name, rname, d[1]), **_sig(ent, rname, "spelling", field=d[0])),
                        sub="spelling",
                    )
                )
                return res
    # ---------------------------------------------------------- (iii), (iv)
    mode = "exact"
    if "dense" in flags:
        mode = "dense"
    if "value" in flags:
        mode = "value"
    variants = []
    # (if both spellings reject the input as built, plain_exc is set: the same
    # labelled input must then be rejected however it is stored)
    if "noperm" not in flags:
        for i, r in enumerate(base["n_xt"]):
            for p in perms_for(r, tier):
                variants.append(("perm", i, p))
        for i, r in enumerate(base["n_at"]):
            for p in perms_for(r, tier):
                variants.append(("aperm", i, p))
        if any(r > 1 for r in base["n_xt"] + base["n_at"]):
            variants.append(("rev",))
        if tier == "thorough" and len(base["n_xt"]) >= 2:
            # two tensors of the receiver permuted at once: all pairs of
            # tensors x all pairs of single-tensor permutations of the quick
            # tier (all permutations up to rank 3, generating family above)
            nx = len(base["n_xt"])
            for i in range(nx):
                for j in range(i + 1, nx):
                    for a in perms_for(base["n_xt"][i], "quick"):
                        for b in perms_for(base["n_xt"][j], "quick"):
                            variants.append(("perm2", i, a, j, b))
        if tier == "thorough" and base["n_at"]:
            # one receiver tensor and one argument tensor permuted at once
            for i, ri in enumerate(base["n_xt"]):
                for j, rj in enumerate(base["n_at"]):
                    for a in perms_for(ri, "quick"):
                        for b in perms_for(rj, "quick"):
                            variants.append(("permx", i, a, j, b))
    if "noorder" not in flags and not isinstance(x, qtn.Tensor):
        for o in orders_for(base["nt"], tier):
            variants.append(("order", o))
        if "noperm" not in flags and 2 <= base["nt"] <= 3:
            # insertion order x axis order (a rule like "the tensor visited
            # first wins, the axis stored second is renamed" needs both):
            # every order x every tensor reversed (quick) / x every single
            # tensor permutation (thorough), for networks of <= 3 tensors
            for o in orders_for(base["nt"], tier):
                for i, r in enumerate(base["n_xt"]):
                    ps = perms_for(r, "quick") if tier == "thorough" else ([tuple(range(r))[::-1]] if r > 1 else [])
                    for p in ps:
                        variants.append(("ordperm", o, i, p))
    seen_bad = set()
    for v in variants:
        kind = "axis-order" if v[0] in ("perm", "perm2", "permx", "aperm", "rev") else "order-x-axis" if v[0] == "ordperm" else "insertion-order"
        if kind in seen_bad or (kind == "order-x-axis" and seen_bad):
            continue
        r = run_plain(ent, rname, v, readonly=False)
        n_runs += 1
        if plain_exc is not None:
            if r["status"] == "ok":
                seen_bad.add(kind)
                res.append(
                    table.bad(
                        core.problem(
                            "%s.%s on %s raises %s(%s) as built but succeeds once storage variant %r is applied" % (ent["owner"], name, rname, type(plain_exc).__name__, str(plain_exc)[:120], v),
                            **_sig(ent, rname, kind, how="raises-as-built", exc=type(plain_exc).__name__),
                        ),
                        sub=kind,
                    )
                )
            continue
        if r["status"] == "exc":
            seen_bad.add(kind)
            res.append(
                table.bad(
                    core.problem(
                        "%s.%s on %s raises %s(%s) once storage variant %r is applied (fine as built)" % (ent["owner"], name, rname, type(r["exc"]).__name__, str(r["exc"])[:120], v),
                        **_sig(ent, rname, kind, how="raises", exc=type(r["exc"]).__name__),
                    ),
                    sub=kind,
                )
            )
            continue
        if "unordered" in flags:
            d = diff_labelled(unordered(base["snapL"]), unordered(r["snapL"]), mode)
        else:
            d = diff_labelled(base["snapL"], r["snapL"], mode)
        if d:
            seen_bad.add(kind)
            res.append(
                table.bad(
                    core.problem("%s.%s on %s: result depends on storage variant %r: %s" % (ent["owner"], name, rname, v, d[1]), **_sig(ent, rname, kind, how="differs", field=d[0])),
                    sub=kind,
                )
            )
    if plain_exc is not None:
        if not any(r["st"] == "bad" for r in res):
            res.append(table.rejected("%s:%s:%s" % (name, rname, type(plain_exc).__name__), sub="plain"))
        return res
    if not any(r["st"] == "bad" for r in res):
        res.append(
            table.ok(
                key=(ent["owner"], name, ent["label"], rname),
                nontrivial=True,
                outcome="%s:%s" % (base["snap"]["k"], "pair" if ent["inplace"] else "plain-only"),
                evals=n_runs,
            )
        )
    return res


def alias_cell(cell, common):
    """Static half of the spelling check, exhaustive over reflection: the
    in-place alias ``f_`` visible on class C must be functools.partialmethod of
    the very function that C's ``f`` resolves to, with inplace=True added."""
    import functools

    from . import c03_dom as dom

    cls = dom.all_classes()[cell["cls"]]
    p = cell["name"]

    def definer(name):
        for k in cls.__mro__:
            if name in vars(k):
                return k
        return None

    dp, di = definer(p), definer(p + "_")
    raw_p, raw_i = vars(dp)[p], vars(di)[p + "_"]
    if isinstance(raw_p, (staticmethod, classmethod)):
        raw_p = raw_p.__func__
    if not isinstance(raw_i, functools.partialmethod):
        return table.rejected("alias-not-partialmethod:%s.%s_" % (di.__name__, p))
    fp, kp = (raw_p.func, dict(raw_p.keywords)) if isinstance(raw_p, functools.partialmethod) else (raw_p, {})
    fi, ki = raw_i.func, dict(raw_i.keywords)
    if isinstance(fi, (staticmethod, classmethod)):
        fi = fi.__func__
    want = dict(kp, inplace=True)
    if fi is not fp or ki != want:
        return table.bad(
            core.problem(
                "%s.%s_ (defined on %s) is an alias of %s%r, but %s.%s resolves to %s.%s: the two spellings run different code"
                % (cls.__name__, p, di.__name__, getattr(fi, "__qualname__", fi), ki, cls.__name__, p, dp.__name__, p),
                entry=p,
                owner=dp.__name__,
                check="alias-target",
                inplace_owner=di.__name__,
            )
        )
    return table.ok(key=(dp.__name__, p, di.__name__), nontrivial=True, outcome="alias:consistent")


class _Watchdog(BaseException):
    pass


def _alarm(signum, frame):
    raise _Watchdog()


WATCHDOG_S = 300


def cell_fn(cell, common):
    """One (entry, receiver) cell under a per-cell time limit: a cell that
    does not finish (only seen with broken code: e.g. a non-in-place retag that
    mutates makes boundary contraction loop forever) is reported as a
    'watchdog' rejection, which run() turns into a cap / harness error - never
    into a VIOLATION (DESIGN 2.1)."""
    import signal
    import threading

    from . import c03_dom as dom

    ent = dom.entry(cell["e"], cell["r"])
    dom.seed_everything()
    limit = float((common or {}).get("watchdog", WATCHDOG_S))
    use = threading.current_thread() is threading.main_thread() and hasattr(signal, "setitimer")
    if use:
        old = signal.signal(signal.SIGALRM, _alarm)
        signal.setitimer(signal.ITIMER_REAL, limit)
    try:
        return evaluate(ent, cell["r"], (common or {}).get("tier", "quick"))
    except _Watchdog:
        return table.rejected("watchdog:%s:%s" % (cell["e"], cell["r"]), sub="watchdog")
    finally:
        if use:
            signal.setitimer(signal.ITIMER_REAL, 0)
            signal.signal(signal.SIGALRM, old)


# --------------------------------------------------------------------------- #
#                                    run                                      #
# --------------------------------------------------------------------------- #


def run(ctx):
    from . import c03_dom as dom

    tier = ctx.tier
    only = ctx.opts.get("only")
    cells = []
    for ent in dom.entries():
        if only and only not in ent["name"]:
            continue
        for r in ent["recvs"]:
            if tier == "quick" and (ent.get("thorough_only") or r in dom.THOROUGH_RECEIVERS) and not ent.get("quick_too"):
                continue
            cells.append({"e": ent["id"], "r": r})
    ctx.rule = (
        "one cell = (public method pair / inplace= method / operator, argument recipe, receiver); distinct = "
        "(owner class, method, recipe label, receiver); each cell runs the plain call on read-only fingerprinted "
        "inputs, the in-place spelling on a copy, every single-tensor axis permutation (+all reversed) and the "
        "insertion orders; non-trivial = the plain call succeeded and every variant was compared"
    )
    cov = dom.coverage_report()
    ctx.bounds = {
        "tier": tier,
        "entries": len({c["e"] for c in cells}),
        "cells": len(cells),
        "receivers": sorted({c["r"] for c in cells}),
        "axis_permutations": "all for rank<=3%s; reversal+rotation+adjacent swaps above; one tensor at a time + all reversed%s"
        % (" and 4" if tier == "thorough" else "", "; + every pair of receiver tensors, and every (receiver tensor, argument tensor) pair, permuted at once with every pair of those permutations" if tier == "thorough" else ""),
        "order_x_axis": "networks of 2-3 tensors: every insertion order x %s" % ("every single-tensor permutation" if tier == "thorough" else "each tensor reversed"),
        "insertion_orders": "all for n<=3%s; %s above" % (" and 4" if tier == "thorough" else "", "reversal, all rotations, all adjacent swaps" if tier == "thorough" else "reversal+rotation"),
    }
    ctx.notes["discovered_pairs"] = cov["n_pairs"]
    ctx.notes["covered_pairs"] = cov["n_covered"]
    ctx.notes["uncovered_pairs"] = cov["uncovered"]
    ctx.notes["exemptions"] = dom.EXEMPTIONS
    ctx.assumptions += [
        "argument domains are finite hand-written recipes per method name (documented domain only)",
        "semantic equality is dense (numpy einsum of the result), receivers stay <= 2^14 dense entries",
        "containers documented as in/out (info=, gauges=, cache=, messages=) are exempt from the purity fingerprint",
        "gauge-dependent routines (QR/SVD based) are compared by class, properties, skeleton and dense value only",
    ]
    acells = []
    for cname, cls in sorted(dom.all_classes().items()):
        names = [n for n in dir(cls) if not n.startswith("_")]
        for n in sorted(names):
            if n.endswith("_") and n[:-1] in names and not only:
                acells.append({"cls": cname, "name": n[:-1]})
    table.run(ctx, "alias_cell", acells, name="class x pair (static alias target)", chunk=256)
    ctx.bounds["alias_cells"] = len(acells)
    ctx.bounds["alias_classes"] = sorted(dom.all_classes())
    table.run(ctx, "cell_fn", cells, common={"tier": tier, "watchdog": float(ctx.opts.get("watchdog", WATCHDOG_S))}, name="method x recipe x receiver", chunk=2)
    hung = sorted(k for k in ctx.rejections if k.startswith("watchdog:"))
    if hung:
        ctx.cap("per-cell watchdog (%d s) hit in: %s" % (WATCHDOG_S, ", ".join(hung)))
        print("HARNESS-WATCHDOG property=C03 cells did not finish: %s" % ", ".join(hung))
        if not ctx.viol:
            raise core.HarnessError("per-cell watchdog hit and no violation recorded: " + ", ".join(hung))
    ctx.subproducts += ["method x recipe x receiver x {purity, spelling, axis permutations, insertion orders} complete for the %s tier table" % tier]


def replay(case):
    return table.replay(sys.modules[__name__], case)

"""C15 - Kronecker / embedding / permutation / partial-trace algebra.

TableExplorer, bounded-exhaustive over subsystem dimension lists (DESIGN.md
section 3, C15).  Every table below is a complete enumeration of a stated
finite space on the REAL quimb routines; the oracle is plain numpy
(``mc.ref``: ``np.kron`` chains, reshape/transpose, einsum partial trace).

Tables (each is one ``table.run`` with its own counters in the evidence):

  kron        kron / kronpow / ``&`` for every dims list x operand variant
              (dense, ndarray, every sparse format, mixed, coo_build,
              parallel, stype) x operand kind (op, ket, bra, ket(x)op), and
              EVERY row-ownership range 0 <= ri < rf <= D
  ikron       ikron: single / overlay / multi / cyclic / span / auto(-1)
              placement x ordered index subsets x formats x options, and
              every ownership range
  grid        dim_map (1-D, 2-D, n-D; cyclic / trim / both / neither) against
              an independent wrap/trim model, then ikron / partial_trace on
              nested dims with coordinates
  dimcompress dim_compress against its operational meaning
  pkron       pkron for every ordered index subset (permute-then-embed)
  permute     permute for every permutation x ket/bra/dop x format, and
              permute(embed) == embed on the permuted subsystems
  ptr         partial_trace dense / sparse / ket shortcut for every ordered
              keep subset x format, ket == projector, and the adjoint identity
              Tr[embed(A) rho] = Tr[A ptr(rho)]
  itrace      itrace for every sequence of disjoint axis pairs
  ptranspose  calc.partial_transpose for every subsystem subset
  ham         Hamiltonian builders: full operator against an independent
              formula, sparse == dense, and every ownership range
  basis       basis_vec ownership

Conventions established on the real code (not defects):
  * ``partial_trace`` treats ``keep`` as a set (the repository's own suite has
    ``test_partial_trace_order_doesnt_matter``): the reference keeps the
    subsystems in ascending order whatever the order of ``keep``.
  * the sparse partial trace assumes a Hermitian operator (it mirrors the
    upper triangle); the documented input is a ket or density operator, so
    only PSD trace-one operators are fed to ``partial_trace``.
  * ``ikron`` sorts (index, operator) pairs: operator j goes to ``inds[j]``
    (cycled), whatever the order of ``inds``.
  * a 1x1 array is a ket to ``isket``: total dimension 1 is excluded.
  * ``stype=`` / ``coo_build=`` are only passed together with sparse operands
    (documented: "if sparse" / "only for sparse matrices in the first place").
"""

from __future__ import annotations

import itertools
import sys

import numpy as np

from .. import core, table, ref
from ..alphabet import dims_lists, fill

FMTS = ("csr", "csc", "coo", "bsr")
RTOL = 1e-9
ATOL = 1e-13

_Q = {}


def _qu():
    """Import quimb lazily (workers) and open the par_reduce seam: ./check
    pins QUIMB_NUM_THREAD_WORKERS=1, which turns ``parallel=True`` into a
    plain functools.reduce; give par_reduce two threads so that the pairing
    tree of the real parallel path is what is exercised (kron is not
    commutative, so its order matters)."""
    if "qu" not in _Q:
        import quimb
        import quimb.core as qc

        try:
            if qc.par_reduce.__defaults__ == (1,):
                qc.par_reduce.__defaults__ = (2,)
        except Exception:  # pragma: no cover - seam is best effort
            pass
        _Q["qu"] = quimb
    return _Q["qu"]


# --------------------------------------------------------------------------- #
#                                   helpers                                   #
# --------------------------------------------------------------------------- #


def _sp():
    import scipy.sparse as sp

    return sp


def _dense(x):
    sp = _sp()
    return np.asarray(x.toarray()) if sp.issparse(x) else np.asarray(x)


def _tl(x):
    """nested tuples -> nested lists (replayed cells arrive tuplified)."""
    if isinstance(x, (list, tuple)):
        return [_tl(v) for v in x]
    return x


def _tt(x):
    if isinstance(x, (list, tuple)):
        return tuple(_tt(v) for v in x)
    return x


def _prod(xs):
    p = 1
    for x in xs:
        p *= int(x)
    return p


def _gen(shape, key, dtype="complex128", holes=False):
    """generic (non-Hermitian) data; ``holes`` zeroes ~1/3 of the entries so
    that sparse containers really have structure."""
    shape = tuple(int(s) for s in shape)
    x = fill("generic", shape, dtype, key=("c15",) + tuple(key))
    if holes and x.size > 2:
        m = fill("generic", shape, "float64", key=("c15mask",) + tuple(key)) > -0.3
        if m.any():
            x = x * m
    return x


def _psd(D, key, holes=False):
    """density operator: PSD, trace one, complex (rho^T != rho)."""
    r = max(2, (D + 1) // 2)
    b = _gen((D, r), ("psd",) + tuple(key), holes=holes)
    rho = b @ b.conj().T
    return rho / np.trace(rho).real


def _ket(D, key, holes=False):
    v = _gen((D, 1), ("ket",) + tuple(key), holes=holes)
    return v / np.linalg.norm(v)


def _as(x, fmt):
    """container: 'dense' (qarray), 'nd' (plain ndarray) or a sparse format."""
    if fmt == "dense":
        return _qu().qarray(x)
    if fmt == "nd":
        return np.array(x)
    return _sp().csr_matrix(x).asformat(fmt)


def _is_sparse_fmt(fmt):
    return fmt in FMTS


QUICK_LEN4 = ((2, 2, 2, 2), (1, 2, 3, 2), (2, 1, 1, 3), (3, 2, 1, 2), (2, 3, 2, 1))


def _dl(tier, minlen=1, maxD=36):
    """the dims lists of a tier: quick = every tuple over {1,2,3} of length
    <= 3 plus five named length-4 lists; thorough = every tuple over {1,2,3}
    of length <= 4 and every tuple over {1,..,5} of length <= 3 (total
    dimension 2..maxD)."""
    if tier == "quick":
        out = list(dims_lists((1, 2, 3), maxlen=3, maxD=maxD, minlen=minlen)) + [d for d in QUICK_LEN4 if _prod(d) <= maxD]
    else:
        out = list(dims_lists((1, 2, 3), maxlen=4, maxD=maxD, minlen=minlen))
        seen = set(out)
        for d in dims_lists((1, 2, 3, 4, 5), maxlen=3, maxD=maxD, minlen=minlen):
            if d not in seen:
                seen.add(d)
                out.append(d)
    return [tuple(d) for d in out if _prod(d) >= 2]


def _all_ranges(D):
    return [(ri, rf) for ri in range(D) for rf in range(ri + 1, D + 1)]


def _runs(n, marked):
    """maximal runs of marked / unmarked positions: [(flag, [positions])]"""
    out = []
    for i in range(n):
        f = i in marked
        if out and out[-1][0] == f:
            out[-1][1].append(i)
        else:
            out.append((f, [i]))
    return out


def _unit_run_root(dims, marked):
    """Structural fact of (dims, marked) behind the dim_compress finding: a
    maximal run of marked (or of unmarked) subsystems whose total dimension
    is 1 - other than a leading unmarked one, which is dropped harmlessly."""
    runs = _runs(len(dims), set(marked))
    for k, (f, pos) in enumerate(runs):
        if _prod(dims[i] for i in pos) == 1 and (f or k > 0):
            return "unit-run"
    return "none"


class _Acc:
    """collects the results of one cell (list of table.ok/bad/rejected)."""

    def __init__(self, entry, base_sig, cellkey):
        self.entry = entry
        self.base = dict(base_sig)
        self.cellkey = cellkey
        self.res = []

    def bad(self, sub, fail, msg, **extra):
        sig = dict(self.base)
        sig.update(extra)
        sig["entry"] = sig.get("entry", self.entry)
        sig["fail"] = fail
        self.res.append(table.bad(core.problem("%s %s [%s]: %s" % (sig["entry"], self.cellkey, sub, msg), **sig), sub=sub))

    def ok(self, sub, nontrivial=True, outcome=None):
        self.res.append(table.ok(key=(self.cellkey, sub), nontrivial=nontrivial, outcome=None if outcome is None else "%s:%s" % (self.entry, outcome), sub=sub))

    def rej(self, what, sub):
        self.res.append(table.rejected(what, sub=sub))

    def check(self, sub, f, exp, nontrivial=True, outcome=None, want_fmt=None, want_dense=False, **extra):
        """evaluate f() on the real code and compare with the reference."""
        try:
            got = f()
        except Exception as ex:  # documented domain: nothing may raise
            self.bad(sub, "exc:" + type(ex).__name__, "raised %s: %s" % (type(ex).__name__, str(ex)[:160]), **extra)
            return None
        try:
            g = _dense(got)
        except Exception as ex:
            self.bad(sub, "type", "result not array-like: %r (%s)" % (type(got), ex), **extra)
            return None
        exp = np.asarray(exp)
        if g.shape != exp.shape:
            self.bad(sub, "shape", "shape %s, expected %s" % (g.shape, exp.shape), **extra)
            return None
        if not ref.close(g, exp, RTOL, ATOL):
            self.bad(sub, "mismatch", "relerr %.3g vs reference" % ref.relerr(g, exp), **extra)
            return None
        if want_fmt is not None and getattr(got, "format", None) != want_fmt:
            self.bad(sub, "format", "format %r, requested stype %r" % (getattr(got, "format", None), want_fmt), **extra)
            return None
        if want_dense and _sp().issparse(got):
            self.bad(sub, "format", "dense operands gave a sparse result", **extra)
            return None
        self.ok(sub, nontrivial, outcome)
        return got

    def expect_reject(self, sub, f, exc, what, **extra):
        try:
            f()
        except exc as ex:
            if isinstance(ex, np.linalg.LinAlgError):
                self.bad(sub, "exc:LinAlgError", "LinAlgError instead of a documented rejection", **extra)
            else:
                self.rej(what, sub)
            return
        except Exception as ex:
            self.bad(sub, "exc:" + type(ex).__name__, "expected %s, raised %s: %s" % (exc.__name__, type(ex).__name__, str(ex)[:120]), **extra)
            return
        self.bad(sub, "no-rejection", "out-of-domain request accepted silently (expected %s)" % exc.__name__, **extra)


# --------------------------------------------------------------------------- #
#                              table 1: kron                                  #
# --------------------------------------------------------------------------- #

KRON_VARIANTS_OP = (
    "dense",
    "nd",
    "csr",
    "csc",
    "coo",
    "bsr",
    "mixed-ds",
    "mixed-sd",
    "fmtmix",
    "coo_build",
    "parallel",
    "parallel-csr",
    "stype-csr",
    "stype-csc",
    "stype-coo",
    "stype-bsr",
    "stype-csc+coo_build",
    "amp",
)


def _kron_operands(raw, var):
    """operands + kron kwargs + (want_fmt, want_dense, uses_bsr)"""
    kw = {}
    want_fmt = None
    want_dense = False
    uses_bsr = False
    n = len(raw)
    if var in ("dense", "parallel", "amp"):
        ops = [_as(o, "dense") for o in raw]
        want_dense = True
        if var == "parallel":
            kw["parallel"] = True
    elif var == "nd":
        ops = [_as(o, "nd") for o in raw]
        want_dense = True
    elif var in FMTS:
        ops = [_as(o, var) for o in raw]
        uses_bsr = var == "bsr"
    elif var == "mixed-ds":
        ops = [_as(o, "dense" if i % 2 == 0 else "csr") for i, o in enumerate(raw)]
        uses_bsr = n > 1  # scipy's kron(sparse, dense) is built as bsr
    elif var == "mixed-sd":
        ops = [_as(o, "csr" if i % 2 == 0 else "dense") for i, o in enumerate(raw)]
        uses_bsr = n > 1
    elif var == "fmtmix":
        ops = [_as(o, ("csr", "csc", "coo")[i % 3]) for i, o in enumerate(raw)]
    elif var == "coo_build":
        ops = [_as(o, "csr") for o in raw]
        kw["coo_build"] = True
    elif var == "parallel-csr":
        ops = [_as(o, "csr") for o in raw]
        kw["parallel"] = True
    elif var.startswith("stype-"):
        spec = var[len("stype-") :]
        ops = [_as(o, "csr") for o in raw]
        if spec.endswith("+coo_build"):
            spec = spec[: -len("+coo_build")]
            kw["coo_build"] = True
        kw["stype"] = spec
        want_fmt = spec
    elif var in ("pow-dense", "pow-csr"):
        ops = None
    else:
        raise KeyError(var)
    return ops, kw, want_fmt, want_dense, uses_bsr


def kron_cell(cell, common):
    qu = _qu()
    dims = tuple(cell["dims"])
    var = cell["var"]
    q = cell["q"]
    own = bool(cell["own"])
    n = len(dims)
    holes = var not in ("dense", "nd", "parallel", "amp", "pow-dense")
    shapes = []
    for i, d in enumerate(dims):
        if q == "op":
            shapes.append((d, d))
        elif q == "ket":
            shapes.append((d, 1))
        elif q == "bra":
            shapes.append((1, d))
        elif q == "ketop":
            shapes.append((d, 1) if i % 2 == 0 else (d, d))
        else:
            raise KeyError(q)
    acc = _Acc("kron", {"sparse": var not in ("dense", "nd", "parallel", "amp", "pow-dense")}, "dims=%s var=%s q=%s" % (dims, var, q))
    if var.startswith("pow-"):
        a = _gen(shapes[0], ("kron", dims, q, "pow"), holes=holes)
        raw = [a] * n
        fmt = var[4:]
        aa = _as(a, fmt)
        full = ref.kron(*raw)

        def call(**kw):
            return qu.kronpow(aa, n, **kw)

        want_fmt, want_dense, uses_bsr = None, fmt == "dense", False
        entry = "kronpow"
    else:
        raw = [_gen(s, ("kron", dims, q, i), holes=holes) for i, s in enumerate(shapes)]
        full = ref.kron(*raw)
        ops, kw0, want_fmt, want_dense, uses_bsr = _kron_operands(raw, var)
        entry = "kron"
        if var == "amp":
            import functools
            import operator

            def call(**kw):
                assert not kw
                return functools.reduce(operator.and_, ops)

        else:

            def call(**kw):
                return qu.kron(*ops, **kw0, **kw)

    rows = full.shape[0]
    acc.check("full", lambda: call(), full, nontrivial=n > 1, outcome="full", want_fmt=want_fmt, want_dense=want_dense, entry=entry, own=False, root="none")
    if own and var != "amp":
        root = "bsr-sliced" if uses_bsr else "none"
        for ri, rf in _all_ranges(rows):
            acc.check(
                "own=(%d,%d)" % (ri, rf),
                lambda: call(ownership=(ri, rf)),
                full[ri:rf],
                nontrivial=(rf - ri) < rows,
                outcome="rows",
                want_fmt=want_fmt,
                want_dense=want_dense,
                entry=entry,
                own=True,
                root=root,
            )
        # documented rejection: ranges outside [0, D]
        for ri, rf in ((rows, rows + 1), (0, rows + 1), (-1, rows)):
            acc.expect_reject("own=(%d,%d)" % (ri, rf), lambda: call(ownership=(ri, rf)), ValueError, "kron:ownership-out-of-range:ValueError", entry=entry, own=True, root="range-check")
    return acc.res


def kron_cells(tier):
    cells = []
    for dims in _dl(tier):
        D = _prod(dims)
        own = D <= 24
        for var in KRON_VARIANTS_OP:
            if var == "amp" and len(dims) < 2:
                continue
            cells.append({"dims": dims, "var": var, "q": "op", "own": own})
        if len(set(dims)) == 1 and len(dims) >= 2:
            for var in ("pow-dense", "pow-csr"):
                cells.append({"dims": dims, "var": var, "q": "op", "own": own})
        for q in ("ket", "ketop"):
            for var in ("dense", "csr", "coo", "csc", "stype-coo", "parallel"):
                cells.append({"dims": dims, "var": var, "q": q, "own": own})
        for var in ("dense", "csr", "coo"):
            cells.append({"dims": dims, "var": var, "q": "bra", "own": True})
    return cells


# --------------------------------------------------------------------------- #
#                              table 2: ikron                                 #
# --------------------------------------------------------------------------- #

IKRON_OPTS = {
    "default": {},
    "sparse": {"sparse": True},
    "stype-csr": {"stype": "csr"},
    "stype-csc": {"stype": "csc"},
    "stype-coo": {"stype": "coo"},
    "stype-bsr": {"stype": "bsr"},
    "coo_build": {"coo_build": True},
    "parallel": {"parallel": True},
    # the combination every Hamiltonian builder uses
    "ham": {"sparse": True, "stype": "coo", "coo_build": True},
    "sparse+stype-csc": {"sparse": True, "stype": "csc"},
}


def _ikron_build(cell):
    """-> (ops_arg, dims_arg, inds_arg, expected dense matrix, any_sparse_operand)"""
    dims = [int(d) for d in cell["dims"]]
    mode = cell["mode"]
    inds = [int(i) for i in cell["inds"]]
    fmt = cell["fmt"]
    dtype = cell.get("dtype", "complex128")
    holes = _is_sparse_fmt(fmt) or fmt.startswith("mixed")
    key = ("ikron", tuple(dims), mode, tuple(inds), dtype)
    n = len(dims)

    def mk(x, j=0):
        if fmt == "mixed":
            return _as(x, "csr" if j % 2 else "dense")
        return _as(x, fmt)

    if mode == "auto":
        # dims contains -1 at the target positions; sizes of the ops given
        sizes = [int(s) for s in cell["sizes"]]
        raw = [_gen((s, s), key + (j,), dtype, holes) for j, s in enumerate(sizes)]
        at = dict(zip(inds, raw))
        factors = [at[i] if i in at else np.eye(dims[i]) for i in range(n)]
        exp = ref.kron(*factors)
        ops_arg = [mk(o, j) for j, o in enumerate(raw)] if len(raw) > 1 else mk(raw[0])
        return ops_arg, dims, inds, exp
    if mode == "single":
        (i,) = inds
        a = _gen((dims[i], dims[i]), key, dtype, holes)
        factors = [a if k == i else np.eye(dims[k]) for k in range(n)]
        inds_arg = i if cell.get("intind", True) else [i]
        return mk(a), dims, inds_arg, ref.kron(*factors)
    if mode == "overlay":
        d = dims[inds[0]]
        a = _gen((d, d), key, dtype, holes)
        factors = [a if k in inds else np.eye(dims[k]) for k in range(n)]
        return mk(a), dims, inds, ref.kron(*factors)
    if mode in ("multi", "cyclic"):
        nops = int(cell.get("nops", len(inds)))
        raw = [_gen((dims[inds[j]], dims[inds[j]]), key + (j,), dtype, holes) for j in range(nops)]
        at = {ix: raw[j % nops] for j, ix in enumerate(inds)}
        factors = [at[k] if k in at else np.eye(dims[k]) for k in range(n)]
        return [mk(o, j) for j, o in enumerate(raw)], dims, inds, ref.kron(*factors)
    if mode == "span":
        sz = _prod(dims[i] for i in inds)
        a = _gen((sz, sz), key, dtype, holes)
        return mk(a), dims, inds, ref.embed(a, dims, sorted(inds))
    raise KeyError(mode)


def ikron_cell(cell, common):
    qu = _qu()
    fmt = cell["fmt"]
    optname = cell.get("opt", "default")
    kw = dict(IKRON_OPTS[optname])
    ops_arg, dims, inds_arg, exp = _ikron_build(cell)
    acc = _Acc(
        "ikron",
        {"mode": cell["mode"], "sparse": _is_sparse_fmt(fmt) or fmt == "mixed" or bool(kw.get("sparse"))},
        "dims=%s mode=%s inds=%s fmt=%s opt=%s%s" % (tuple(dims), cell["mode"], tuple(cell["inds"]), fmt, optname, (" nops=%s" % cell["nops"]) if "nops" in cell else ""),
    )
    sparse_in = _is_sparse_fmt(fmt) or fmt == "mixed"
    want_fmt = kw.get("stype") if (sparse_in or kw.get("sparse")) else None
    want_dense = (not sparse_in) and not kw.get("sparse")
    D = exp.shape[0]
    # with dense operands, sparse=True and no identity padding quimb returns a
    # dense array (container type is not part of the property): only assert
    # the format when the operands themselves are sparse or padding exists
    if want_fmt is not None and not sparse_in:
        padded = _prod(d for i, d in enumerate(dims) if d > 0 and i not in set(cell["inds"])) > 1
        if not padded:
            want_fmt = None
            kw.pop("stype", None)
            kw.pop("coo_build", None)
    acc.check("full", lambda: qu.ikron(ops_arg, dims, inds_arg, **kw), exp, nontrivial=True, outcome=cell["mode"], want_fmt=want_fmt, want_dense=want_dense, own=False, root="none")
    if cell.get("own"):
        # a bsr operand, or a dense operand next to a sparse identity (scipy
        # builds kron(sparse, dense) as bsr), makes the product a bsr matrix
        root = "bsr-sliced" if (fmt in ("bsr", "mixed") or (fmt in ("dense", "nd") and kw.get("sparse"))) else "none"
        for ri, rf in _all_ranges(D):
            acc.check(
                "own=(%d,%d)" % (ri, rf),
                lambda: qu.ikron(ops_arg, dims, inds_arg, ownership=(ri, rf), **kw),
                exp[ri:rf],
                nontrivial=(rf - ri) < D,
                outcome="rows",
                want_fmt=want_fmt,
                want_dense=want_dense,
                own=True,
                root=root,
            )
    return acc.res


def _contig_runs(n, minlen=2):
    for a in range(n):
        for b in range(a + minlen, n + 1):
            yield tuple(range(a, b))


def ikron_cells(tier):
    quick = tier == "quick"
    cells = []
    for dims in _dl(tier):
        n = len(dims)
        D = _prod(dims)
        # ---- A: placement (every ordered subset), dense and csr ---------- #
        for i in range(n):
            for fmt in ("dense", "nd") + FMTS:
                cells.append({"dims": dims, "mode": "single", "inds": (i,), "fmt": fmt})
            cells.append({"dims": dims, "mode": "single", "inds": (i,), "fmt": "dense", "intind": False})
            cells.append({"dims": dims, "mode": "single", "inds": (i,), "fmt": "dense", "dtype": "float64"})
            for opt in IKRON_OPTS:
                if opt == "default":
                    continue
                if opt in ("sparse", "ham", "sparse+stype-csc", "parallel"):
                    cells.append({"dims": dims, "mode": "single", "inds": (i,), "fmt": "dense", "opt": opt})
                cells.append({"dims": dims, "mode": "single", "inds": (i,), "fmt": "csr", "opt": opt})
        for k in range(2, min(n, 3) + 1):
            for inds in itertools.permutations(range(n), k):
                dd = [dims[i] for i in inds]
                for fmt in ("dense", "csr", "mixed"):
                    cells.append({"dims": dims, "mode": "multi", "inds": inds, "fmt": fmt})
                if inds == tuple(sorted(inds)):
                    for opt in ("ham", "stype-csc", "coo_build", "parallel"):
                        cells.append({"dims": dims, "mode": "multi", "inds": inds, "fmt": "csr", "opt": opt})
                    cells.append({"dims": dims, "mode": "multi", "inds": inds, "fmt": "coo"})
                    cells.append({"dims": dims, "mode": "multi", "inds": inds, "fmt": "dense", "opt": "sparse"})
                if len(set(dd)) == 1:
                    for fmt in ("dense", "csr"):
                        cells.append({"dims": dims, "mode": "overlay", "inds": inds, "fmt": fmt})
                        # a one-element list of operators is cycled over all inds
                        cells.append({"dims": dims, "mode": "cyclic", "inds": inds, "fmt": fmt, "nops": 1})
                if k == 3 and dd[0] == dd[2]:
                    for fmt in ("dense", "csr"):
                        cells.append({"dims": dims, "mode": "cyclic", "inds": inds, "fmt": fmt, "nops": 2})
        if n == 4:
            inds = (0, 1, 2, 3)
            for fmt in ("dense", "csr"):
                cells.append({"dims": dims, "mode": "multi", "inds": inds, "fmt": fmt})
                if dims[0] == dims[2] and dims[1] == dims[3]:
                    cells.append({"dims": dims, "mode": "cyclic", "inds": inds, "fmt": fmt, "nops": 2})
        for run in _contig_runs(n):
            dd = [dims[i] for i in run]
            sz = _prod(dd)
            if sz < 2 or all(d == sz for d in dd):
                continue  # would be read as an overlay
            for order in (run, run[::-1]):
                for fmt in ("dense", "csr"):
                    cells.append({"dims": dims, "mode": "span", "inds": order, "fmt": fmt})
            cells.append({"dims": dims, "mode": "span", "inds": run, "fmt": "csr", "opt": "ham"})
            cells.append({"dims": dims, "mode": "span", "inds": run, "fmt": "coo"})
        # ---- B: ownership, every range ---------------------------------- #
        if D <= 24:
            ofmts = [("dense", "default"), ("csr", "default"), ("csr", "ham"), ("dense", "sparse")]
            if not quick:
                ofmts += [("coo", "default"), ("csc", "default"), ("bsr", "default"), ("csr", "stype-csc"), ("dense", "parallel")]
            else:
                ofmts += [("bsr", "default")]
            for fmt, opt in ofmts:
                for i in range(n):
                    cells.append({"dims": dims, "mode": "single", "inds": (i,), "fmt": fmt, "opt": opt, "own": True})
                for inds in itertools.combinations(range(n), 2):
                    cells.append({"dims": dims, "mode": "multi", "inds": inds, "fmt": fmt, "opt": opt, "own": True})
                    if dims[inds[0]] == dims[inds[1]] and fmt in ("dense", "csr"):
                        cells.append({"dims": dims, "mode": "overlay", "inds": inds, "fmt": fmt, "opt": opt, "own": True})
                for run in _contig_runs(n):
                    dd = [dims[i] for i in run]
                    sz = _prod(dd)
                    if sz < 2 or all(d == sz for d in dd):
                        continue
                    cells.append({"dims": dims, "mode": "span", "inds": run, "fmt": fmt, "opt": opt, "own": True})
    # ---- C: automatic placement with dims == -1 -------------------------- #
    for tmpl, inds in (((2, -1), (1,)), ((-1, 3), (0,)), ((2, -1, 3), (1,)), ((-1, 2, -1), (0, 2)), ((2, -1, 3, -1), (1, 3)), ((-1, -1), (0, 1)), ((1, -1, 2), (1,))):
        for sizes in itertools.product((1, 2, 3), repeat=len(inds)):
            if _prod(sizes) * _prod(d for d in tmpl if d > 0) < 2:
                continue
            for fmt in ("dense", "csr"):
                cells.append({"dims": tmpl, "mode": "auto", "inds": inds, "sizes": sizes, "fmt": fmt})
    return cells


# --------------------------------------------------------------------------- #
#                 table 3: dim_map and nested (grid) dimensions               #
# --------------------------------------------------------------------------- #

GRID_DIMS = {
    (1, 2): [[2, 3]],
    (2, 1): [[2], [3]],
    (2, 2): [[2, 3], [3, 2]],
    (1, 3): [[2, 3, 2]],
    (3, 1): [[3], [2], [2]],
    (2, 3): [[2, 1, 2], [1, 3, 2]],
    (3, 2): [[2, 1], [3, 2], [1, 2]],
    (3, 3): [[2, 1, 1], [1, 2, 1], [2, 1, 3]],
    (2, 2, 2): [[[2, 1], [1, 2]], [[3, 1], [1, 2]]],
    (1, 2, 3): [[[2, 1, 2], [1, 3, 1]]],
    (2, 1, 2): [[[2, 3]], [[1, 2]]],
    (2, 2, 1, 2): [[[[2, 1]], [[1, 2]]], [[[1, 3]], [[2, 1]]]],
}


def _ref_dim_map(shape, coos, cyclic, trim):
    """independent model: -> list of flat indices, or None if a coordinate is
    out of range and neither cyclic nor trim is requested."""
    out = []
    for c in coos:
        c = [int(v) for v in c]
        if cyclic:
            c = [v % s for v, s in zip(c, shape)]
        elif not all(0 <= v < s for v, s in zip(c, shape)):
            if trim:
                continue
            return None
        out.append(int(np.ravel_multi_index(tuple(c), tuple(shape))))
    return out


def grid_cell(cell, common):
    qu = _qu()
    shape = tuple(int(s) for s in cell["shape"])
    nd = len(shape)
    cyclic, trim = bool(cell["cyclic"]), bool(cell["trim"])
    form = cell.get("form", "list")
    coos = [tuple(int(v) for v in c) for c in cell["coos"]]
    if nd == 1:
        dims_nested = [int(d) for d in cell["dims"]]
    else:
        dims_nested = _tl(cell["dims"]) if "dims" in cell else GRID_DIMS[shape]
    flat = [int(v) for v in np.asarray(dims_nested).ravel()]
    exp_inds = _ref_dim_map(shape, coos, cyclic, trim)
    root = "1d-cyclic+trim" if (nd == 1 and cyclic and trim) else "none"
    acc = _Acc("dim_map", {"ndim": min(nd, 3), "cyclic": cyclic, "trim": trim}, "shape=%s coos=%s cyclic=%s trim=%s form=%s" % (shape, coos, cyclic, trim, form))
    if form == "ndarray":
        dims_arg = np.asarray(dims_nested)
        coos_arg = np.asarray(coos if nd > 1 else [c[0] for c in coos])
    elif form == "tuples":  # 1-D coordinates written as 1-tuples
        dims_arg = dims_nested
        coos_arg = [tuple(c) for c in coos]
    else:
        dims_arg = dims_nested
        coos_arg = [c[0] for c in coos] if nd == 1 else [tuple(c) for c in coos]

    def call_map():
        fd, inds = qu.dim_map(dims_arg, coos_arg, cyclic=cyclic, trim=trim)
        return [int(v) for v in fd], [int(v) for v in inds]

    if exp_inds is None:
        acc.expect_reject("dim_map", call_map, ValueError, "dim_map:out-of-range:ValueError", root=root)
        return acc.res
    try:
        fd, inds = call_map()
    except Exception as ex:
        acc.bad("dim_map", "exc:" + type(ex).__name__, "raised %s: %s" % (type(ex).__name__, str(ex)[:120]), root=root)
        return acc.res
    if fd != flat:
        acc.bad("dim_map", "flat-dims", "flat dims %s expected %s" % (fd, flat), root=root)
        return acc.res
    if inds != exp_inds:
        acc.bad("dim_map", "mismatch", "indices %s expected %s" % (inds, exp_inds), root=root)
        return acc.res
    wrapped = any(not all(0 <= v < s for v, s in zip(c, shape)) for c in coos)
    acc.ok("dim_map", nontrivial=True, outcome="map:" + ("wrapped" if wrapped and cyclic else "trimmed" if wrapped else "inrange"))
    # ---- embedding / tracing on the mapped sites ------------------------- #
    D = _prod(flat)
    if not cell.get("embed") or not exp_inds or len(set(exp_inds)) != len(exp_inds) or D < 2 or D > 64:
        return acc.res
    key = ("grid", shape, tuple(coos), cyclic, trim)
    fmt = cell.get("fmt", "dense")
    holes = _is_sparse_fmt(fmt)
    raw = [_gen((flat[ix], flat[ix]), key + (j,), holes=holes) for j, ix in enumerate(exp_inds)]
    at = dict(zip(exp_inds, raw))
    exp = ref.kron(*[at[k] if k in at else np.eye(flat[k]) for k in range(len(flat))])
    ops = [_as(o, fmt) for o in raw]
    acc.check("ikron(dim_map)", lambda: qu.ikron(ops, *qu.dim_map(dims_arg, coos_arg, cyclic=cyclic, trim=trim)), exp, outcome="ikron-mapped", entry="ikron", mode="dim_map", root="none")
    if not wrapped and not cyclic and not trim and nd > 1:
        # nested dims + coordinates handed to the routines directly
        acc.check("ikron(nested)", lambda: qu.ikron(ops, dims_arg, coos_arg), exp, outcome="ikron-nested", entry="ikron", mode="nested", root="none")
        rho = _psd(D, key, holes=holes)
        keep = sorted(exp_inds)
        pr = _ptr_root(flat, keep, fmt, "dop")
        acc.check("ptr(nested)", lambda: qu.partial_trace(_as(rho, fmt), dims_arg, coos_arg), ref.ptrace(rho, flat, keep), outcome="ptr-nested", entry="partial_trace", mode="nested", sparse=_is_sparse_fmt(fmt), q="dop", root=pr)
        psi = _ket(D, key, holes=holes)
        pr = _ptr_root(flat, keep, fmt, "ket")
        acc.check("ptr-ket(nested)", lambda: qu.partial_trace(_as(psi, fmt), dims_arg, coos_arg), ref.ptrace(psi @ psi.conj().T, flat, keep), outcome="ptr-nested-ket", entry="partial_trace", mode="nested", sparse=_is_sparse_fmt(fmt), q="ket", root=pr)
    return acc.res


def _box(shape, lo, hi):
    return list(itertools.product(*[range(-lo, s + hi) for s in shape]))


def grid_cells(tier):
    quick = tier == "quick"
    cells = []
    flagsets = [(False, False), (True, False), (False, True), (True, True)]
    # ---- 1-D ------------------------------------------------------------- #
    for dims in ((2,), (3, 2), (2, 3, 2), (1, 2, 3, 2)):
        n = len(dims)
        box = list(range(-2, n + 2))
        for cyc, trim in flagsets:
            lists = [(c,) for c in box] + list(itertools.permutations(box, 2))
            if not quick:
                lists += list(itertools.permutations(range(-1, n + 1), 3))
            for cl in lists:
                for form in ("list", "tuples", "ndarray"):
                    if form != "list" and len(cl) > 2:
                        continue
                    cells.append({"shape": (n,), "dims": dims, "coos": [(c,) for c in cl], "cyclic": cyc, "trim": trim, "form": form, "embed": form == "list" and len(cl) <= 2, "fmt": "dense"})
    # ---- 2-D and n-D ------------------------------------------------------ #
    shapes2 = [(1, 2), (2, 1), (2, 2), (1, 3), (3, 1), (2, 3), (3, 2), (3, 3)]
    shapesn = [(2, 2, 2), (1, 2, 3), (2, 1, 2)] + ([] if quick else [(2, 2, 1, 2)])
    for shape in shapes2 + shapesn:
        nd = len(shape)
        big = _prod(shape) >= 8
        box1 = _box(shape, 1, 1) if (quick or nd > 2) else _box(shape, 2, 2)
        inner = _box(shape, 1 if not big else 0, 1)
        for cyc, trim in flagsets:
            for c in box1:
                for form in ("list", "ndarray"):
                    cells.append({"shape": shape, "coos": [c], "cyclic": cyc, "trim": trim, "form": form, "embed": form == "list", "fmt": "dense"})
            pairs = itertools.permutations(inner, 2)
            for cl in pairs:
                cells.append({"shape": shape, "coos": list(cl), "cyclic": cyc, "trim": trim, "form": "list", "embed": True, "fmt": "dense"})
        # in-range only: sparse containers and triples of coordinates
        sites = _box(shape, 0, 0)
        for cl in itertools.chain(((s,) for s in sites), itertools.permutations(sites, 2)):
            for fmt in ("csr",) if quick else ("csr", "csc"):
                cells.append({"shape": shape, "coos": list(cl), "cyclic": False, "trim": False, "form": "list", "embed": True, "fmt": fmt})
        if not quick and len(sites) <= 6:
            for cl in itertools.permutations(sites, 3):
                cells.append({"shape": shape, "coos": list(cl), "cyclic": False, "trim": False, "form": "list", "embed": True, "fmt": "dense"})
    return cells


# --------------------------------------------------------------------------- #
#                          table 4: dim_compress                              #
# --------------------------------------------------------------------------- #


def dimcompress_cell(cell, common):
    qu = _qu()
    dims = [int(d) for d in cell["dims"]]
    inds = [int(i) for i in cell["inds"]]
    form = cell["form"]
    n = len(dims)
    root = _unit_run_root(dims, inds)
    acc = _Acc("dim_compress", {}, "dims=%s inds=%s form=%s" % (tuple(dims), tuple(inds), form))
    arg = inds[0] if form == "int" else (tuple(inds[::-1]) if form == "rev" else tuple(inds))
    try:
        cd, ci = qu.dim_compress(tuple(dims), arg)
        cd = [int(v) for v in cd]
        ci = [int(v) for v in ci]
    except Exception as ex:
        acc.bad("call", "exc:" + type(ex).__name__, "raised %s: %s" % (type(ex).__name__, str(ex)[:120]), root=root)
        return acc.res
    D = _prod(dims)
    # operational meaning: an operator on the marked subsystems embeds to the
    # same full operator through (dims, inds) and through (cdims, cinds)
    sz = _prod(dims[i] for i in inds)
    if any(d < 1 for d in cd) or _prod(cd) != D:
        acc.bad("call", "dims", "compressed dims %s (inds %s) do not multiply to %d" % (cd, ci, D), root=root)
        return acc.res
    if any(not (0 <= i < len(cd)) for i in ci) or _prod(cd[i] for i in ci) != sz:
        acc.bad("call", "marked-size", "compressed dims %s inds %s: marked size != %d" % (cd, ci, sz), root=root)
        return acc.res
    a = _gen((sz, sz), ("dimcompress", tuple(dims), tuple(sorted(inds))))
    e1 = ref.embed(a, dims, sorted(inds))
    e2 = ref.embed(a, cd, sorted(ci))
    if not ref.close(e1, e2, RTOL, ATOL):
        acc.bad("call", "mismatch", "embedding through compressed dims %s inds %s differs" % (cd, ci), root=root)
        return acc.res
    # documented guarantee: marked blocks alternate with unmarked ones
    if ci and ci != list(range(ci[0], len(cd), 2))[: len(ci)] or (ci and (ci[0] > 1 or len(cd) - 1 - ci[-1] > 1)) or (not ci and len(cd) != 1):
        acc.bad("call", "not-alternating", "compressed dims %s inds %s are not alternating" % (cd, ci), root=root)
        return acc.res
    acc.ok("call", nontrivial=len(cd) < n, outcome="blocks=%d" % len(cd))
    return acc.res


def dimcompress_cells(tier):
    cells = []
    maxlen = 4 if tier == "quick" else 5
    for dims in dims_lists((1, 2, 3), maxlen=maxlen, maxD=108):
        if _prod(dims) < 2:
            continue
        n = len(dims)
        for k in range(0, n + 1):
            for inds in itertools.combinations(range(n), k):
                cells.append({"dims": dims, "inds": inds, "form": "tuple"})
                if k >= 2:
                    cells.append({"dims": dims, "inds": inds, "form": "rev"})
                if k == 1:
                    cells.append({"dims": dims, "inds": inds, "form": "int"})
    return cells


# --------------------------------------------------------------------------- #
#                              table 5: pkron                                 #
# --------------------------------------------------------------------------- #

PKRON_OPTS = {
    "default": {},
    "sparse": {"sparse": True},
    "stype-csc": {"stype": "csc"},
    "stype-coo": {"stype": "coo"},
    "coo_build": {"coo_build": True},
}


def pkron_cell(cell, common):
    qu = _qu()
    dims = [int(d) for d in cell["dims"]]
    fmt = cell["fmt"]
    optname = cell.get("opt", "default")
    kw = PKRON_OPTS[optname]
    n = len(dims)
    acc = _Acc("pkron", {"sparse": _is_sparse_fmt(fmt) or bool(kw.get("sparse"))}, "dims=%s fmt=%s opt=%s" % (tuple(dims), fmt, optname))
    kmax = min(n, int(cell.get("kmax", 3)))
    for k in range(1, kmax + 1):
        for inds in itertools.permutations(range(n), k):
            sz = _prod(dims[i] for i in inds)
            a = _gen((sz, sz), ("pkron", tuple(dims), inds), holes=_is_sparse_fmt(fmt))
            exp = ref.embed(a, dims, inds)
            aa = _as(a, fmt)
            srt = inds == tuple(sorted(inds))
            contiguous = srt and inds == tuple(range(inds[0], inds[0] + k))
            acc.check(
                "inds=%s" % (inds,),
                lambda: qu.pkron(aa, dims, inds, **kw),
                exp,
                nontrivial=not contiguous,
                outcome="sorted" if srt else "unsorted",
                want_dense=(not _is_sparse_fmt(fmt)) and optname == "default",
                root="none",
            )
    return acc.res


def pkron_cells(tier):
    quick = tier == "quick"
    cells = []
    for dims in _dl(tier):
        for fmt in ("dense", "nd") + FMTS:
            cells.append({"dims": dims, "fmt": fmt, "kmax": 3 if len(dims) < 4 else 4 if fmt in ("dense", "csr") else 3})
        for opt in PKRON_OPTS:
            if opt == "default":
                continue
            cells.append({"dims": dims, "fmt": "csr", "opt": opt})
        cells.append({"dims": dims, "fmt": "dense", "opt": "sparse"})
    return cells


# --------------------------------------------------------------------------- #
#                             table 6: permute                                #
# --------------------------------------------------------------------------- #


def permute_cell(cell, common):
    qu = _qu()
    dims = [int(d) for d in cell["dims"]]
    q = cell["q"]
    fmt = cell["fmt"]
    n = len(dims)
    D = _prod(dims)
    holes = _is_sparse_fmt(fmt)
    acc = _Acc("permute", {"q": q, "sparse": _is_sparse_fmt(fmt)}, "dims=%s q=%s fmt=%s" % (tuple(dims), q, fmt))
    key = ("permute", tuple(dims), q)
    if q == "ket":
        x = _gen((D, 1), key, holes=holes)
    elif q == "bra":
        x = _gen((1, D), key, holes=holes)
    else:
        x = _gen((D, D), key, holes=holes)
    xx = _as(x, fmt)
    root = "bra" if q == "bra" else "none"
    for perm in itertools.permutations(range(n)):
        exp = ref.permute(x, dims, perm)
        ident = perm == tuple(range(n))
        same = all(dims[p] == 1 or p == i for i, p in enumerate(perm))
        acc.check("perm=%s" % (perm,), lambda: qu.permute(xx, dims, list(perm)), exp, nontrivial=not ident and not same, outcome="identity" if ident else "perm", root=root)
    return acc.res


def permembed_cell(cell, common):
    """permute(embed(A on site i)) == embed(A on the new position of i)."""
    qu = _qu()
    dims = [int(d) for d in cell["dims"]]
    fmt = cell["fmt"]
    n = len(dims)
    holes = _is_sparse_fmt(fmt)
    acc = _Acc("permute-embed", {"sparse": _is_sparse_fmt(fmt)}, "dims=%s fmt=%s" % (tuple(dims), fmt))
    placements = [(i,) for i in range(n)] + list(itertools.combinations(range(n), 2))
    for perm in itertools.permutations(range(n)):
        if perm == tuple(range(n)):
            continue
        ndims = [dims[p] for p in perm]
        for pl in placements:
            raw = [_gen((dims[i], dims[i]), ("permembed", tuple(dims), pl, j), holes=holes) for j, i in enumerate(pl)]
            ops = [_as(o, fmt) for o in raw]
            newpos = [perm.index(i) for i in pl]
            at = dict(zip(newpos, raw))
            exp = ref.kron(*[at[k] if k in at else np.eye(ndims[k]) for k in range(n)])
            sub = "perm=%s sites=%s" % (perm, pl)

            def lhs():
                return qu.permute(qu.ikron(ops, dims, list(pl)), dims, list(perm))

            def rhs():
                return qu.ikron(ops, ndims, newpos)

            got = acc.check(sub + " lhs", lhs, exp, outcome="permute(embed)", root="none")
            got2 = acc.check(sub + " rhs", rhs, exp, outcome="embed(permuted)", root="none")
            del got, got2
    return acc.res


def permute_cells(tier):
    quick = tier == "quick"
    cells = []
    for dims in _dl(tier):
        for q in ("ket", "bra", "dop"):
            for fmt in ("dense", "nd") + FMTS:
                cells.append({"dims": dims, "q": q, "fmt": fmt})
    if not quick:
        for dims in ((2, 2, 2, 2, 2), (2, 1, 3, 2, 2)):
            for q in ("ket", "dop"):
                for fmt in ("dense", "csr"):
                    cells.append({"dims": dims, "q": q, "fmt": fmt})
    return cells


def permembed_cells(tier):
    quick = tier == "quick"
    cells = []
    for dims in _dl(tier, minlen=2):
        for fmt in ("dense", "csr"):
            cells.append({"dims": dims, "fmt": fmt})
    return cells


# --------------------------------------------------------------------------- #
#                          table 7: partial trace                             #
# --------------------------------------------------------------------------- #


def _ptr_root(dims, keep, fmt, q):
    """structural root of a partial_trace case (from the case, never from the
    failure): which known weakness of the sparse path the input touches."""
    if not _is_sparse_fmt(fmt):
        return "none"
    flags = []
    if _unit_run_root(dims, keep) != "none":
        flags.append("dim_compress-unit-run")
    if fmt == "bsr" or (fmt == "coo" and q == "dop"):
        flags.append("unsliceable-sparse-format")
    return "+".join(flags) or "none"


def ptr_cell(cell, common):
    qu = _qu()
    dims = [int(d) for d in cell["dims"]]
    q = cell["q"]
    fmt = cell["fmt"]
    n = len(dims)
    D = _prod(dims)
    holes = _is_sparse_fmt(fmt)
    key = ("ptr", tuple(dims))
    acc = _Acc("partial_trace", {"q": q, "sparse": _is_sparse_fmt(fmt), "mode": "flat"}, "dims=%s q=%s fmt=%s" % (tuple(dims), q, fmt))
    if q == "ket":
        psi = _ket(D, key, holes=holes)
        rho = psi @ psi.conj().T
        x = _as(psi, fmt)
    else:
        rho = _psd(D, key, holes=holes)
        x = _as(rho, fmt)
    keeps = []
    for k in range(1, min(n, 3) + 1):
        keeps += list(itertools.permutations(range(n), k))
    if n == 4:
        keeps.append((0, 1, 2, 3))
        keeps.append((3, 1, 0, 2))
    for keep in keeps:
        sk = sorted(keep)
        exp = ref.ptrace(rho, dims, sk)
        root = _ptr_root(dims, sk, fmt, q)
        srt = list(keep) == sk
        nt = len(keep) < n
        acc.check("keep=%s" % (keep,), lambda: qu.partial_trace(x, dims, list(keep)), exp, nontrivial=nt, outcome=("sorted" if srt else "unsorted") + ("-all" if not nt else ""), root=root)
        if len(keep) == 1:
            acc.check("keep=%d" % keep[0], lambda: qu.partial_trace(x, dims, keep[0]), exp, nontrivial=nt, outcome="int", root=root)
            acc.check("keep=%d .ptr" % keep[0], lambda: x.ptr(dims, keep[0]) if fmt != "nd" else qu.ptr(x, tuple(dims), keep[0]), exp, nontrivial=nt, outcome="method", root=root)
    return acc.res


def adjoint_cell(cell, common):
    """Tr[embed(A) rho] = Tr[A ptr(rho)] on the real routines, and a ket and
    its projector give the same reduced state."""
    qu = _qu()
    dims = [int(d) for d in cell["dims"]]
    fmt = cell["fmt"]
    n = len(dims)
    D = _prod(dims)
    holes = _is_sparse_fmt(fmt)
    key = ("adjoint", tuple(dims))
    acc = _Acc("adjoint", {"sparse": _is_sparse_fmt(fmt)}, "dims=%s fmt=%s" % (tuple(dims), fmt))
    rho = _psd(D, key, holes=holes)
    psi = _ket(D, key, holes=holes)
    proj = psi @ psi.conj().T
    xr, xk, xp = _as(rho, fmt), _as(psi, fmt), _as(proj, fmt)
    for k in range(1, n + 1):
        for keep in itertools.combinations(range(n), k):
            if _ptr_root(dims, list(keep), fmt, "dop") != "none" or _ptr_root(dims, list(keep), fmt, "ket") != "none":
                continue  # reported (with its root) by the ptr table
            sz = _prod(dims[i] for i in keep)
            a = _gen((sz, sz), key + (keep,), holes=holes)
            aa = _as(a, fmt)
            sub = "keep=%s" % (keep,)
            try:
                emb = qu.pkron(aa, dims, keep)
                red = qu.partial_trace(xr, dims, list(keep))
                lhs = complex(np.trace(_dense(emb) @ rho))
                rhs = complex(np.trace(a @ _dense(red)))
                contiguous = keep == tuple(range(keep[0], keep[0] + k))
                lhs2 = None
                if contiguous and not (k > 1 and all(dims[i] == sz for i in keep)) and sz >= 2:
                    emb2 = qu.ikron(aa, dims, list(keep)) if k > 1 else qu.ikron(aa, dims, keep[0])
                    lhs2 = complex(np.trace(_dense(emb2) @ rho))
                rk = _dense(qu.partial_trace(xk, dims, list(keep)))
                rp = _dense(qu.partial_trace(xp, dims, list(keep)))
            except Exception as ex:
                acc.bad(sub, "exc:" + type(ex).__name__, "raised %s: %s" % (type(ex).__name__, str(ex)[:120]), root="none")
                continue
            scale = max(abs(lhs), abs(rhs), 1e-3)
            if abs(lhs - rhs) > 1e-9 * scale:
                acc.bad(sub, "mismatch", "Tr[pkron(A) rho]=%r but Tr[A ptr(rho)]=%r" % (lhs, rhs), root="none", identity="adjoint-pkron")
            elif lhs2 is not None and abs(lhs2 - rhs) > 1e-9 * scale:
                acc.bad(sub, "mismatch", "Tr[ikron(A) rho]=%r but Tr[A ptr(rho)]=%r" % (lhs2, rhs), root="none", identity="adjoint-ikron")
            elif rk.shape != rp.shape or not ref.close(rk, rp, RTOL, ATOL):
                acc.bad(sub, "mismatch", "ptr(ket) != ptr(projector)", root="none", identity="ket-projector")
            else:
                acc.ok(sub, nontrivial=k < n, outcome="adjoint")
    return acc.res


def ptr_cells(tier):
    quick = tier == "quick"
    cells = []
    for dims in _dl(tier):
        for q in ("dop", "ket"):
            for fmt in ("dense", "nd") + FMTS:
                cells.append({"dims": dims, "q": q, "fmt": fmt})
    if not quick:
        for dims in ((2, 2, 2, 2, 2), (2, 1, 3, 2, 2)):
            for q in ("ket", "dop"):
                for fmt in ("dense", "csr"):
                    cells.append({"dims": dims, "q": q, "fmt": fmt})
    return cells


def adjoint_cells(tier):
    quick = tier == "quick"
    cells = []
    for dims in _dl(tier):
        for fmt in ("dense", "csr", "csc"):
            cells.append({"dims": dims, "fmt": fmt})
    return cells


# --------------------------------------------------------------------------- #
#                              table 8: itrace                                #
# --------------------------------------------------------------------------- #


def _ref_itrace(a, pairs):
    sym = list(range(a.ndim))
    for x, y in pairs:
        sym[y] = sym[x]
    gone = {v for p in pairs for v in p}
    out = [i for i in range(a.ndim) if i not in gone]
    return np.einsum(a, sym, out)


def itrace_cell(cell, common):
    qu = _qu()
    shape = tuple(int(s) for s in cell["shape"])
    a = _gen(shape, ("itrace", shape))
    acc = _Acc("itrace", {}, "shape=%s" % (shape,))
    nd = len(shape)
    allpairs = [(x, y) for x in range(nd) for y in range(nd) if x != y and shape[x] == shape[y]]
    kmax = int(cell["kmax"])

    def seqs(prefix, used, k):
        if prefix:
            yield tuple(prefix)
        if k == 0:
            return
        for p in allpairs:
            if p[0] in used or p[1] in used:
                continue
            yield from seqs(prefix + [p], used | set(p), k - 1)

    for ps in seqs([], frozenset(), kmax):
        exp = _ref_itrace(a, ps)
        ax = ([p[0] for p in ps], [p[1] for p in ps])
        acc.check("axes=%s" % (ax,), lambda: qu.itrace(a, ax), exp, nontrivial=len(ps) > 1, outcome="pairs=%d" % len(ps))
        if len(ps) == 1:
            acc.check("axes=%s" % (ps[0],), lambda: qu.itrace(a, ps[0]), exp, nontrivial=False, outcome="int-pair")
    return acc.res


def itrace_cells(tier):
    shapes = [((2, 2), 1), ((2, 3, 2), 1), ((2, 3, 2, 3), 2), ((3, 2, 2, 3), 2), ((2, 2, 2, 2), 2), ((2, 1, 2, 1), 2), ((3, 2, 2, 3, 2), 2), ((2, 3, 2, 2, 3, 2), 3)]
    if tier != "quick":
        shapes += [((2, 2, 2, 2, 2, 2), 3), ((2, 2, 3, 2, 2, 3, 2), 3), ((1, 2, 3, 1, 2, 3), 3)]
    return [{"shape": s, "kmax": k} for s, k in shapes]


# --------------------------------------------------------------------------- #
#                        table 9: partial transpose                           #
# --------------------------------------------------------------------------- #


def ptranspose_cell(cell, common):
    qu = _qu()
    dims = [int(d) for d in cell["dims"]]
    q = cell["q"]
    fmt = cell["fmt"]
    n = len(dims)
    D = _prod(dims)
    key = ("ptranspose", tuple(dims), q)
    acc = _Acc("partial_transpose", {"q": q}, "dims=%s q=%s fmt=%s" % (tuple(dims), q, fmt))
    if q == "ket":
        psi = _ket(D, key)
        rho = psi @ psi.conj().T
        x = _as(psi, fmt)
    elif q == "op":  # generic non-Hermitian operator ("operator or vector")
        rho = _gen((D, D), key)
        x = _as(rho, fmt)
    else:
        rho = _psd(D, key)
        x = _as(rho, fmt)
    for k in range(0, n + 1):
        for sysa in itertools.combinations(range(n), k):
            exp = ref.partial_transpose(rho, dims, sysa)
            nt = 0 < k < n and any(dims[i] > 1 for i in sysa)
            acc.check("sysa=%s" % (sysa,), lambda: qu.partial_transpose(x, dims, sysa), exp, nontrivial=nt, outcome="k=%d" % k)
            if k >= 2:
                acc.check("sysa=%s" % (sysa[::-1],), lambda: qu.partial_transpose(x, tuple(dims), list(sysa[::-1])), exp, nontrivial=nt, outcome="rev")
            if k == 1:
                acc.check("sysa=%d" % sysa[0], lambda: qu.partial_transpose(x, dims, sysa[0]), exp, nontrivial=nt, outcome="int")
    return acc.res


def ptranspose_cells(tier):
    quick = tier == "quick"
    cells = []
    for dims in _dl(tier):
        for q in ("dop", "op", "ket"):
            for fmt in ("dense", "nd"):
                cells.append({"dims": dims, "q": q, "fmt": fmt})
    return cells


# --------------------------------------------------------------------------- #
#                      table 10: Hamiltonian builders                         #
# --------------------------------------------------------------------------- #

_SX, _SY, _SZ = ref.spin_ops(0.5)
_S = {"x": _SX, "y": _SY, "z": _SZ}


def _site(op, i, n):
    return ref.embed(op, [2] * n, [i])


def _two(op1, i, op2, j, n):
    return _site(op1, i, n) @ _site(op2, j, n)


def _vec3(v):
    try:
        a, b, c = v
        return float(a), float(b), float(c)
    except TypeError:
        return float(v), float(v), float(v)


def _ref_heis(n, j=1.0, b=0.0, cyclic=False):
    js = _vec3(j)
    try:
        bs = tuple(float(v) for v in b)
    except TypeError:
        bs = (0.0, 0.0, float(b))
    D = 2**n
    H = np.zeros((D, D), dtype=complex)
    bonds = [(i, i + 1) for i in range(n - 1)] + ([(n - 1, 0)] if cyclic else [])
    for i, k in bonds:
        for jj, s in zip(js, "xyz"):
            H += jj * _two(_S[s], i, _S[s], k, n)
    for i in range(n):
        for bb, s in zip(bs, "xyz"):
            H -= bb * _site(_S[s], i, n)
    return H


def _ref_j1j2(n, j1=1.0, j2=0.5, bz=0.0, cyclic=False):
    D = 2**n
    H = np.zeros((D, D), dtype=complex)
    for step, jj in ((1, j1), (2, j2)):
        for i in range(n):
            k = i + step
            if k >= n:
                if not cyclic:
                    continue
                k %= n
            for s in "xyz":
                H += jj * _two(_S[s], i, _S[s], k, n)
    for i in range(n):
        H += bz * _site(_SZ, i, n)
    return H


def _ref_heis_2d(n, m, j=1.0, cyclic=False):
    js = _vec3(j)
    N = n * m
    D = 2**N
    H = np.zeros((D, D), dtype=complex)
    for a in range(n):
        for b in range(m):
            for a2, b2 in ((a + 1, b), (a, b + 1)):
                if a2 >= n or b2 >= m:
                    if not cyclic:
                        continue
                    a2 %= n
                    b2 %= m
                for jj, s in zip(js, "xyz"):
                    H += jj * _two(_S[s], a * m + b, _S[s], a2 * m + b2, N)
    return H


def _ref_hubbard(n, t=0.5, V=1.0, mu=1.0, cyclic=False):
    low = np.array([[0, 1], [0, 0]], dtype=complex)  # destroy
    up = low.T.copy()  # create
    num = np.diag([0.0, 1.0]).astype(complex)
    D = 2**n
    H = np.zeros((D, D), dtype=complex)
    bonds = [(i, i + 1) for i in range(n - 1)] + ([(0, n - 1)] if cyclic else [])
    for i, k in bonds:
        H += -t * (_two(up, i, low, k, n) + _two(low, i, up, k, n)) + V * _two(num, i, num, k, n)
    for i in range(n):
        H -= mu * _site(num, i, n)
    return H


def _ham_call(cell):
    """-> (callable(**extra) on the real builder, reference matrix or None,
    total number of sites)"""
    qu = _qu()
    name = cell["ham"]
    n = cell["n"]
    kw = {k: (_tt(v) if isinstance(v, (list, tuple)) else v) for k, v in dict(cell["kw"]).items()}
    refH = None
    if name == "heis":
        fn = lambda **e: qu.ham_heis(n, **kw, **e)  # noqa: E731
        rk = {k: v for k, v in kw.items() if k in ("j", "b", "cyclic")}
        refH = _ref_heis(n, **rk)
        N = n
    elif name == "ising":
        fn = lambda **e: qu.ham_ising(n, **kw, **e)  # noqa: E731
        refH = _ref_heis(n, j=(0, 0, kw.get("jz", 1.0)), b=(kw.get("bx", 1.0), 0, 0), cyclic=kw.get("cyclic", False))
        N = n
    elif name == "XY":
        fn = lambda **e: qu.ham_XY(n, **kw, **e)  # noqa: E731
        refH = _ref_heis(n, j=(kw["jxy"], kw["jxy"], 0), b=(0, 0, kw["bz"]), cyclic=kw.get("cyclic", False))
        N = n
    elif name == "XXZ":
        fn = lambda **e: qu.ham_XXZ(n, **kw, **e)  # noqa: E731
        refH = _ref_heis(n, j=(kw.get("jxy", 1.0), kw.get("jxy", 1.0), kw["delta"]), b=0.0, cyclic=kw.get("cyclic", False))
        N = n
    elif name == "j1j2":
        fn = lambda **e: qu.ham_j1j2(n, **kw, **e)  # noqa: E731
        refH = _ref_j1j2(n, **kw)
        N = n
    elif name == "mbl":
        fn = lambda **e: qu.ham_mbl(n, **kw, **e)  # noqa: E731
        N = n
    elif name == "heis2d":
        nn, mm = n
        fn = lambda **e: qu.ham_heis_2D(nn, mm, **kw, **e)  # noqa: E731
        if kw.get("bz", 0.0) == 0.0:
            refH = _ref_heis_2d(nn, mm, j=kw.get("j", 1.0), cyclic=kw.get("cyclic", False))
        N = nn * mm
    elif name == "hubbard":
        fn = lambda **e: qu.ham_hubbard_hardcore(n, **kw, **e)  # noqa: E731
        rk = {k: v for k, v in kw.items() if k in ("t", "V", "mu", "cyclic")}
        refH = _ref_hubbard(n, **rk)
        N = n
    else:
        raise KeyError(name)
    return fn, refH, N


def ham_cell(cell, common):
    qu = _qu()
    name = cell["ham"]
    sparse = bool(cell["sparse"])
    stype = cell.get("stype", "csr")
    fn, refH, N = _ham_call(cell)
    D = 2**N
    skw = {"sparse": True, "stype": stype} if sparse else {}
    acc = _Acc("ham_" + name, {"sparse": sparse}, "ham=%s n=%s kw=%s sparse=%s stype=%s" % (name, cell["n"], dict(cell["kw"]), sparse, stype))
    want_fmt = stype if sparse else None
    try:
        full_q = _dense(fn(**skw))
    except Exception as ex:
        acc.bad("full", "exc:" + type(ex).__name__, "raised %s: %s" % (type(ex).__name__, str(ex)[:160]), part="full")
        return acc.res
    if refH is not None:
        acc.check("full", lambda: fn(**skw), refH, outcome="formula", want_fmt=want_fmt, want_dense=not sparse, part="formula")
        full = refH
    else:
        # no independent formula asserted (random fields / undocumented field
        # sign): sparse and dense builds must agree, rows are compared with
        # the full operator built by the same call
        other = {"sparse": True} if not sparse else {}
        acc.check("full", lambda: fn(**other), full_q, outcome="sparse==dense", part="sparse-vs-dense")
        full = full_q
        if name == "mbl":
            # H_mbl - H_heis must be a sum of single-site fields bounded by dh
            kw = dict(cell["kw"])
            base = _ref_heis(N, j=kw.get("j", 1.0), b=kw.get("bz", 0.0), cyclic=kw.get("cyclic", False))
            diff = full_q - base
            rec = np.zeros_like(diff)
            ok = True
            dh = kw["dh"]
            bounded = kw.get("dh_dist", "s") in ("s", "qp")  # gaussian fields are unbounded
            dhs = tuple(dh) if isinstance(dh, (list, tuple)) else tuple(dh if c in {1: "z", 2: "xy", 3: "xyz"}.get(kw.get("dh_dim", 1), kw.get("dh_dim", 1)) else 0.0 for c in "xyz")
            for i in range(N):
                for s, bound in zip("xyz", dhs):
                    op = _site(_S[s], i, N)
                    h = np.trace(op.conj().T @ diff) / np.trace(op.conj().T @ op)
                    rec += h * op
                    if abs(h.imag) > 1e-9 or (abs(h.real) > 1e-12 and bound == 0) or (bounded and abs(h.real) > abs(bound) * (1 + 1e-9) + 1e-12):
                        ok = False
            if not ok or not ref.close(rec, diff, RTOL, 1e-11):
                acc.bad("structure", "mismatch", "H_mbl - H_heis is not a sum of on-site fields bounded by dh", part="mbl-structure")
            else:
                acc.ok("structure", outcome="mbl-structure")
    if cell.get("own"):
        for ri, rf in _all_ranges(D):
            acc.check("own=(%d,%d)" % (ri, rf), lambda: fn(ownership=(ri, rf), **skw), full[ri:rf], nontrivial=(rf - ri) < D, outcome="rows", want_fmt=want_fmt, want_dense=not sparse, part="ownership")
    return acc.res


def ham_cells(tier):
    quick = tier == "quick"
    cells = []
    ns = (2, 3) if quick else (2, 3, 4)
    jv = (0.7, -0.4, 1.1)
    bv = (0.2, 0.5, -0.3)

    def add(name, n, kw, own=True, forms=None):
        forms = forms or ([(False, None), (True, "csr")] + ([] if quick else [(True, "csc"), (True, "coo")]))
        for sparse, stype in forms:
            c = {"ham": name, "n": n, "kw": kw, "sparse": sparse, "own": own}
            if sparse:
                c["stype"] = stype
            cells.append(c)

    for n in ns:
        for cyc in (False, True):
            add("heis", n, {"cyclic": cyc})
            add("heis", n, {"j": jv, "b": 0.3, "cyclic": cyc})
            add("heis", n, {"j": jv, "b": bv, "cyclic": cyc})
            add("heis", n, {"j": 1.0, "b": bv, "cyclic": cyc, "parallel": True}, forms=[(True, "csr")])
            add("ising", n, {"jz": 1.3, "bx": 0.6, "cyclic": cyc})
            add("XY", n, {"jxy": 0.8, "bz": 0.35, "cyclic": cyc})
            add("XXZ", n, {"delta": 0.45, "jxy": 1.2, "cyclic": cyc})
            if n >= 3 or not cyc:
                add("j1j2", n, {"j1": 1.0, "j2": 0.5, "cyclic": cyc})
                add("j1j2", n, {"j1": 0.9, "j2": 0.4, "bz": 0.25, "cyclic": cyc})
            add("mbl", n, {"dh": 0.6, "seed": 7, "cyclic": cyc})
            add("mbl", n, {"dh": (0.3, 0.2, 0.5), "seed": 3, "j": jv, "bz": 0.15, "cyclic": cyc, "dh_dist": "g"}, forms=[(True, "csr")])
            add("mbl", n, {"dh": 0.8, "seed": 11, "cyclic": cyc, "dh_dist": "qp"}, forms=[(False, None)])
            add("mbl", n, {"dh": 0.5, "seed": 5, "cyclic": cyc, "dh_dim": 3}, forms=[(True, "csr")])
            add("hubbard", n, {"cyclic": cyc})
            add("hubbard", n, {"t": 0.7, "V": 0.4, "mu": -0.3, "cyclic": cyc})
            add("hubbard", n, {"t": 0.7, "V": 0.4, "mu": -0.3, "cyclic": cyc, "parallel": True}, forms=[(True, "csr")])
    if not quick:
        for cyc in (False, True):
            add("heis", 5, {"j": jv, "b": bv, "cyclic": cyc}, forms=[(True, "csr")])
            add("j1j2", 5, {"j1": 0.9, "j2": 0.4, "bz": 0.25, "cyclic": cyc}, forms=[(True, "csr")])
            add("hubbard", 5, {"t": 0.7, "V": 0.4, "mu": -0.3, "cyclic": cyc}, forms=[(True, "csr")])
    grids = [(1, 2), (2, 1), (2, 2), (1, 3), (3, 1)] + ([] if quick else [(2, 3), (3, 2), (1, 4)])
    for nm in grids:
        big = nm[0] * nm[1] >= 6
        forms = [(True, "csr")] if big else None
        for cyc in (False, True):
            if cyc and min(nm) < 2:
                continue  # a 1-wide periodic direction bonds a site to itself
            add("heis2d", nm, {"cyclic": cyc}, forms=forms)
            add("heis2d", nm, {"j": jv, "cyclic": cyc}, forms=forms)
            add("heis2d", nm, {"j": jv, "bz": 0.3, "cyclic": cyc}, forms=forms)
            if not big:
                add("heis2d", nm, {"j": jv, "bz": 0.3, "cyclic": cyc, "parallel": True}, forms=[(True, "csr")])
    if not quick:
        # periodic 3x3: formula only (512 rows: ranges are not enumerated)
        add("heis2d", (3, 3), {"j": jv, "cyclic": True}, own=False, forms=[(True, "csr")])
        add("heis2d", (3, 3), {"j": jv, "cyclic": False}, own=False, forms=[(True, "csr")])
        add("heis", 6, {"j": jv, "b": bv, "cyclic": True}, own=False)
        add("j1j2", 6, {"j1": 0.9, "j2": 0.4, "bz": 0.25, "cyclic": True}, own=False)
    return cells


# --------------------------------------------------------------------------- #
#                          table 11: basis_vec rows                           #
# --------------------------------------------------------------------------- #


def basis_cell(cell, common):
    qu = _qu()
    dim = int(cell["dim"])
    sparse = bool(cell["sparse"])
    acc = _Acc("basis_vec", {"sparse": sparse}, "dim=%d sparse=%s" % (dim, sparse))
    kw = {"sparse": True} if sparse else {}
    for i in range(dim):
        full = np.zeros((dim, 1), dtype=complex)
        full[i] = 1.0
        acc.check("i=%d full" % i, lambda: qu.basis_vec(i, dim, **kw), full, nontrivial=False, outcome="full")
        for ri, rf in _all_ranges(dim):
            acc.check("i=%d own=(%d,%d)" % (i, ri, rf), lambda: qu.basis_vec(i, dim, ownership=(ri, rf), **kw), full[ri:rf], nontrivial=(rf - ri) < dim, outcome="owned-in" if ri <= i < rf else "owned-out")
    return acc.res


# --------------------------------------------------------------------------- #
#                                    run                                      #
# --------------------------------------------------------------------------- #

TABLES = [
    ("kron", "kron_cell", kron_cells),
    ("ikron", "ikron_cell", ikron_cells),
    ("grid", "grid_cell", grid_cells),
    ("dimcompress", "dimcompress_cell", dimcompress_cells),
    ("pkron", "pkron_cell", pkron_cells),
    ("permute", "permute_cell", permute_cells),
    ("permute-embed", "permembed_cell", permembed_cells),
    ("ptr", "ptr_cell", ptr_cells),
    ("adjoint", "adjoint_cell", adjoint_cells),
    ("itrace", "itrace_cell", itrace_cells),
    ("ptranspose", "ptranspose_cell", ptranspose_cells),
    ("ham", "ham_cell", ham_cells),
    ("basis", "basis_cell", lambda tier: [{"dim": d, "sparse": s} for d in range(1, 7 if tier == "quick" else 10) for s in (False, True)]),
]


def _cost(cell):
    """rough relative cost, used only to order cells (big first) so that the
    parallel map is balanced; the set of cells is unchanged."""
    d = cell.get("dims")
    try:
        D = _prod(v for v in np.asarray(d).ravel() if v > 0) if d is not None else 4
    except Exception:
        D = 4
    if "ham" in cell:
        n = cell["n"]
        D = 2 ** (n if isinstance(n, int) else n[0] * n[1])
    return D * D if cell.get("own", True) else D


def run(ctx):
    quick = ctx.tier == "quick"
    only = ctx.opts.get("only")
    ctx.rule = (
        "every cell of the tables kron / ikron / grid(dim_map) / dim_compress / pkron / permute / permute-embed / ptr / adjoint / itrace / "
        "ptranspose / ham / basis_vec is evaluated on the real quimb routine and compared with a numpy reference; a case is "
        "(table, dims list, placement or index subset (ordered), operand container/format, options, ownership range); it is non-trivial when "
        "the requested rows are a proper subset, the permutation moves a subsystem of dimension > 1, the kept set is a proper subset, "
        "or the placement needs at least one identity / reordering"
    )
    ctx.bounds = {
        "dims_lists": "quick: every tuple over {1,2,3} of length <= 3 + 5 named length-4 lists; thorough: every tuple over {1,2,3} of length <= 4 and over {1..5} of length <= 3",
        "max_subsystems": 4,
        "max_total_dim": 36,
        "ownership_max_total_dim": 24,
        "ownership_ranges": "all 0 <= ri < rf <= D (plus three out-of-range requests per kron cell)",
        "index_subsets": "all ordered subsets of size <= 3 (plus the full set for 4 subsystems)",
        "sparse_formats": list(FMTS),
        "ham_sites": "n in 2..3 (quick) / 2..5 with all ownership ranges, 6 and 3x3 full only (thorough); 2-D grids up to 1x3 (quick) / 2x3, 1x4 (thorough)",
        "dim_map": "1-D length <= 4; grids up to 3x3, 2x2x2, 1x2x3, 2x1x2 (2x2x1x2 thorough); coordinates in a box one (two) site(s) beyond each edge; singles and ordered pairs (triples thorough)",
        "n_dims_lists": len(_dl(ctx.tier)),
    }
    ctx.assumptions += [
        "total dimension 1 excluded (a 1x1 array is a ket to isket)",
        "partial_trace is fed kets and PSD trace-one operators only (its sparse path mirrors the upper triangle, i.e. assumes a Hermitian operator)",
        "partial_trace keep is a set: reference keeps subsystems in ascending order (repo test test_partial_trace_order_doesnt_matter)",
        "stype=/coo_build= only passed with sparse operands or sparse=True plus identity padding (documented 'if sparse'); partial_transpose only dense (no sparse support documented)",
        "ikron span placement only over contiguous subsystems (non-contiguous placement is pkron's job); duplicate target sites are not requested",
        "periodic ham_heis_2D only for grids with both sides >= 2; periodic ham_j1j2 only for n >= 3",
        "field-sign of ham_heis_2D(bz) and ham_mbl(bz) is not asserted (not in their documented formula): those are checked sparse==dense and rows==full only",
        "par_reduce default thread count raised from the pinned 1 to 2 inside the workers so parallel=True runs the real pairing tree",
        "bras: fed to kron and permute only (partial_trace/partial_transpose document kets and operators)",
    ]
    for name, fname, gen in TABLES:
        if only and name not in only.split(","):
            continue
        cells = gen(ctx.tier)
        cells = sorted(cells, key=_cost, reverse=True)
        ch = 1 if name in ("ham", "kron", "ikron", "ptr", "adjoint", "permute-embed") else None
        if name in ("kron", "ikron"):
            ch = 4
        t0 = ctx.elapsed()
        n_ok, n_rej, n_bad = table.run(ctx, fname, cells, name=name, chunk=ch)
        ctx.notes.setdefault("table_wall_s", {})[name] = round(ctx.elapsed() - t0, 1)
        ctx.subproducts.append("%s: %d cells complete (%d evaluations ok, %d documented rejections, %d violating)" % (name, len(cells), n_ok, n_rej, n_bad))


def replay(case):
    return table.replay(sys.modules[__name__], case)

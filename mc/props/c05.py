"""C05 - tensor decomposition: exact when untruncated, minimal / optimal /
honest when truncated (DESIGN.md section 3, C05).  TableExplorer.

Tables (every one a complete product, nothing sampled):

  A  array_split: method x form x cutoff_mode x (cutoff x max_bond x renorm)
     on one shape, crossed with implementation (accelerated 2-D numpy path,
     batch-of-one generic path, ``fn._default_fn``) and info= present/absent.
  B  array_split untruncated: method x form x shape x dtype x spectrum.
  Z  alias table: every key of ``_ABSORB_MAP`` / ``_CUTOFF_MODE_MAP``.
  H  two-call histories: the second of two splits does not depend on the first
     (the option parsers are memoised).
  D  tensor_split / Tensor.split: bipartition x method x form x get, and a
     second product over the wrapping options (bond_ind, tags, matrix_svals,
     right_inds, truncation).
  V  get='values' / Tensor.singular_values.
  L  TNLinearOperator inputs (tensor_split(lo, ...) and lo.split(...)).

Oracle = numpy float64/complex128 SVD of the very same input + the documented
truncation rule evaluated with interval arithmetic (a rank decision is only
asserted when rounding of the size the method is documented to have cannot
flip it).  Only gauge-invariant things are compared: products, projectors,
Gram matrices, spectra.
"""

from __future__ import annotations

import itertools
import sys
import warnings

import numpy as np

from .. import core, table
from ..alphabet import fill

warnings.filterwarnings("ignore")

# --------------------------------------------------------------------------- #
#                    documented facts (independent of the code)               #
# --------------------------------------------------------------------------- #

SPECTRA = {
    "graded": [1.0, 0.5, 0.25, 0.1],
    "deficient": [1.0, 0.5, 0.0, 0.0],
    "flat": [1.0, 1.0, 1.0, 1.0],
    "tail": [1.0, 0.5, 1e-7, 1e-8],
}
FORMS = [None, "both", "left", "right", "lorthog", "rorthog", "lfactor", "rfactor", "lsqrt", "rsqrt", "s", "auto"]
MODES = ["abs", "rel", "sum2", "rsum2", "sum1", "rsum1"]
CUTOFFS = [-1.0, 0.0, 1e-10, 1e-2, 0.3]
RENORMS = [None, True, 1, 2]
DTYPES = ["float32", "float64", "complex64", "complex128"]
SHAPES_B = [(1, 1), (1, 3), (3, 1), (2, 2), (4, 3), (3, 4), (4, 4)]

# which of (left, s, right) a form returns, which factor it documents as
# isometric, and the power of s each factor carries
PRES = {
    None: (1, 1, 1), "s": (0, 1, 0), "lsqrt": (1, 0, 0), "rorthog": (0, 0, 1), "lfactor": (1, 0, 0), "left": (1, 0, 1),
    "both": (1, 0, 1), "right": (1, 0, 1), "lorthog": (1, 0, 0), "rfactor": (0, 0, 1), "rsqrt": (0, 0, 1),
}
ISO = {None: (1, 1), "left": (0, 1), "right": (1, 0), "lorthog": (1, 0), "rorthog": (0, 1)}
LPOW = {None: 0.0, "both": 0.5, "left": 1.0, "right": 0.0, "lorthog": 0.0, "lfactor": 1.0, "lsqrt": 0.5}
RPOW = {None: 0.0, "both": 0.5, "left": 0.0, "right": 1.0, "rorthog": 0.0, "rfactor": 1.0, "rsqrt": 0.5}
QRLIKE = ("right", "lorthog", "rfactor")
LQLIKE = ("left", "lfactor", "rorthog")
SQRTFORMS = ("both", "lsqrt", "rsqrt")
ALLF = tuple(f for f in FORMS if f != "auto")

# kind: 'svd'  full spectrum, documented rule, optimal (svd, svd:eig, eigh)
#       'static' only max_bond (svd:rand)
#       'iter' iterative / randomised drivers
#       'exact' no truncation ability (qr family, cholesky, polar)
#       'lu'
DOC = {
    "svd": dict(kind="svd", forms=ALLF, default="both", prec="direct", inp="any", info=True, generic=True, batch=True),
    "svd:eig": dict(kind="svd", forms=ALLF, default="both", prec="gram", inp="any", info=True, generic=True, batch=True),
    "eig": dict(kind="svd", forms=ALLF, default="both", prec="gram", inp="any", info=True, generic=False, batch=False, alias="svd:eig"),
    "svd:rand": dict(kind="static", forms=ALLF, default="both", prec="gram", inp="any", info=False, generic=False, batch=True),
    "eigh": dict(kind="svd", forms=ALLF, default="both", prec="direct", inp="herm", info=False, generic=True, batch=True),
    "svds": dict(kind="iter", forms=ALLF, default="both", prec="direct", inp="any", info=False, generic=False, batch=False),
    "isvd": dict(kind="iter", forms=ALLF, default="both", prec="direct", inp="any", info=False, generic=False, batch=False),
    "rsvd": dict(kind="iter", forms=ALLF, default="both", prec="direct", inp="any", info=False, generic=False, batch=False),
    "eigsh": dict(kind="iter", forms=ALLF, default="both", prec="direct", inp="herm", info=False, generic=False, batch=False),
    "qr": dict(kind="exact", forms=QRLIKE + LQLIKE, default="right", prec="direct", inp="any", info=False, generic=True, batch=True),
    "lq": dict(kind="exact", forms=QRLIKE + LQLIKE, default="left", prec="direct", inp="any", info=False, generic=False, batch=True, alias="qr"),
    "qr:cholesky": dict(kind="exact", forms=QRLIKE + LQLIKE, default="right", prec="gram", inp="fullrank", info=False, generic=False, batch=True),
    "lq:cholesky": dict(kind="exact", forms=QRLIKE + LQLIKE, default="left", prec="gram", inp="fullrank", info=False, generic=False, batch=True, alias="qr:cholesky"),
    "cholesky": dict(kind="exact", forms=SQRTFORMS, default="both", prec="direct", inp="pd", info=False, generic=True, batch=True),
    "lu": dict(kind="lu", forms=("both",), default="both", prec="direct", inp="any", info=False, generic=False, batch=False),
    "polar_right": dict(kind="exact", forms=("right",), default="right", prec="direct", inp="any", info=False, generic=True, batch=False),
    "polar_left": dict(kind="exact", forms=("left",), default="left", prec="direct", inp="any", info=False, generic=True, batch=False),
    "auto": dict(kind="auto", forms=ALLF, default="both", prec="direct", inp="any", info=False, generic=False, batch=True),
}
ALIASES = ["auto", "lq", "eig", "lq:cholesky"]


def fname(f):
    return "None" if f is None else str(f)


def is_single(dtype):
    return str(dtype) in ("float32", "complex64")


def eps_of(dtype):
    return float(np.finfo(np.dtype(dtype)).eps)


def resolve(method, form, trunc_requested):
    """(documented) resolution of method='auto' and form='auto'."""
    d = DOC[method]
    if method == "auto":
        if trunc_requested or form == "auto" or form not in QRLIKE + LQLIKE:
            base = "svd"
        else:
            base = "qr"
        eff = "both" if form == "auto" else form
        return base, eff
    eff = d["default"] if form == "auto" else form
    return d.get("alias", method), eff


# --------------------------------------------------------------------------- #
#                                  test data                                  #
# --------------------------------------------------------------------------- #


def spectrum_for(spec, k):
    return list(SPECTRA[spec][:k])


def make_matrix(method, eff_form, shape, spec, dtype, variant=""):
    """Input matrix in the documented domain of ``method`` (None = no member
    of the domain for this shape/spectrum)."""
    m, n = shape
    inp = DOC[method]["inp"]
    k = min(m, n)
    if spec == "zero":
        # the exactly zero matrix: hermitian, rank 0; not positive definite / full rank
        if inp in ("pd", "fullrank") or (inp == "herm" and m != n):
            return None
        return np.zeros((m, n), dtype=dtype)
    s = spectrum_for(spec, k)
    key = ("c05", m, n, spec, variant)
    if inp in ("herm", "pd"):
        if m != n:
            return None
        if inp == "pd" or eff_form in SQRTFORMS and variant != "indef":
            lam = list(s)
            if inp == "pd" and (min(lam) <= 0 or max(lam) / min(lam) > 1e4):
                return None
        else:
            lam = [v * (-1.0 if i % 2 else 1.0) for i, v in enumerate(s)]
        return fill("spectrum", (n, n), dtype, key=key, lam=lam)
    if inp == "fullrank":
        if min(s) <= 0 or max(s) / min(s) > 1e4:
            return None
        if eff_form in QRLIKE and m < n:
            return None
        if eff_form in LQLIKE and m > n:
            return None
    return fill("svals", (m, n), dtype, key=key, s=s)


# --------------------------------------------------------------------------- #
#                         reference truncation rule                           #
# --------------------------------------------------------------------------- #


def noise_bounds(s, prec, eps):
    """Interval [lo, hi] for every singular value as seen by a backward
    stable method of the given precision class."""
    s = np.asarray(s, float)
    s0 = float(s[0]) if len(s) else 0.0
    if prec == "gram":
        d2 = 64 * eps * s0 * s0
        lo = np.sqrt(np.clip(s * s - d2, 0.0, None))
        hi = np.sqrt(s * s + d2)
    else:
        d = 64 * eps * s0
        lo = np.clip(s - d, 0.0, None)
        hi = s + d
    return lo, hi


def rule_k(s, cutoff, mode, prec, eps, dynamic=False):
    """Smallest number of kept values allowed by the documented rule
    ('values below / discarded weight below' the cutoff), never 0.  Returns
    (k, decided): decided is False when a comparison is within the rounding
    noise of the method (then nothing is asserted about the rank)."""
    s = np.asarray(s, float)
    n = len(s)
    if n == 0:
        return n, True
    if cutoff is None or cutoff <= 0:
        if not dynamic:
            return n, True
        # renorm > 0 makes the code evaluate the rule with a non-positive cutoff: nothing may be discarded,
        # but weight below the rounding of the rule itself (eps * total) cannot be told from zero
        cutoff = 0.0
    lo, hi = noise_bounds(s, prec, eps)
    p = 2 if mode in ("sum2", "rsum2") else 1
    k = n
    for cand in range(n - 1, 0, -1):
        if mode == "abs":
            l_lo, l_hi, r_lo, r_hi = lo[cand], hi[cand], cutoff, cutoff
        elif mode == "rel":
            l_lo, l_hi, r_lo, r_hi = lo[cand], hi[cand], cutoff * lo[0], cutoff * hi[0]
        else:
            tot_lo, tot_hi = float(np.sum(lo**p)), float(np.sum(hi**p))
            slack = 32 * eps * tot_hi
            l_lo = float(np.sum(lo[cand:] ** p)) - slack
            l_hi = float(np.sum(hi[cand:] ** p)) + slack
            if mode in ("rsum2", "rsum1"):
                r_lo, r_hi = cutoff * tot_lo, cutoff * tot_hi
            else:
                r_lo = r_hi = cutoff
        if l_hi < r_lo * (1 - 1e-3):
            k = cand
            continue
        if l_lo > r_hi * (1 + 1e-3):
            break
        return None, False
    return k, True


def renorm_power(renorm, mode):
    if renorm is None or renorm is False or renorm == 0 and renorm is not True:
        return 0
    if renorm is True:
        return {"sum2": 2, "rsum2": 2, "sum1": 1, "rsum1": 1}.get(mode, 0)
    return int(renorm)


# --------------------------------------------------------------------------- #
#                               the array oracle                              #
# --------------------------------------------------------------------------- #


def _H(a):
    return np.conj(np.swapaxes(a, -1, -2))


def _orth(a, eps):
    """Orthonormal basis of the numerical column space of ``a`` (numpy)."""
    a = np.asarray(a, dtype=np.complex128)
    if a.size == 0:
        return np.zeros((a.shape[0], 0), dtype=np.complex128)
    u, sv, _ = np.linalg.svd(a, full_matrices=False)
    if sv.size == 0 or sv[0] == 0:
        return u[:, :0]
    return u[:, sv > sv[0] * 64 * eps]


def _fro(a):
    return float(np.sqrt(np.sum(np.abs(a) ** 2)))


def tolerances(prec, dtype, kind):
    single = is_single(dtype)
    if prec == "gram":
        t = dict(rec=1e-2 if single else 1e-7, val=1e-2 if single else 1e-6, opt=1e-2 if single else 1e-6, iso=1e-2 if single else 1e-6)
    else:
        b = 5e-4 if single else 1e-9
        t = dict(rec=b, val=b, opt=b, iso=b)
    if kind == "iter":
        b = 5e-3 if single else 1e-6
        t = dict(rec=b, val=b, opt=b, iso=b)
    return t


def _check_zero_input(P, obs, x, l, s, r, k, eff_form, kind, prec, trunc, info, shape_domain):
    """The exactly zero matrix (every value fails every cutoff rule): at least
    one value is kept (checked by the caller), the cap holds, everything that
    carries the values is exactly zero and finite, isometric factors of the
    backward stable drivers are still isometric, reported error is 0."""
    m, n = x.shape
    d = min(m, n)
    cutoff, mode, max_bond, p = trunc["cutoff"], trunc["mode"], trunc["max_bond"], trunc["p"]
    cap = max_bond if (max_bond is not None and max_bond > 0) else None
    obs["truncated"] = False
    obs["zero"] = True
    if kind in ("svd", "static", "iter") and cap is not None and k > cap:
        P.append(("cap", "kept %d values with max_bond=%d" % (k, cap)))
    if kind in ("svd", "static", "iter", "lu") and k > d:
        P.append(("cap", "kept %d values of a %dx%d matrix" % (k, m, n)))
    if kind == "svd":
        if cutoff is not None and cutoff > 0:
            kexp = 1  # every value fails the rule; never zero
        elif p > 0:
            kexp = None  # rule evaluated with a non-positive cutoff on exact zeros: 1 .. d all consistent
        else:
            kexp = d if cap is None else min(d, cap)
        if kexp is not None and k != kexp:
            P.append(("rank", "zero matrix: kept %d values, documented rule (%s, cutoff=%r, max_bond=%r) gives %d" % (k, mode, cutoff, max_bond, kexp)))
    elif kind == "static":
        kexp = d if cap is None else min(d, cap)
        if k != kexp:
            P.append(("rank", "zero matrix: kept %d values, static rule gives %d" % (k, kexp)))
    if s is not None and np.any(np.asarray(s) != 0):
        P.append(("values", "zero matrix: non-zero values returned %s" % np.asarray(s).tolist()))
    if l is not None and r is not None:
        lc = np.asarray(l, dtype=np.complex128)
        rc = np.asarray(r, dtype=np.complex128)
        recon = (lc * np.asarray(s, dtype=np.complex128)[None, :]) @ rc if s is not None else lc @ rc
        if np.any(recon != 0):
            P.append(("product", "zero matrix: product of the factors is not zero (max %.3e)" % float(np.max(np.abs(recon)))))
    if l is not None and LPOW.get(eff_form, 0) > 0 and r is None and np.any(np.asarray(l) != 0):
        P.append(("gram", "zero matrix: %s factor is not zero" % fname(eff_form)))
    if r is not None and RPOW.get(eff_form, 0) > 0 and l is None and np.any(np.asarray(r) != 0):
        P.append(("gram", "zero matrix: %s factor is not zero" % fname(eff_form)))
    il, ir = ISO.get(eff_form, (0, 0))
    ok_to_assert = (il or ir) and prec != "gram" and shape_domain and kind in ("svd", "static", "exact")
    if il or ir:
        obs["iso_asserted"] = bool(ok_to_assert)
    if ok_to_assert:
        tol = tolerances(prec, x.dtype, kind)
        if il and l is not None:
            lc = np.asarray(l, dtype=np.complex128)
            dfc = float(np.max(np.abs(_H(lc) @ lc - np.eye(k))))
            if dfc > tol["iso"] * 10:
                P.append(("isometry", "zero matrix: left factor documented isometric for form %s: |L^H L - 1| = %.3e" % (fname(eff_form), dfc)))
        if ir and r is not None:
            rc = np.asarray(r, dtype=np.complex128)
            dfc = float(np.max(np.abs(rc @ _H(rc) - np.eye(k))))
            if dfc > tol["iso"] * 10:
                P.append(("isometry", "zero matrix: right factor documented isometric for form %s: |R R^H - 1| = %.3e" % (fname(eff_form), dfc)))
    if info is not None:
        e = info.get("error", None)
        if e is None:
            P.append(("info-error", "info['error'] was not filled in"))
        else:
            e = float(np.asarray(e).reshape(-1)[0])
            if not (e == 0.0):
                P.append(("info-error", "zero matrix: reported truncation error %r" % e))
    return P, obs


def check_split(x, out, eff_form, base, kind, prec, trunc, info=None, shape_domain=True):
    """Evaluate one (left, s, right) result against the property.

    x     : the 2-D input (original dtype)
    out   : (left, s, right) 2-D / 1-D numpy arrays or None
    trunc : dict(cutoff, mode, max_bond, p)  (p = renormalisation power)
    Returns (problems [(check, msg)], obs dict)."""
    P = []
    obs = {}
    l, s, r = out
    dtype = x.dtype
    eps = eps_of(dtype)
    tol = tolerances(prec, dtype, kind)
    m, n = x.shape
    d = min(m, n)

    # ---- structure ----------------------------------------------------- #
    want = PRES[eff_form]
    got = (int(l is not None), int(s is not None), int(r is not None))
    if got != want:
        P.append(("structure", "form %s should return (left,s,right) presence %s, got %s" % (fname(eff_form), want, got)))
        return P, obs
    ks = set()
    for nm, a, nd, ax, other, oax in (("left", l, 2, -1, m, 0), ("right", r, 2, 0, n, 1), ("s", s, 1, 0, None, None)):
        if a is None:
            continue
        a = np.asarray(a)
        if a.ndim != nd or (other is not None and a.shape[oax] != other):
            P.append(("shape", "%s factor has shape %s for input %s" % (nm, a.shape, x.shape)))
            return P, obs
        ks.add(int(a.shape[ax]))
        if not np.all(np.isfinite(a)):
            P.append(("nonfinite", "%s factor contains NaN/inf" % nm))
            return P, obs
    if len(ks) != 1:
        P.append(("shape", "inconsistent bond sizes %s" % sorted(ks)))
        return P, obs
    k = ks.pop()
    obs["k"] = k
    if k < 1:
        P.append(("rank-zero", "bond of size 0 returned"))
        return P, obs

    x64 = np.asarray(x, dtype=np.complex128)
    nrm = _fro(x64)
    sref = np.linalg.svd(x64, compute_uv=False)
    if nrm == 0:
        return _check_zero_input(P, obs, x, l, s, r, k, eff_form, kind, prec, trunc, info, shape_domain)
    s0 = float(sref[0])
    spad = np.concatenate([sref, np.zeros(max(0, k - d))])
    cutoff, mode, max_bond, p = trunc["cutoff"], trunc["mode"], trunc["max_bond"], trunc["p"]
    cap = max_bond if (max_bond is not None and max_bond > 0) else None
    noise = float(np.sqrt(64 * eps)) * s0 if prec == "gram" else 64 * eps * s0
    ek = float(np.sqrt(np.sum(spad[k:] ** 2)))  # discarded weight for the returned k
    truncated = bool(ek > 16 * noise)
    obs["truncated"] = truncated

    # ---- rank: cap, rule, never zero ------------------------------------ #
    if kind in ("svd", "static", "iter") and cap is not None and k > cap:
        P.append(("cap", "kept %d values with max_bond=%d" % (k, cap)))
    if kind in ("svd", "static", "iter", "lu") and k > d:
        P.append(("cap", "kept %d values of a %dx%d matrix" % (k, m, n)))
    decided = True
    if kind == "svd":
        kr, decided = rule_k(sref, cutoff, mode, prec, eps, dynamic=p > 0)
        if decided:
            kexp = min(kr, cap) if cap is not None else kr
            obs["kexp"] = kexp
            if k != kexp and not (k < kexp and spad[k] <= noise):
                P.append(("rank", "kept %d values, documented rule (%s, cutoff=%r, max_bond=%r) gives %d for spectrum %s" % (k, mode, cutoff, max_bond, kexp, np.round(sref, 9).tolist())))
    elif kind == "static":
        kexp = min(d, cap) if cap is not None else d
        if k != kexp:
            P.append(("rank", "kept %d values, static rule gives %d" % (k, kexp)))
    obs["decided"] = decided

    # ---- renormalisation factor ------------------------------------------ #
    f = 1.0
    if p > 0 and k < len(spad) and (kind == "svd" or (kind == "iter" and truncated)):
        f = float((np.sum(spad**p) / np.sum(spad[:k] ** p)) ** (1.0 / p))
    obs["f"] = f

    # ---- projectors on the returned column / row spaces ------------------ #
    svdlike = kind in ("svd", "static") or (kind == "iter" and base in ("svds", "eigsh"))
    approx_iter = kind == "iter" and not svdlike
    Pl = Pr = None
    if l is not None:
        ql = _orth(l, eps)
        Pl = ql @ _H(ql)
        err = _fro(x64 - Pl @ x64)
        if svdlike or kind == "exact":
            if abs(err - ek) > tol["opt"] * nrm:
                P.append(("optimal-left", "column space of left factor: |x - P x| = %.3e, best possible for k=%d is %.3e" % (err, k, ek)))
        elif approx_iter and not truncated:
            if err > tol["opt"] * nrm:
                P.append(("optimal-left", "column space of left factor misses x by %.3e though nothing was truncated" % err))
    if r is not None:
        qr_ = _orth(_H(np.asarray(r)), eps)
        Pr = qr_ @ _H(qr_)
        err = _fro(x64 - x64 @ Pr)
        if svdlike or kind == "exact":
            if abs(err - ek) > tol["opt"] * nrm:
                P.append(("optimal-right", "row space of right factor: |x - x P| = %.3e, best possible for k=%d is %.3e" % (err, k, ek)))
        elif approx_iter and not truncated:
            if err > tol["opt"] * nrm:
                P.append(("optimal-right", "row space of right factor misses x by %.3e though nothing was truncated" % err))

    # ---- values ----------------------------------------------------------- #
    vals = None
    if s is not None:
        vals = np.abs(np.asarray(s, dtype=np.complex128))
        if eff_form is None and kind != "iter" and base != "eigh":
            if np.any(np.asarray(s).real < -tol["val"] * s0):
                P.append(("values", "negative singular values returned"))
    elif l is not None and LPOW[eff_form] > 0:
        vals = np.linalg.svd(np.asarray(l, dtype=np.complex128), compute_uv=False) ** (1.0 / LPOW[eff_form])
    elif r is not None and RPOW[eff_form] > 0:
        vals = np.linalg.svd(np.asarray(r, dtype=np.complex128), compute_uv=False) ** (1.0 / RPOW[eff_form])
    if vals is not None and (kind in ("svd", "static") or svdlike or (approx_iter and not truncated)):
        vals = np.sort(vals)[::-1]
        want_vals = f * spad[:k]
        if kind == "iter" and p > 0 and truncated:
            pass  # the iterative drivers cannot know the full spectrum: see 'renorm' below
        else:
            # sqrt-forms amplify absolute errors of tiny values: compare in the s domain with a floor
            dv = np.max(np.abs(vals - want_vals)) if k else 0.0
            tv = tol["val"] * s0
            pw = min([q for q in (LPOW.get(eff_form, 0), RPOW.get(eff_form, 0)) if q > 0] or [1.0])
            if pw < 1.0:
                tv = max(tv, 4 * float(np.sqrt(tol["val"])) * float(np.sqrt(s0 * max(noise, 1e-300))))
            if dv > tv:
                P.append(("values", "values carried by the result %s differ from the %s reference %s (renorm power %d)" % (np.round(vals, 9).tolist(), "renormalised" if f != 1.0 else "kept", np.round(want_vals, 9).tolist(), p)))
    # renorm for the iterative drivers: the p-norm named must be preserved
    if vals is not None and kind == "iter" and p > 0 and truncated:
        got_p = float(np.sum(np.abs(vals) ** p) ** (1.0 / p))
        want_p = float(np.sum(spad**p) ** (1.0 / p))
        if abs(got_p - want_p) > max(tol["val"], 1e-6) * want_p * 10:
            P.append(("renorm", "renorm power %d requested but %d-norm of kept values is %.6g, of the input %.6g" % (p, p, got_p, want_p)))

    # ---- product / Gram identities --------------------------------------- #
    recon = None
    if l is not None and r is not None:
        lc = np.asarray(l, dtype=np.complex128)
        rc = np.asarray(r, dtype=np.complex128)
        recon = (lc * np.asarray(s, dtype=np.complex128)[None, :]) @ rc if s is not None else lc @ rc
        if kind in ("svd", "static") or svdlike:
            target = f * (Pl @ x64 @ Pr)
            if _fro(recon - target) > tol["rec"] * nrm * max(f, 1.0) and not (kind == "iter" and p > 0 and truncated):
                P.append(("product", "product of factors differs from %sthe projection of x on the returned spaces by %.3e" % ("%.4g x " % f if f != 1.0 else "", _fro(recon - target))))
        elif kind == "exact" or (kind == "lu" and k >= d) or (approx_iter and not truncated):
            if _fro(recon - x64) > tol["rec"] * nrm:
                P.append(("product", "product of factors differs from x by %.3e (relative %.3e)" % (_fro(recon - x64), _fro(recon - x64) / nrm)))
        if eff_form == "both" and (kind in ("svd", "static") or svdlike) and not (kind == "iter" and p > 0 and truncated):
            # sqrt(s) into BOTH factors: the two factors carry the same spectrum
            sl = np.linalg.svd(lc, compute_uv=False)
            sr = np.linalg.svd(rc, compute_uv=False)
            if np.max(np.abs(sl**2 - sr**2)) > 4 * tol["val"] * s0:
                P.append(("balance", "form 'both': left factor spectrum %s != right factor spectrum %s" % (np.round(sl, 9).tolist(), np.round(sr, 9).tolist())))
    elif l is not None and eff_form in ("lfactor", "lsqrt"):
        lc = np.asarray(l, dtype=np.complex128)
        g = lc @ _H(lc)
        if base == "cholesky":
            if _fro(g - x64) > tol["rec"] * nrm:
                P.append(("gram", "L L^H differs from x by %.3e" % _fro(g - x64)))
        elif kind in ("svd", "static", "exact") or svdlike or (approx_iter and not truncated):
            if not (kind == "iter" and p > 0 and truncated):
                if eff_form == "lsqrt":
                    g = g @ g
                target = f * f * (Pl @ x64 @ _H(x64) @ Pl)
                if _fro(g - target) > tol["rec"] * nrm * nrm * max(f * f, 1.0) * (1.0 if eff_form == "lfactor" else 4.0):
                    P.append(("gram", "Gram matrix of the %s factor differs from that of (projected) x by %.3e" % (fname(eff_form), _fro(g - target))))
    elif r is not None and eff_form in ("rfactor", "rsqrt"):
        rc = np.asarray(r, dtype=np.complex128)
        g = _H(rc) @ rc
        if base == "cholesky":
            if _fro(g - x64) > tol["rec"] * nrm:
                P.append(("gram", "R^H R differs from x by %.3e" % _fro(g - x64)))
        elif kind in ("svd", "static", "exact") or svdlike or (approx_iter and not truncated):
            if not (kind == "iter" and p > 0 and truncated):
                if eff_form == "rsqrt":
                    g = g @ g
                target = f * f * (Pr @ _H(x64) @ x64 @ Pr)
                if _fro(g - target) > tol["rec"] * nrm * nrm * max(f * f, 1.0) * (1.0 if eff_form == "rfactor" else 4.0):
                    P.append(("gram", "Gram matrix of the %s factor differs from that of (projected) x by %.3e" % (fname(eff_form), _fro(g - target))))

    # ---- isometry of the factors the form documents as isometric --------- #
    il, ir = ISO.get(eff_form, (0, 0))
    if il or ir:
        # precision-aware: Gram-matrix methods divide by s
        smin = float(spad[k - 1]) if k <= len(spad) else 0.0
        if prec == "gram":
            cond = s0 / smin if smin > 0 else float("inf")
            ok_to_assert = 100 * eps * cond * cond <= tol["iso"]
        else:
            ok_to_assert = True
        if not shape_domain:
            ok_to_assert = False
        obs["iso_asserted"] = bool(ok_to_assert)
        if ok_to_assert:
            if il and l is not None:
                lc = np.asarray(l, dtype=np.complex128)
                dfc = float(np.max(np.abs(_H(lc) @ lc - np.eye(k))))
                if dfc > tol["iso"] * 10:
                    P.append(("isometry", "left factor documented isometric for form %s: |L^H L - 1| = %.3e" % (fname(eff_form), dfc)))
            if ir and r is not None:
                rc = np.asarray(r, dtype=np.complex128)
                dfc = float(np.max(np.abs(rc @ _H(rc) - np.eye(k))))
                if dfc > tol["iso"] * 10:
                    P.append(("isometry", "right factor documented isometric for form %s: |R R^H - 1| = %.3e" % (fname(eff_form), dfc)))

    # ---- reported truncation error ---------------------------------------- #
    if info is not None:
        e = info.get("error", None)
        if e is None:
            P.append(("info-error", "info['error'] was not filled in"))
        else:
            e = float(np.asarray(e).reshape(-1)[0])
            if p == 0:
                actual = _fro(x64 - recon) if recon is not None else ek
                if not np.isfinite(e) or abs(e - actual) > tol["opt"] * nrm:
                    P.append(("info-error", "reported truncation error %.6e, actual Frobenius distance %.6e" % (e, actual)))
            obs["err"] = e
    return P, obs


# --------------------------------------------------------------------------- #
#                      root-cause classification (from the case)              #
# --------------------------------------------------------------------------- #


# which oracle clauses a root cause can affect (crash entries name the exception type)
ANY_RESULT = ("rank-zero", "shape", "cap", "optimal-left", "optimal-right", "values", "product", "gram", "isometry", "nonfinite", "malformed", "balance", "rank", "structure")
ROOT_CHECKS = {
    "absorb-ignored": ("structure", "isometry"),
    "svd-eig-single-precision-numba": ("crash:TypingError",),
    "iterative-k-minus-one": ANY_RESULT + ("crash:IndexError", "crash:ValueError", "unexpected-rejection:ValueError", "unexpected-rejection:KeyError"),
    "rsvd-no-truncation": ("crash:TypeError",),
    "estimate-rank-tiny-matrix": ("crash:IndexError", "unexpected-rejection:ValueError"),
    "eigsh-keeps-smallest-algebraic": ("optimal-left", "optimal-right", "values", "product", "gram", "renorm", "isometry", "nonfinite", "balance"),
    "eigh-sqrt-of-nonpositive": ("nonfinite",),
    "generic-renorm-needs-sum-mode": ("crash:UnboundLocalError",),
    "generic-renorm-batch-index": ("crash:IndexError", "unexpected-rejection:ValueError"),
    "generic-renorm-power-from-mode": ("values", "product", "gram"),
    "iterative-renorm-partial-spectrum": ("renorm",),
    "matrix-svals-with-absorbed-form": ("bond", "network"),
    "option-memo-conflates-True-and-1": ("history",),
    "svd-eig-zero-matrix": ("crash:ZeroDivisionError", "nonfinite"),
    "renorm-zero-matrix": ("crash:ZeroDivisionError", "nonfinite"),
    "lu-empty-bond": ("rank-zero",),
    "isvd-zero-matrix": ("unexpected-rejection:ValueError",),
}


class Roots(list):
    """Ordered candidate root causes of a CASE (structural facts only)."""

    def pick(self, check, exc=None):
        key = check if exc is None else "%s:%s" % (check, exc)
        for r in self:
            if key in ROOT_CHECKS[r]:
                return r
        return "-"

    @property
    def any(self):
        return bool(self)


def root_of(method, base, form, eff_form, dtype, impl, cutoff, mode, max_bond, p, variant="", nonpos=False, shape=None, zero=False):
    """Structural facts of the CASE that select a known defective code path;
    never derived from the failure.  Several may apply to one case: the
    signature of a violation names the first one that can affect the failing
    oracle clause (ROOT_CHECKS), '-' if none can."""
    c = Roots()
    trunc_req = (cutoff is not None and cutoff > 0) or (max_bond is not None and max_bond > 0)
    if base in ("polar_right", "polar_left") and eff_form != DOC[base]["default"]:
        c.append("absorb-ignored")
    if base == "cholesky" and eff_form not in SQRTFORMS and impl == "accel":
        c.append("absorb-ignored")
    if base == "svd:eig" and is_single(dtype) and impl == "accel":
        c.append("svd-eig-single-precision-numba")
    if base in ("svds", "isvd", "eigsh") and cutoff == 0.0 and (max_bond is None or max_bond <= 0):
        c.append("iterative-k-minus-one")
    if base == "rsvd" and (cutoff is None or cutoff <= 0.0) and (max_bond is None or max_bond <= 0):
        c.append("rsvd-no-truncation")
    if base in ("svds", "isvd", "eigsh") and shape is not None and ((shape[0] == 1 and str(dtype) == "complex128") or (shape[0] == 2 and str(dtype) == "float64")) and cutoff is not None and cutoff > 0 and (max_bond is None or max_bond <= 0 or max_bond == min(shape)):
        # _choose_k -> estimate_rank -> scipy.linalg.interpolative.estimate_rank on a matrix with 1 or 2 rows
        c.append("estimate-rank-tiny-matrix")
    if base == "eigsh" and trunc_req:
        c.append("eigsh-keeps-smallest-algebraic")
    if base in ("eigh", "eigsh") and (variant == "indef" or nonpos) and eff_form in SQRTFORMS:
        c.append("eigh-sqrt-of-nonpositive")
    if impl in ("batch", "default_fn") and base in ("svd", "svd:eig", "eigh") and p > 0:
        if mode in ("abs", "rel"):
            c.append("generic-renorm-needs-sum-mode")
        elif impl == "batch":
            c.append("generic-renorm-batch-index")
        elif p != (2 if mode in ("sum2", "rsum2") else 1):
            c.append("generic-renorm-power-from-mode")
    if DOC[base]["kind"] == "iter" and p > 0:
        c.append("iterative-renorm-partial-spectrum")
    if zero and base == "svd:eig":
        # U = x V / s (or VH = U^H x / s) with the damping cutoff of the safe inverse = smax * eps = 0: 0 / 0
        c.append("svd-eig-zero-matrix")
    if zero and p > 0 and DOC[base]["kind"] in ("svd", "iter"):
        # renormalisation factor = (kept + lost) / kept = 0 / 0
        c.append("renorm-zero-matrix")
    if zero and base == "isvd" and shape is not None and max_bond is not None and 0 < max_bond <= min(shape) // 2:
        # the genuinely iterative path: scipy.linalg.interpolative.svd(zeros, k) produces NaN internally
        c.append("isvd-zero-matrix")
    if base == "lu" and (zero or (cutoff is not None and cutoff >= 0)):
        # lu_truncated keeps the columns above the cutoff, without an 'at least one' clamp
        c.append("lu-empty-bond")
    # the narrowest explanation first: a root that can only affect one clause wins over a
    # root that garbles everything (so repairing the broad one leaves no stale attribution)
    c.sort(key=lambda r: len(ROOT_CHECKS[r]))
    return c


# --------------------------------------------------------------------------- #
#                       calling the real entry points                         #
# --------------------------------------------------------------------------- #


def _np(a):
    return None if a is None else np.asarray(a)


def fresh_option_caches(D):
    """The option parsers are memoised with functools.cache, whose keys
    conflate True/1 and False/0/0.0: results would depend on which call came
    first in the process.  Every table evaluation starts from empty caches
    (= a fresh process); table H explores call ORDER explicitly."""
    for nm in ("parse_split_opts", "parse_method_absorb", "parse_split_left_right_isom"):
        f = getattr(D, nm, None)
        if f is not None and hasattr(f, "cache_clear"):
            f.cache_clear()


def call_split(x, method, form, cutoff, mode, max_bond, renorm, impl, use_info, extra=None):
    """Returns ((l,s,r), info) with 2-D / 1-D numpy arrays."""
    import quimb as qu
    from quimb.tensor import decomp as D

    qu.seed_rand(7)
    fresh_option_caches(D)
    kw = dict(method=method, absorb=form, cutoff=cutoff, cutoff_mode=mode, max_bond=max_bond, renorm=renorm)
    extra = dict(extra or {})
    if DOC[method].get("alias", method) == "svd:rand" or method == "svd:rand":
        extra.setdefault("seed", 7)
    info = {"error": None} if use_info else None
    if impl == "accel":
        if info is not None:
            extra["info"] = info
        l, s, r = D.array_split(x, **kw, **extra)
        return (_np(l), _np(s), _np(r)), info
    if impl == "batch":
        if info is not None:
            extra["info"] = info
        l, s, r = D.array_split(x[None], **kw, **extra)
        out = []
        for a in (l, s, r):
            if a is None:
                out.append(None)
            else:
                a = np.asarray(a)
                if a.shape[0] != 1:
                    raise AssertionError("batch of one came back with leading shape %s" % (a.shape,))
                out.append(a[0])
        return tuple(out), info
    if impl == "default_fn":
        mth, opts = D.parse_split_opts(method, form, max_bond, cutoff, mode, renorm)
        fn = D._SPLIT_FNS[mth]._default_fn
        if info is not None:
            extra["info"] = info
        l, s, r = fn(x, **opts, **extra)
        return (_np(l), _np(s), _np(r)), info
    raise KeyError(impl)


REJECTIONS = (ValueError, KeyError, NotImplementedError)


def twice(root, fn):
    """Call fn(); an exception outside the rejection types, on a case with no
    structural reason to fail (root '-'), is asked a second time: numba
    compilation under a cold on-disk cache shared by several worker processes
    was seen to fail transiently (TypingError that no replay reproduces).  A
    real defect fails both times."""
    try:
        return fn()
    except REJECTIONS:
        raise
    except Exception:
        if root != "-":
            raise
        return fn()


def evaluate(x, method, form, cutoff, mode, max_bond, renorm, impl, use_info, dtype, variant="", shape_domain=True, entry="array_split", spec=""):
    """One evaluation -> table result."""
    d = DOC[method]
    mb = max_bond
    trunc_requested = (cutoff is not None and cutoff > 0) or (mb is not None and mb > 0)
    base, eff = resolve(method, form, trunc_requested)
    kind = DOC[base]["kind"]
    prec = DOC[base]["prec"]
    p = renorm_power(renorm, mode)
    if kind in ("exact", "static", "lu"):
        p = 0  # renorm is not an option of these drivers (documented: only valid options are supplied)
    cut_eff = cutoff if kind in ("svd", "iter", "lu") else None
    cap_eff = mb if kind in ("svd", "iter", "static") else None
    nonpos = False
    if DOC[base]["inp"] == "herm" and eff in SQRTFORMS:
        # structural fact of the input: an eigenvalue that is zero / negative up to rounding
        ev = np.linalg.eigvalsh(np.asarray(x, dtype=np.complex128))
        nonpos = bool(ev[0] <= 64 * eps_of(dtype) * max(abs(ev[-1]), abs(ev[0])))
    roots = root_of(method, base, form, eff, dtype, impl, cutoff, mode, mb, p, variant, nonpos, shape=tuple(x.shape), zero=not np.any(x))
    sub = "|".join([impl, "i" if use_info else "-", mode, repr(cutoff), repr(mb), repr(renorm)])

    def bad(check, msg, **more):
        sig = dict(entry=entry, method=base, check=check, root=roots.pick(check, more.get("exc")))
        sig.update(more)
        return table.bad(core.problem("%s(method=%r, absorb=%r, cutoff=%r, cutoff_mode=%r, max_bond=%r, renorm=%r) on %s %s [%s]: %s" % (entry, method, form, cutoff, mode, mb, renorm, "x".join(map(str, x.shape)), dtype, impl, msg), **sig), sub=sub)

    if (base == "polar_right" and x.shape[0] < x.shape[1]) or (base == "polar_left" and x.shape[0] > x.shape[1]):
        shape_domain = False  # no isometry of the documented shape exists
    supported = eff in d["forms"] or eff in DOC[base]["forms"]
    if base == "isvd" and is_single(dtype):
        supported = False  # scipy.linalg.interpolative is documented double precision only
    try:
        out, info = twice("x" if roots.any else "-", lambda: call_split(x, method, form, cutoff, mode, mb, renorm, impl, use_info))
    except np.linalg.LinAlgError as ex:
        return bad("crash", "LinAlgError: %s" % str(ex)[:120], exc="LinAlgError")
    except NotImplementedError:
        return table.rejected("%s:%s:form=%s:NotImplementedError" % (entry, method, fname(form)), sub=sub)
    except (ValueError, KeyError) as ex:
        if supported:
            return bad("unexpected-rejection", "%s: %s" % (type(ex).__name__, str(ex)[:160]), exc=type(ex).__name__)
        return table.rejected("%s:%s:form=%s:%s" % (entry, method, fname(form), type(ex).__name__), sub=sub)
    except Exception as ex:
        return bad("crash", "%s: %s" % (type(ex).__name__, str(ex)[:400].replace("\n", " ")), exc=type(ex).__name__)
    trunc = dict(cutoff=cut_eff, mode=mode, max_bond=cap_eff, p=p)
    try:
        probs, obs = check_split(x, out, eff, base, kind, prec, trunc, info=info, shape_domain=shape_domain)
    except Exception as ex:  # malformed return values that numpy cannot even multiply
        return bad("malformed", "result cannot be evaluated: %s: %s" % (type(ex).__name__, str(ex)[:120]))
    if probs:
        seen = set()
        res = []
        for chk, msg in probs:
            if chk in seen:
                continue
            seen.add(chk)
            res.append(bad(chk, msg)["probs"][0])
        return table.bad(res, sub=sub)
    k = obs.get("k")
    nontrivial = x.shape[0] * x.shape[1] > 1
    stable_k = kind != "iter"
    outc = "%s:%s:%s%s%s" % (
        kind,
        "zero" if obs.get("zero") else "trunc" if obs.get("truncated") else "full",
        ("k=%d" % k) if (stable_k or obs.get("zero")) else "k=*",
        "" if obs.get("decided", True) else ":rank-undecided",
        ":renorm" if p and obs.get("truncated") else "",
    )
    key = "|".join([method, fname(form), str(dtype), "x".join(map(str, x.shape)), spec, variant, sub])
    return table.ok(key=key, nontrivial=nontrivial, outcome=outc, sub=sub)


# --------------------------------------------------------------------------- #
#                                 table A                                     #
# --------------------------------------------------------------------------- #


def impls_for(method, full):
    d = DOC[method]
    out = ["accel"]
    if full and d.get("batch") and method in ("svd", "svd:eig", "eigh", "qr", "cholesky", "qr:cholesky", "svd:rand"):
        out.append("batch")
    if full and d.get("generic"):
        out.append("default_fn")
    return out


def cell_A(cell, common):
    method, form, dtype, shape, spec, mode = cell["method"], cell["form"], cell["dtype"], tuple(cell["shape"]), cell["spec"], cell["mode"]
    d = DOC[method]
    res = []
    kfull = min(shape)
    caps = [None, 1, 2, kfull, kfull + 1]
    impls = cell["impls"]
    cache = {}
    for cutoff, mb, renorm in itertools.product(CUTOFFS, caps, RENORMS):
        trunc_requested = cutoff > 0 or mb is not None
        base, eff = resolve(method, form, trunc_requested)
        x = cache.get(eff)
        if eff not in cache:
            x = make_matrix(base, eff, shape, spec, dtype)
            if x is None and DOC[base]["inp"] == "fullrank":
                x = make_matrix(base, eff, shape[::-1], spec, dtype)  # LQ-like forms need m <= n
            cache[eff] = x
        if x is None:
            res.append(table.rejected("no-domain-member:%s:%s" % (method, fname(form))))
            continue
        for impl in impls:
            for use_info in ((False, True) if (d["info"] and impl != "x") else (False,)):
                res.append(evaluate(x, method, form, cutoff, mode, mb, renorm, impl, use_info, dtype, spec=spec))
    return res


# --------------------------------------------------------------------------- #
#        table E: everything fails the rule (never keep zero values)          #
# --------------------------------------------------------------------------- #

E_CUTOFFS = [1.0, 2.0, 50.0]  # at / above the largest value (abs), >= 1 (rel), above the total weight (sum modes)
E_ZERO_CUTOFFS = [-1.0, 0.0, 1e-10, 0.3, 2.0]
E_RENORMS = [None, 2]


def cell_E(cell, common):
    """Inputs on which EVERY value fails the cutoff rule: a graded spectrum
    with cutoffs at / above its largest value, and the exactly zero matrix
    with any cutoff (including the defaults).  The statement: never zero
    values kept, never above the cap; shapes consistent, factors finite."""
    method, form, dtype, shape, spec, mode = cell["method"], cell["form"], cell["dtype"], tuple(cell["shape"]), cell["spec"], cell["mode"]
    d = DOC[method]
    res = []
    cache = {}
    cutoffs = E_ZERO_CUTOFFS if spec == "zero" else E_CUTOFFS
    for cutoff, mb, renorm in itertools.product(cutoffs, [None, 2], E_RENORMS):
        trunc_requested = cutoff > 0 or mb is not None
        base, eff = resolve(method, form, trunc_requested)
        if eff not in cache:
            x = make_matrix(base, eff, shape, spec, dtype)
            if x is None and DOC[base]["inp"] == "fullrank":
                x = make_matrix(base, eff, shape[::-1], spec, dtype)
            cache[eff] = x
        x = cache[eff]
        if x is None:
            res.append(table.rejected("no-domain-member:%s:%s:%s" % (method, fname(form), spec)))
            continue
        for impl in cell["impls"]:
            for use_info in ((False, True) if d["info"] else (False,)):
                res.append(evaluate(x, method, form, cutoff, mode, mb, renorm, impl, use_info, dtype, spec=spec))
    return res


# --------------------------------------------------------------------------- #
#                                 table B                                     #
# --------------------------------------------------------------------------- #

UNTRUNC = [(0.0, None), (None, None), (-1.0, None), (0.0, "kfull+1")]


def cell_B(cell, common):
    method, form, dtype, shape, spec = cell["method"], cell["form"], cell["dtype"], tuple(cell["shape"]), cell["spec"]
    d = DOC[method]
    variant = cell.get("variant", "")
    res = []
    kfull = min(shape)
    base, eff = resolve(method, form, False)
    x = make_matrix(base, eff, shape, spec, dtype, variant=variant)
    if x is None:
        return [table.rejected("no-domain-member:%s:%s" % (method, fname(form)))]
    # documented shape domain of the isometry claim of the polar drivers
    shape_domain = not ((base == "polar_right" and shape[0] < shape[1]) or (base == "polar_left" and shape[0] > shape[1]))
    modes = ["rsum2", "rel"] if base == "lu" else ["rsum2"]
    settings = list(UNTRUNC)
    if DOC[base]["kind"] == "iter":
        settings.append((1e-10, None))  # the drivers' own default: 'everything above rounding'
    for (cutoff, mb), mode in itertools.product(settings, modes):
        if mb == "kfull+1":
            mb = kfull + 1
        if base == "lu" and mb is not None:
            continue
        for impl in cell["impls"]:
            for use_info in ((False, True) if d["info"] else (False,)):
                res.append(evaluate(x, method, form, cutoff, mode, mb, None, impl, use_info, dtype, variant=variant, shape_domain=shape_domain, spec=spec))
    return res


# --------------------------------------------------------------------------- #
#                                 table Z                                     #
# --------------------------------------------------------------------------- #


def cell_Z(cell, common):
    """Every alias key of the absorb / cutoff-mode maps gives bit-identical
    results to the canonical spelling."""
    from quimb.tensor import decomp as D

    res = []
    x = fill("svals", (4, 3), "complex128", key=("c05", "Z"), s=SPECTRA["graded"][:3])
    canon = {}
    if cell["what"] == "absorb":
        groups = {}
        for key, code in D._ABSORB_MAP.items():
            groups.setdefault(code, []).append(key)
        for code, keys in sorted(groups.items(), key=lambda kv: repr(kv[0])):
            for method in ("svd", "qr", "svd:eig"):
                outs = []
                for key in keys:
                    try:
                        o = D.array_split(x, method=method, absorb=key, cutoff=0.0)
                        outs.append(tuple(None if a is None else np.asarray(a).tobytes() for a in o))
                    except (ValueError, KeyError, NotImplementedError) as ex:
                        outs.append(type(ex).__name__)
                if any(o != outs[0] for o in outs):
                    res.append(table.bad(core.problem("aliases %r of one absorb code give different results for method %s" % (keys, method), entry="array_split", method=method, check="alias", root="-"), sub="absorb:%r:%s" % (code, method)))
                else:
                    res.append(table.ok(key="absorb:%r:%s:%d" % (code, method, len(keys)), nontrivial=len(keys) > 1, outcome="alias-consistent", evals=len(keys)))
    else:
        groups = {}
        for key, code in D._CUTOFF_MODE_MAP.items():
            groups.setdefault(code, []).append(key)
        for code, keys in sorted(groups.items()):
            for method in ("svd", "svd:eig"):
                outs = []
                for key in keys:
                    o = D.array_split(x, method=method, absorb=None, cutoff=0.3, cutoff_mode=key)
                    outs.append(tuple(None if a is None else np.asarray(a).tobytes() for a in o))
                if any(o != outs[0] for o in outs):
                    res.append(table.bad(core.problem("aliases %r of one cutoff mode give different results for method %s" % (keys, method), entry="array_split", method=method, check="alias", root="-"), sub="mode:%r:%s" % (code, method)))
                else:
                    res.append(table.ok(key="mode:%r:%s:%d" % (code, method, len(keys)), nontrivial=len(keys) > 1, outcome="alias-consistent", evals=len(keys)))
    return res



# --------------------------------------------------------------------------- #
#                       table D: tensor_split / Tensor.split                  #
# --------------------------------------------------------------------------- #

TENSORS = {
    "T3": dict(shape=(2, 1, 3), inds=("a", "b", "c")),
    "T4": dict(shape=(2, 3, 1, 2), inds=("a", "b", "c", "d")),
    "T3b": dict(shape=(3, 2, 2), inds=("a", "b", "c")),
    "TH": dict(shape=(2, 2, 2, 2), inds=("a", "b", "c", "d")),
    "T3z": dict(shape=(2, 1, 3), inds=("a", "b", "c")),  # exactly zero
    "THz": dict(shape=(2, 2, 2, 2), inds=("a", "b", "c", "d")),  # exactly zero (hermitian over ab|cd)
}
D_FORMS = [f for f in FORMS if f != "s"]  # tensor_split does not document 's' (use get='values')
D_VARIANTS = {
    "plain": {},
    "named": dict(bond_ind="bnd", ltags="L", rtags=("R", "R2"), stags="S"),
    "msv": dict(matrix_svals=True),
    "msv-named": dict(matrix_svals=True, bond_ind=("bl", "br"), stags="S"),
}
D_TRUNC = {
    "none": dict(cutoff=0.0),
    "cap1": dict(cutoff=0.0, max_bond=1),
    "rel.3": dict(cutoff=0.3, cutoff_mode="rel"),
}


# every value fails the rule: the tensor_split defaults (cutoff=1e-10, 'rel') on a zero tensor, 'rel' with
# cutoff 1, an 'abs' cutoff above the largest value
D_TRUNC_X = {
    "default": dict(),
    "rel1": dict(cutoff=1.0, cutoff_mode="rel"),
    "abs50": dict(cutoff=50.0, cutoff_mode="abs"),
}


def make_tensor_data(tname, dtype, kind="generic"):
    spec = TENSORS[tname]
    if tname.endswith("z"):
        return np.zeros(spec["shape"], dtype=dtype)
    if tname == "TH":
        lam = [1.0, 0.5, 0.25, 0.1] if kind == "psd" else [1.0, -0.5, 0.25, -0.1]
        return fill("spectrum", (4, 4), dtype, key=("c05", "TH", kind), lam=lam).reshape(spec["shape"])
    return fill("generic", spec["shape"], dtype, key=("c05", tname))


def _fuse(a, inds, left, right):
    """numpy reference fuse: array with labelled axes -> matrix (left | right)."""
    perm = [inds.index(i) for i in tuple(left) + tuple(right)]
    b = np.transpose(np.asarray(a), perm)
    dl = int(np.prod([b.shape[i] for i in range(len(left))], dtype=int))
    dr = int(np.prod([b.shape[i] for i in range(len(left), b.ndim)], dtype=int))
    return b.reshape(dl, dr)


def bipartitions(inds, full):
    """Every ordered-left spec: all non-empty proper subsets (sorted order, and
    reversed order when len >= 2), + explicit right_inds (reversed complement)
    for the sorted ones, + the two degenerate bipartitions."""
    out = []
    n = len(inds)
    for r in range(1, n):
        for sub in itertools.combinations(inds, r):
            comp = tuple(i for i in inds if i not in sub)
            out.append((sub, None))
            if r >= 2:
                out.append((sub[::-1], None))
            if len(comp) >= 2:
                out.append((sub, comp[::-1]))
    out.append(((), None))
    out.append((tuple(inds), None))
    return out


def cell_D(cell, common):
    import quimb as qu
    import quimb.tensor as qtn
    from quimb.tensor import decomp as D

    tname, left, right_given = cell["tensor"], tuple(cell["left"]), cell["right"]
    method, form, get, dtype = cell["method"], cell["form"], cell["get"], cell["dtype"]
    variant, tr = cell["variant"], cell["trunc"]
    left_none = bool(cell.get("left_none"))
    spec = TENSORS[tname]
    inds = tuple(spec["inds"])
    sub = None
    entry = "tensor_split"
    trunc_opts = dict(D_TRUNC[tr] if tr in D_TRUNC else D_TRUNC_X[tr])
    cutoff = trunc_opts.get("cutoff", 1e-10)  # tensor_split default
    mode = trunc_opts.get("cutoff_mode", "rel")  # tensor_split default
    mb = trunc_opts.get("max_bond")
    trunc_requested = (cutoff is not None and cutoff > 0) or mb is not None
    base, eff = resolve(method, form, trunc_requested)
    kind, prec = DOC[base]["kind"], DOC[base]["prec"]
    if tname.endswith("z") and DOC[base]["inp"] in ("pd", "fullrank"):
        return table.rejected("no-domain-member:%s:zero" % method)
    if kind == "iter" and cutoff == 0.0 and mb is None:
        # the iterative drivers cannot be called with cutoff=0.0 / no cap (known finding at array level,
        # table B); the tensor level uses the spelling that works so that the wrapping is what is tested
        trunc_opts["cutoff"] = cutoff = 1e-10
    vopts = dict(D_VARIANTS[variant])
    msv = bool(vopts.get("matrix_svals"))
    right = tuple(right_given) if right_given is not None else tuple(i for i in inds if i not in left)

    dkind = "psd" if (DOC[base]["inp"] == "pd" or (DOC[base]["inp"] == "herm" and eff in SQRTFORMS)) else "generic"
    data = make_tensor_data(tname, dtype, dkind)
    T = qtn.Tensor(data.copy(), inds=inds, tags=("T0", "X"))
    M = _fuse(data, inds, left, right)
    ldims = tuple(data.shape[inds.index(i)] for i in left)
    rdims = tuple(data.shape[inds.index(i)] for i in right)

    roots = root_of(method, base, form, eff, dtype, "accel", cutoff, mode, mb, 0, shape=tuple(M.shape), zero=not np.any(M))
    if msv and form is not None:
        roots.append("matrix-svals-with-absorbed-form")  # bond naming is done by tensor_split itself

    def bad(check, msg, **more):
        sig = dict(entry=entry, method=base, check=check, root=roots.pick(check, more.get("exc")))
        sig.update(more)
        return core.problem("tensor_split(%s%s, left_inds=%r, right_inds=%r, method=%r, absorb=%r, get=%r, %s, %s): %s" % (tname, list(spec["shape"]), None if left_none else left, right_given, method, form, get, trunc_opts, vopts, msg), **sig)

    # documented domain of the drivers at this bipartition
    if DOC[base]["inp"] == "fullrank":
        if (eff in QRLIKE and M.shape[0] < M.shape[1]) or (eff in LQLIKE and M.shape[0] > M.shape[1]):
            return table.rejected("no-domain-member:%s:%s" % (method, "tall" if M.shape[0] > M.shape[1] else "wide"))
    shape_domain = not ((base == "polar_right" and M.shape[0] < M.shape[1]) or (base == "polar_left" and M.shape[0] > M.shape[1]))

    qu.seed_rand(7)
    fresh_option_caches(D)
    kw = dict(method=method, absorb=form, get=get, **trunc_opts, **vopts)
    if base == "svd:rand":
        kw["seed"] = 7
    if right_given is not None:
        kw["right_inds"] = right
    supported = eff in DOC[base]["forms"]
    if base == "isvd" and is_single(dtype):
        supported = False
    single_factor = sum(PRES[eff]) == 1
    def _call():
        if left_none:
            return qtn.tensor_split(T, None, **kw)
        if right_given is not None:
            return qtn.tensor_split(T, left, **kw)
        return T.split(left, **kw)

    try:
        res = twice("-" if not (roots.any or (get is None and single_factor)) else "x", _call)
    except np.linalg.LinAlgError as ex:
        return table.bad(bad("crash", "LinAlgError: %s" % str(ex)[:120], exc="LinAlgError"))
    except NotImplementedError:
        return table.rejected("%s:%s:form=%s:NotImplementedError" % (entry, method, fname(form)))
    except (ValueError, KeyError) as ex:
        if supported and "absorb-ignored" not in roots:
            return table.bad(bad("unexpected-rejection", "%s: %s" % (type(ex).__name__, str(ex)[:160]), exc=type(ex).__name__))
        return table.rejected("%s:%s:form=%s:%s" % (entry, method, fname(form), type(ex).__name__))
    except TypeError as ex:
        if get is None and single_factor:
            # a network of one factor + None: not a documented combination
            return table.rejected("%s:get=None:single-factor-form:TypeError" % entry)
        return table.bad(bad("crash", "TypeError: %s" % str(ex)[:160], exc="TypeError"))
    except Exception as ex:
        return table.bad(bad("crash", "%s: %s" % (type(ex).__name__, str(ex)[:400].replace("\n", " ")), exc=type(ex).__name__))

    probs = []
    # input untouched
    if T.inds != inds or not np.array_equal(np.asarray(T.data), data) or set(T.tags) != {"T0", "X"}:
        probs.append(bad("input-mutated", "the input tensor was modified"))

    want = PRES[eff]
    # ---- unpack ----------------------------------------------------------- #
    tl = ts = tr_ = None
    arrays = {}
    labels = {}
    tagsets = {}
    flags = {}
    try:
        if get == "arrays":
            if form is None:
                al, as_, ar = res
            else:
                al, ar = res
                as_ = None
            arrays = {"l": al, "s": as_, "r": ar}
        else:
            if get == "tensors":
                tens = tuple(res)
            else:
                if not isinstance(res, qtn.TensorNetwork):
                    return table.bad(bad("return-type", "get=None returned %s" % type(res).__name__))
                tens = tuple(res.tensors)
                if len(tens) != sum(want):
                    return table.bad(bad("structure", "network has %d tensors, form %s should give %d" % (len(tens), fname(eff), sum(want))))
                # tensors of a network come in insertion order (left, [s], right)
                if form is None:
                    tens = tens if len(tens) == 3 else (tens + (None,) * 3)[:3]
                else:
                    tens = tens if len(tens) == 2 else (tens + (None,) * 2)[:2]
            if form is None:
                tl, ts, tr_ = tens
            else:
                tl, tr_ = tens
            for nm, t in (("l", tl), ("s", ts), ("r", tr_)):
                arrays[nm] = None if t is None else np.asarray(t.data)
                labels[nm] = None if t is None else tuple(t.inds)
                tagsets[nm] = None if t is None else set(t.tags)
                flags[nm] = None if t is None else (None if t.left_inds is None else tuple(t.left_inds))
    except Exception as ex:
        return table.bad(bad("return-type", "cannot unpack the result for get=%r: %s: %s" % (get, type(ex).__name__, str(ex)[:100])))

    al, as_, ar = arrays.get("l"), arrays.get("s"), arrays.get("r")
    got = (int(al is not None), int(as_ is not None), int(ar is not None))
    if got != want:
        probs.append(bad("structure", "form %s should return (left,s,right) presence %s, got %s" % (fname(eff), want, got)))
        return table.bad(probs)

    # ---- shapes, labels, tags, bond names ---------------------------------- #
    try:
        k = None
        if al is not None:
            al = np.asarray(al)
            if tuple(al.shape[:-1]) != ldims or al.ndim != len(ldims) + 1:
                probs.append(bad("unfuse", "left factor has shape %s, left dims are %s" % (al.shape, ldims)))
                return table.bad(probs)
            k = al.shape[-1]
        if ar is not None:
            ar = np.asarray(ar)
            if tuple(ar.shape[1:]) != rdims or ar.ndim != len(rdims) + 1:
                probs.append(bad("unfuse", "right factor has shape %s, right dims are %s" % (ar.shape, rdims)))
                return table.bad(probs)
            k = ar.shape[0] if k is None else k
        svec = None
        if as_ is not None:
            as_ = np.asarray(as_)
            if msv:
                if as_.ndim != 2 or as_.shape[0] != as_.shape[1]:
                    probs.append(bad("matrix-svals", "matrix_svals=True returned values of shape %s" % (as_.shape,)))
                    return table.bad(probs)
                if np.max(np.abs(as_ - np.diag(np.diag(as_)))) != 0:
                    probs.append(bad("matrix-svals", "singular value matrix is not diagonal"))
                svec = np.diag(as_)
            else:
                if as_.ndim != 1:
                    probs.append(bad("matrix-svals", "matrix_svals=False returned values of shape %s" % (as_.shape,)))
                    return table.bad(probs)
                svec = as_
        lmat = None if al is None else al.reshape(int(np.prod(ldims, dtype=int)), -1)
        rmat = None if ar is None else ar.reshape(ar.shape[0], int(np.prod(rdims, dtype=int)))
    except Exception as ex:
        return table.bad(bad("malformed", "%s: %s" % (type(ex).__name__, str(ex)[:100])))

    if get != "arrays":
        bl = br = None
        if tl is not None:
            if labels["l"][:-1] != left:
                probs.append(bad("labels", "left tensor labels %s, requested left_inds %s" % (labels["l"], left)))
            bl = labels["l"][-1]
            if tagsets["l"] != {"T0", "X"} | ({vopts["ltags"]} if "ltags" in vopts else set()):
                probs.append(bad("tags", "left tensor tags %s" % sorted(tagsets["l"])))
        if tr_ is not None:
            if labels["r"][1:] != right:
                probs.append(bad("labels", "right tensor labels %s, right inds %s" % (labels["r"], right)))
            br = labels["r"][0]
            if tagsets["r"] != {"T0", "X"} | (set(vopts["rtags"]) if "rtags" in vopts else set()):
                probs.append(bad("tags", "right tensor tags %s" % sorted(tagsets["r"])))
        if ts is not None:
            want_s = (bl, br) if msv else (bl,)
            if labels["s"] != want_s:
                probs.append(bad("labels", "singular value tensor labels %s, expected %s" % (labels["s"], want_s)))
            if tagsets["s"] != {"T0", "X"} | ({vopts["stags"]} if "stags" in vopts else set()):
                probs.append(bad("tags", "singular value tensor tags %s" % sorted(tagsets["s"])))
        two_bonds = msv and form is None
        if tl is not None and tr_ is not None:
            if (bl != br) != two_bonds:
                probs.append(bad("bond", "left factor carries bond %r, right factor bond %r (%s expected)" % ("<new>" if bl not in ("bnd", "bl", "br") else bl, "<new>" if br not in ("bnd", "bl", "br") else br, "two bonds joined by the value matrix" if two_bonds else "ONE shared bond")))
        for b in (bl, br):
            if b is not None and b in inds:
                probs.append(bad("bond", "new bond reuses an existing label %r" % b))
        if "bond_ind" in vopts:
            wb = vopts["bond_ind"]
            if isinstance(wb, str):
                if (bl is not None and bl != wb) or (br is not None and br != wb):
                    probs.append(bad("bond", "bond_ind=%r requested, got %r / %r" % (wb, bl, br)))
            elif two_bonds:
                if (bl is not None and bl != wb[0]) or (br is not None and br != wb[1]):
                    probs.append(bad("bond", "bond_ind=%r requested, got %r / %r" % (wb, bl, br)))
        # network semantics: the denotation over the input labels equals the product of the factors
        if get is None and tl is not None and tr_ is not None and not probs:
            from .. import ref

            try:
                val = ref.tn_value([(np.asarray(t.data, dtype=np.complex128), tuple(t.inds)) for t in res.tensors], left + right)
                outer = set(res.outer_inds())
                prod = (np.asarray(lmat, dtype=np.complex128) * (np.asarray(svec, dtype=np.complex128)[None, :] if svec is not None else 1.0)) @ np.asarray(rmat, dtype=np.complex128)
                if outer != set(inds):
                    probs.append(bad("network", "outer labels of the returned network %s != labels of the input %s" % (sorted(outer), sorted(inds))))
                elif not ref.close(val.reshape(prod.shape), prod, rtol=1e-10, atol=1e-12):
                    probs.append(bad("network", "contraction of the returned network differs from the product of its fused factors"))
            except Exception as ex:
                probs.append(bad("network", "returned network cannot be contracted over the input labels: %s" % type(ex).__name__))

    # ---- the array-level property on the fused factors --------------------- #
    p = 0
    trunc = dict(cutoff=cutoff if kind in ("svd", "iter", "lu") else None, mode=mode, max_bond=mb if kind in ("svd", "iter", "static") else None, p=p)
    try:
        cp, obs = check_split(M, (lmat, svec, rmat), eff, base, kind, prec, trunc, info=None, shape_domain=shape_domain)
    except Exception as ex:
        return table.bad(bad("malformed", "result cannot be evaluated: %s: %s" % (type(ex).__name__, str(ex)[:120])))
    seen = set()
    for chk, msg in cp:
        if chk not in seen:
            seen.add(chk)
            probs.append(bad(chk, msg))

    # ---- isometry FLAGS on the wrapped tensors ------------------------------ #
    nflag = 0
    if get != "arrays" and not probs:
        tol = tolerances(prec, dtype, kind)
        for nm, t, mat in (("l", tl, lmat), ("r", tr_, None if rmat is None else rmat.T)):
            if t is None or flags[nm] is None:
                continue
            nflag += 1
            if set(flags[nm]) != set(left if nm == "l" else right):
                probs.append(bad("isometry-flag", "%s tensor flagged isometric over %s" % (nm, flags[nm])))
                continue
            if not obs.get("iso_asserted", True) and ISO.get(eff, (0, 0))[0 if nm == "l" else 1]:
                continue  # precision-aware skip (Gram-matrix methods, polar shape domain)
            a = np.asarray(mat, dtype=np.complex128)
            dfc = float(np.max(np.abs(_H(a) @ a - np.eye(a.shape[1]))))
            if dfc > tol["iso"] * 10:
                probs.append(bad("isometry-flag", "%s tensor carries left_inds=%s (reported isometric) but |A^H A - 1| = %.3e" % ("left" if nm == "l" else "right", flags[nm], dfc)))
    if probs:
        return table.bad(probs)
    key = "|".join(map(str, [tname, left, right_given, left_none, method, fname(form), get, variant, tr, dtype]))
    outc = "D:%s:%s:%s:flags=%d" % (kind, "trunc" if obs.get("truncated") else "full", get, nflag)
    return table.ok(key=key, nontrivial=len(left) > 0 and len(right) > 0, outcome=outc)


def cell_V(cell, common):
    """get='values' (and Tensor.singular_values): numpy singular values of the
    fused matrix."""
    import quimb.tensor as qtn

    tname, left, method, dtype, msv = cell["tensor"], tuple(cell["left"]), cell["method"], cell["dtype"], cell["msv"]
    spec = TENSORS[tname]
    inds = tuple(spec["inds"])
    right = tuple(i for i in inds if i not in left)
    data = make_tensor_data(tname, dtype)
    T = qtn.Tensor(data.copy(), inds=inds, tags=("T0",))
    M = _fuse(data, inds, left, right)
    sref = np.linalg.svd(np.asarray(M, dtype=np.complex128), compute_uv=False)
    kw = {}
    if method is not None:
        kw["method"] = method
    try:
        if cell["via"] == "singular_values":
            v = T.singular_values(left, **kw)
        else:
            v = T.split(left, get="values", matrix_svals=msv, **kw)
    except (KeyError, ValueError) as ex:
        return table.rejected("tensor_split:get=values:method=%s:%s" % (method, type(ex).__name__))
    except Exception as ex:
        base = "svd:eig" if method in ("svd:eig", "eig") else str(method)
        root = "svd-eig-single-precision-numba" if (base == "svd:eig" and is_single(dtype)) else "-"
        return table.bad(core.problem("T.split(%r, get='values', method=%r) on %s: %s: %s" % (left, method, dtype, type(ex).__name__, str(ex)[:100]), entry="tensor_split", method=base, check="crash", root=root, exc=type(ex).__name__))
    v = np.asarray(v)
    if msv and cell["via"] != "singular_values":
        if v.ndim != 2:
            return table.bad(core.problem("matrix_svals=True with get='values' returned shape %s" % (v.shape,), entry="tensor_split", method=str(method), check="matrix-svals", root="-"))
        v = np.diag(v)
    prec = "gram" if method in ("svd:eig", "eig") else "direct"
    tol = tolerances(prec, dtype, "svd")["val"]
    if v.shape != sref.shape or np.max(np.abs(np.sort(np.abs(v))[::-1] - sref)) > tol * sref[0] or (v.size > 1 and np.any(np.diff(v.real) > tol * sref[0])):
        return table.bad(core.problem("T.split(%r, get='values', method=%r) = %s, numpy singular values %s" % (left, method, np.round(v, 9).tolist(), np.round(sref, 9).tolist()), entry="tensor_split", method=str(method), check="values", root="-"))
    return table.ok(key="V|%s|%s|%s|%s|%s|%s" % (tname, left, method, dtype, msv, cell["via"]), nontrivial=min(M.shape) > 1, outcome="values:ok")


def cell_L(cell, common):
    """TNLinearOperator input (the sparse-capable drivers get the operator,
    the dense-only ones its dense form)."""
    import quimb as qu
    import quimb.tensor as qtn
    from quimb.tensor import decomp as D

    method, form, get, dtype, tr = cell["method"], cell["form"], cell["get"], cell["dtype"], cell["trunc"]
    herm = DOC[DOC[method].get("alias", method)]["inp"] in ("herm", "pd")
    A = fill("generic", (2, 3, 2), dtype, key=("c05", "LA"))
    if herm:
        # A (a,b,x) . conj(A) (c,d,x)  -> PSD operator (a,b | c,d) of rank 2
        ta = qtn.Tensor(A, inds=("a", "b", "x"), tags=("A",))
        tb = qtn.Tensor(np.conj(A), inds=("c", "d", "x"), tags=("B",))
    else:
        B = fill("generic", (2, 3, 2), dtype, key=("c05", "LB"))
        ta = qtn.Tensor(A, inds=("a", "b", "x"), tags=("A",))
        tb = qtn.Tensor(B, inds=("x", "c", "d"), tags=("B",))
    left, right = ("a", "b"), ("c", "d")
    from .. import ref

    M = ref.tn_value([(np.asarray(ta.data), ta.inds), (np.asarray(tb.data), tb.inds)], left + right).reshape(6, 6)
    from quimb.tensor.tensor_core import TNLinearOperator

    lo = TNLinearOperator([ta, tb], left_inds=left, right_inds=right)
    trunc_opts = dict(D_TRUNC[tr])
    cutoff = trunc_opts.get("cutoff")
    mode = trunc_opts.get("cutoff_mode", "rel")
    mb = trunc_opts.get("max_bond")
    trunc_requested = (cutoff is not None and cutoff > 0) or mb is not None
    base, eff = resolve(method, form, trunc_requested)
    kind, prec = DOC[base]["kind"], DOC[base]["prec"]
    if kind == "iter" and cutoff == 0.0 and mb is None:
        trunc_opts["cutoff"] = cutoff = 1e-10  # the documented way to get 'everything' from an iterative driver
        mode = "rel"
        trunc_opts["cutoff_mode"] = "rel"
    roots = root_of(method, base, form, eff, dtype, "accel", cutoff, mode, mb, 0, nonpos=herm, shape=(6, 6))
    entry = "tensor_split[TNLinearOperator]"

    def bad(check, msg, **more):
        sig = dict(entry=entry, method=base, check=check, root=roots.pick(check, more.get("exc")))
        sig.update(more)
        return core.problem("tensor_split(TNLinearOperator 6x6 rank 2, method=%r, absorb=%r, get=%r, %s) %s: %s" % (method, form, get, trunc_opts, dtype, msg), **sig)

    qu.seed_rand(7)
    fresh_option_caches(D)
    kw = dict(method=method, absorb=form, get=get, **trunc_opts)
    if base == "svd:rand":
        kw["seed"] = 7
    supported = eff in DOC[base]["forms"] and not (base == "isvd" and is_single(dtype))
    single_factor = sum(PRES[eff]) == 1
    try:
        res = twice("-" if not (roots.any or (get is None and single_factor)) else "x", lambda: qtn.tensor_split(lo, left, right_inds=right, **kw) if cell["via"] == "tensor_split" else lo.split(**kw))
    except np.linalg.LinAlgError as ex:
        return table.bad(bad("crash", "LinAlgError: %s" % str(ex)[:120], exc="LinAlgError"))
    except NotImplementedError:
        return table.rejected("%s:%s:form=%s:NotImplementedError" % (entry, method, fname(form)))
    except (ValueError, KeyError) as ex:
        if supported and "absorb-ignored" not in roots:
            return table.bad(bad("unexpected-rejection", "%s: %s" % (type(ex).__name__, str(ex)[:160]), exc=type(ex).__name__))
        return table.rejected("%s:%s:form=%s:%s" % (entry, method, fname(form), type(ex).__name__))
    except TypeError as ex:
        if get is None and single_factor:
            return table.rejected("%s:get=None:single-factor-form:TypeError" % entry)
        return table.bad(bad("crash", "TypeError: %s" % str(ex)[:160], exc="TypeError"))
    except Exception as ex:
        return table.bad(bad("crash", "%s: %s" % (type(ex).__name__, str(ex)[:400].replace("\n", " ")), exc=type(ex).__name__))
    try:
        if get == "arrays":
            parts = tuple(res)
            arrs = [None if a is None else np.asarray(a) for a in parts]
        elif get == "tensors":
            arrs = [None if t is None else np.asarray(t.data) for t in res]
        else:
            arrs = [np.asarray(t.data) for t in res.tensors]
        if form is None:
            al, sv, ar = arrs
        else:
            al, ar = arrs
            sv = None
        lmat = None if al is None else al.reshape(6, -1)
        rmat = None if ar is None else ar.reshape(ar.shape[0], 6)
    except Exception as ex:
        return table.bad(bad("malformed", "cannot unpack: %s: %s" % (type(ex).__name__, str(ex)[:100])))
    trunc = dict(cutoff=cutoff if kind in ("svd", "iter", "lu") else None, mode=mode, max_bond=mb if kind in ("svd", "iter", "static") else None, p=0)
    try:
        cp, obs = check_split(np.asarray(M).astype(dtype), (lmat, sv, rmat), eff, base, kind, prec, trunc)
    except Exception as ex:
        return table.bad(bad("malformed", "result cannot be evaluated: %s: %s" % (type(ex).__name__, str(ex)[:120])))
    if cp:
        seen = set()
        probs = []
        for chk, msg in cp:
            if chk not in seen:
                seen.add(chk)
                probs.append(bad(chk, msg))
        return table.bad(probs)
    return table.ok(key="L|%s|%s|%s|%s|%s|%s" % (method, fname(form), get, dtype, tr, cell["via"]), nontrivial=True, outcome="L:%s:%s" % (kind, "trunc" if obs.get("truncated") else "full"))

# --------------------------------------------------------------------------- #
#                    table H: two-call histories (option memo)                #
# --------------------------------------------------------------------------- #

H_RENORMS = [None, False, 0, True, 1, 2]


def cell_H(cell, common):
    """A split must not depend on which splits were done before it in the
    process: for every ordered pair (first renorm, second renorm) the second
    call must give what it gives in a fresh process."""
    from quimb.tensor import decomp as D

    method, mode, dtype = cell["method"], cell["mode"], cell["dtype"]
    x = make_matrix(method, "both", (4, 3) if DOC[method]["inp"] == "any" else (4, 4), "graded", dtype)
    kw = dict(method=method, absorb=None, cutoff=0.0, cutoff_mode=mode, max_bond=2)
    res = []

    def vals(renorm):
        l, s_, r = D.array_split(x, renorm=renorm, **kw)
        return np.asarray(s_).tobytes()

    fresh = {}
    for b in H_RENORMS:
        fresh_option_caches(D)
        fresh[repr(b)] = vals(b)
    for a, b in itertools.product(H_RENORMS, H_RENORMS):
        fresh_option_caches(D)
        vals(a)
        got = vals(b)
        sub = "%r->%r" % (a, b)
        if got != fresh[repr(b)]:
            clash = (a is True and b == 1 and b is not True) or (b is True and a == 1 and a is not True)
            root = "option-memo-conflates-True-and-1" if clash else "-"
            res.append(table.bad(core.problem(
                "array_split(method=%r, cutoff_mode=%r, max_bond=2, renorm=%r) gives different kept values when array_split(..., renorm=%r) was called before it in the same process" % (method, mode, b, a),
                entry="array_split", method=method, check="history", root=root), sub=sub))
        else:
            res.append(table.ok(key="H|%s|%s|%s|%s" % (method, mode, dtype, sub), nontrivial=repr(a) != repr(b), outcome="history-independent", sub=sub))
    fresh_option_caches(D)
    return res


# --------------------------------------------------------------------------- #
#                                  driver                                     #
# --------------------------------------------------------------------------- #


def registry_axes(ctx):
    from quimb.tensor import decomp as D

    methods = sorted(D._SPLIT_FNS) + ALIASES
    unknown = [m for m in methods if m not in DOC]
    if unknown:
        ctx.notes["methods_without_documented_facts_skipped"] = unknown
        ctx.cap("registered methods unknown to the harness: %s" % unknown)
    methods = [m for m in methods if m in DOC]
    codes = sorted(set(map(repr, D._ABSORB_MAP.values())))
    if len(codes) != len(ALLF):
        ctx.notes["absorb_codes_in_registry"] = codes
        ctx.cap("absorb registry has %d codes, harness knows %d forms" % (len(codes), len(ALLF)))
    modes = sorted(k for k in D._CUTOFF_MODE_MAP if isinstance(k, str))
    if sorted(modes) != sorted(MODES):
        ctx.notes["cutoff_modes_in_registry"] = modes
        ctx.cap("cutoff-mode registry differs from the documented six modes")
    return methods


def run(ctx):
    thorough = ctx.tier == "thorough"
    only = ctx.opts.get("only")
    methods = registry_axes(ctx)
    if "method" in ctx.opts:
        methods = [m for m in methods if m in ctx.opts["method"].split(",")]
    ctx.rule = (
        "complete products of (method, form, cutoff mode, cutoff, bond cap, renorm power, dtype, shape, spectrum, implementation, info on/off) "
        "for array_split and of (tensor, bipartition, method, form, get, wrapping options) for tensor_split, evaluated on the real code; "
        "a case is distinct by its full configuration tuple and non-trivial when the matrix has more than one entry and the call was accepted; "
        "oracle = complex128 numpy SVD of the same input + the documented truncation rule with interval arithmetic"
    )
    ctx.assumptions += [
        "rank decisions are asserted only when every comparison of the documented rule has a margin larger than the rounding noise the method is documented to have (64 eps s0 for direct methods, sqrt(64 eps) s0 for the Gram-matrix methods svd:eig / qr:cholesky); undecided cases are counted in outcomes as rank-undecided",
        "isometry of factors from Gram-matrix methods is asserted only when 100 eps cond^2 is below the tolerance (condition number of the kept values)",
        "drivers whose signature has no max_bond / cutoff / renorm (qr family, cholesky, polar; cutoff and renorm for svd:rand) ignore these options by documented design (parse_split_opts: 'only supply valid options for given method')",
        "eigh / eigsh get hermitian input (indefinite, PSD for the sqrt forms), cholesky positive definite input with condition <= 1e4, qr:cholesky full-rank input with m >= n for QR-like and m <= n for LQ-like forms",
        "iterative / randomised drivers (svds, isvd, rsvd, eigsh) choose their working rank with a randomised estimator: only assertions independent of that choice are made (cap, structure, isometry, optimality for the returned k where the driver is exact)",
        "info= is passed only to svd and svd:eig (DESIGN section 7)",
        "polar_right on wide and polar_left on tall matrices cannot return an isometry of the documented shape: only the product is asserted there",
    ]
    dt_A = DTYPES if thorough else ["float64", "complex128"]
    shapes_A = [(4, 3), (3, 4), (4, 4)] if thorough else [(4, 3)]
    spectra_A = sorted(SPECTRA) if thorough else ["graded"]
    if "dtypes" in ctx.opts:
        dt_A = ctx.opts["dtypes"].split(",")
    ctx.bounds = {
        "A": {"methods": methods, "forms": [fname(f) for f in FORMS], "modes": MODES, "cutoffs": CUTOFFS, "max_bond": "None,1,2,kfull,kfull+1", "renorm": [repr(r) for r in RENORMS], "dtypes": dt_A, "shapes": shapes_A, "spectra": spectra_A, "impls": "accel; +batch-of-one and _default_fn for svd, svd:eig, eigh, qr"},
        "B": {"shapes": SHAPES_B, "dtypes": DTYPES, "spectra": sorted(SPECTRA), "untruncated_settings": [repr(u) for u in UNTRUNC] + ["(1e-10, None) for the iterative drivers"]},
        "D": {"tensors": {k: v["shape"] for k, v in TENSORS.items()}, "forms": [fname(f) for f in D_FORMS], "get": ["None", "tensors", "arrays"], "options": sorted(D_VARIANTS), "truncation": sorted(D_TRUNC), "dtypes": ["float32", "float64", "complex128"] if thorough else ["complex128"]},
        "V": {"methods": ["default", "svd", "svd:eig", "eig", "auto", "qr"], "dtypes": DTYPES},
        "L": {"operator": "two tensors (2,3,2) sharing one label, 6x6 of rank 2", "dtypes": DTYPES if thorough else ["float64", "complex128"]},
        "H": {"renorm_pairs": [repr(r) for r in H_RENORMS], "methods": ["svd", "svd:eig", "eigh"]},
        "E": {"inputs": "graded spectrum with cutoff in %s (all six modes); exactly zero matrix with cutoff in %s" % (E_CUTOFFS, E_ZERO_CUTOFFS), "max_bond": "None, 2", "renorm": "None, 2", "dtypes": DTYPES if thorough else ["float64", "complex128"], "shapes": [(4, 3), (3, 4)] if thorough else [(4, 3)]},
        "D3": {"tensors": "generic and exactly zero (2,1,3); hermitian and exactly zero (2,2,2,2)", "truncation": sorted(D_TRUNC_X) + ["none, cap1 on the zero tensors"]},
        "matrix_size_max": "4x4 (array level), 6x6 (operator level)",
    }
    ctx.notes["observations_not_counted_as_violations"] = [
        "tensor_split(..., get='values') with the default method='auto' raises KeyError('auto') (array_svals only knows 'svd' and 'svd:eig'); Tensor.singular_values passes method='svd' and works - counted as rejection tensor_split:get=values:method=None:KeyError",
        "single-factor forms (lorthog, rorthog, lfactor, rfactor, lsqrt, rsqrt) with get=None raise TypeError from the TensorNetwork constructor (one factor + None) - counted as rejection ...:get=None:single-factor-form:TypeError; get='tensors' / 'arrays' work",
        "tensor_split does not document absorb='s'; with get='tensors'/'arrays' it returns (None, None) - not enumerated at tensor level (array level: table A/B)",
        "array_split(info=...) raises TypeError for every driver except svd and svd:eig (DESIGN section 7) - info is only passed to those",
        "agreement of accelerated and generic implementations is established through the common reference (same oracle applied to 2-D numpy input, batch of one, and fn._default_fn), not by comparing them with each other: at undecided rank margins they may legitimately differ",
    ]
    ctx.notes["transient_numba_errors"] = "a crash on a case with no structural reason to fail is asked a second time (numba TypingError seen once under a cold cache shared by 6 compiling workers, not reproducible in three replays)"

    # ---- A ---------------------------------------------------------------- #
    if only in (None, "A"):
        cells = []
        for dtype, shape, spec, method, form, mode in itertools.product(dt_A, shapes_A, spectra_A, methods, FORMS, MODES):
            full = method in ("svd", "svd:eig", "eigh", "qr")
            shp = shape
            if DOC[method]["inp"] in ("herm", "pd"):
                shp = (max(shape), max(shape))
            cells.append({"t": "A", "method": method, "form": form, "dtype": dtype, "shape": list(shp), "spec": spec, "mode": mode, "impls": impls_for(method, full)})
        table.run(ctx, "cell_A", cells, name="A:method x form x mode x truncation grid", chunk=8)
        ctx.subproducts.append("A: method(%d) x form(12) x cutoff_mode(6) x cutoff(5) x max_bond(5) x renorm(4) on shapes %s, dtypes %s, spectra %s; accelerated vs batch-of-one vs _default_fn complete for svd, svd:eig, eigh, qr; info on/off for svd, svd:eig" % (len(methods), shapes_A, dt_A, spectra_A))

    # ---- E ---------------------------------------------------------------- #
    if only in (None, "E"):
        cells = []
        dt_E = DTYPES if thorough else ["float64", "complex128"]
        shapes_E = [(4, 3), (3, 4)] if thorough else [(4, 3)]
        for dtype, shape, spec, method, form, mode in itertools.product(dt_E, shapes_E, ["graded", "zero"], methods, FORMS, MODES):
            shp = shape
            if DOC[method]["inp"] in ("herm", "pd"):
                shp = (max(shape), max(shape))
            cells.append({"t": "E", "method": method, "form": form, "dtype": dtype, "shape": list(shp), "spec": spec, "mode": mode, "impls": impls_for(method, method in ("svd", "svd:eig", "eigh", "qr"))})
        table.run(ctx, "cell_E", cells, name="E:every value fails the rule", chunk=16)
        ctx.subproducts.append("E: method x form x cutoff_mode x {graded spectrum with cutoff in %s; exactly zero matrix with cutoff in %s} x max_bond{None, 2} x renorm{None, 2} on shapes %s, dtypes %s; accelerated, batch-of-one and _default_fn for svd, svd:eig, eigh, qr; info on/off" % (E_CUTOFFS, E_ZERO_CUTOFFS, shapes_E, dt_E))

    # ---- B ---------------------------------------------------------------- #
    if only in (None, "B"):
        cells = []
        for dtype, shape, spec, method, form in itertools.product(DTYPES, SHAPES_B, sorted(SPECTRA), methods, FORMS):
            k = min(shape)
            # spectra that coincide on this shape are enumerated once
            first = [sp for sp in sorted(SPECTRA) if SPECTRA[sp][:k] == SPECTRA[spec][:k]][0]
            if first != spec:
                continue
            cells.append({"t": "B", "method": method, "form": form, "dtype": dtype, "shape": list(shape), "spec": spec, "impls": impls_for(method, True)})
        # hermitian indefinite input with the sqrt forms (documented domain: 'array must be hermitian')
        for dtype, shape, method, form in itertools.product(DTYPES, [(2, 2), (4, 4)], ["eigh", "eigsh"], ["both", "lsqrt", "rsqrt", "auto"]):
            if method in methods:
                cells.append({"t": "B", "method": method, "form": form, "dtype": dtype, "shape": list(shape), "spec": "graded", "impls": ["accel"], "variant": "indef"})
        table.run(ctx, "cell_B", cells, name="B:untruncated method x form x shape x dtype x spectrum", chunk=32)
        ctx.subproducts.append("B: method x form x shape(7) x dtype(4) x spectrum(4, deduplicated per shape) untruncated, with cutoff in {0.0, None, -1} and max_bond in {None, kfull+1}; all implementations")

    # ---- D ---------------------------------------------------------------- #
    if only in (None, "D"):
        dts = ["float32", "float64", "complex128"] if thorough else ["complex128"]
        nonherm = [m for m in methods if DOC[m]["inp"] in ("any", "fullrank")]
        hermm = [m for m in methods if DOC[m]["inp"] in ("herm", "pd")]
        cells = []
        # D1: bipartition x method x form x get
        for dtype in dts:
            for tname in (["T3", "T4", "T3b"] if thorough else ["T3", "T4"]):
                for (left, right_given), method, form, get in itertools.product(bipartitions(TENSORS[tname]["inds"], thorough), nonherm, D_FORMS, [None, "tensors", "arrays"]):
                    cells.append({"t": "D", "tensor": tname, "left": list(left), "right": None if right_given is None else list(right_given), "method": method, "form": form, "get": get, "dtype": dtype, "variant": "plain", "trunc": "none"})
            for (left, right_given), method, form, get in itertools.product([(("a", "b"), None), (("b", "a"), ("d", "c"))], hermm, D_FORMS, [None, "tensors", "arrays"]):
                cells.append({"t": "D", "tensor": "TH", "left": list(left), "right": None if right_given is None else list(right_given), "method": method, "form": form, "get": get, "dtype": dtype, "variant": "plain", "trunc": "none"})
        n1 = len(cells)
        # D2: wrapping options x truncation x get x form on three bipartitions of T3
        for dtype in dts:
            for (left, right_given, left_none), method, form, get, variant, tr in itertools.product(
                [(("a",), None, False), (("a", "b"), None, False), (("c", "a"), None, False), (("a",), ("c", "b"), False), (("a",), ("c", "b"), True)],
                [m for m in ("svd", "svd:eig", "qr", "lq", "polar_right", "svd:rand", "isvd", "auto") if m in methods],
                D_FORMS, [None, "tensors", "arrays"], list(D_VARIANTS), list(D_TRUNC),
            ):
                if variant == "plain" and tr == "none" and not left_none and right_given is None:
                    continue  # already in D1
                cells.append({"t": "D", "tensor": "T3", "left": list(left), "right": None if right_given is None else list(right_given), "left_none": left_none, "method": method, "form": form, "get": get, "dtype": dtype, "variant": variant, "trunc": tr})
        n2 = len(cells)
        # D3: every value fails the rule (zero tensor with the default options; cutoffs at / above the largest value)
        for dtype in dts:
            for tname, meths, bips in (("T3", nonherm, [("a",), ("a", "b"), ("c", "a")]), ("T3z", nonherm, [("a",), ("a", "b"), ("c", "a")]), ("TH", hermm, [("a", "b")]), ("THz", hermm, [("a", "b")])):
                truncs = list(D_TRUNC_X) + (["none", "cap1"] if tname.endswith("z") else [])
                for left, method, form, get, tr in itertools.product(bips, meths, D_FORMS, [None, "tensors", "arrays"], truncs):
                    cells.append({"t": "D", "tensor": tname, "left": list(left), "right": None, "method": method, "form": form, "get": get, "dtype": dtype, "variant": "plain", "trunc": tr})
        table.run(ctx, "cell_D", cells, name="D:tensor_split bipartition x method x form x get (+ options product)", chunk=64)
        ctx.subproducts.append("D3: {generic T3, zero T3z} x 3 bipartitions and {hermitian TH, zero THz} x (ab|cd) x every method x form(11) x get(3) x truncation{tensor_split defaults, cutoff=1 rel, cutoff=50 abs; + none, max_bond=1 on the zero tensors}: %d cells" % (len(cells) - n2))
        ctx.subproducts.append("D1: tensors %s x every ordered bipartition spec (all non-empty proper subsets, sorted and reversed order, explicit reversed right_inds, + the two degenerate bipartitions) x method x form(11, no 's') x get(None, tensors, arrays), untruncated: %d cells" % (["T3", "T4", "T3b", "TH"] if thorough else ["T3", "T4", "TH"], n1))
        ctx.subproducts.append("D2: 5 left/right specs of T3 (incl. left_inds=None with right_inds given) x 8 methods x form(11) x get(3) x options{plain, bond_ind+ltags+rtags+stags, matrix_svals, matrix_svals+bond pair} x truncation{none, max_bond=1, cutoff=0.3 rel}: %d cells" % (n2 - n1))
        # V: get='values'
        cells = []
        for dtype in DTYPES:
            for tname in ("T3", "T4"):
                for (left, right_given) in bipartitions(TENSORS[tname]["inds"], False):
                    if right_given is not None:
                        continue
                    for method in [None, "svd", "svd:eig", "eig", "auto", "qr"]:
                        for msv in (False, True):
                            cells.append({"t": "V", "tensor": tname, "left": list(left), "method": method, "dtype": dtype, "msv": msv, "via": "split"})
                        if method in (None, "svd", "svd:eig"):
                            cells.append({"t": "V", "tensor": tname, "left": list(left), "method": method, "dtype": dtype, "msv": False, "via": "singular_values"})
        table.run(ctx, "cell_V", cells, name="V:get=values", chunk=64)
        ctx.subproducts.append("V: get='values' / Tensor.singular_values x every bipartition of T3, T4 x method{default, svd, svd:eig, eig, auto, qr} x matrix_svals x dtype(4)")
        # L: TNLinearOperator
        cells = []
        for dtype in (DTYPES if thorough else ["float64", "complex128"]):
            for method, form, get, tr, via in itertools.product(methods, D_FORMS, [None, "tensors", "arrays"], list(D_TRUNC), ["tensor_split", "method"]):
                cells.append({"t": "L", "method": method, "form": form, "get": get, "dtype": dtype, "trunc": tr, "via": via})
        table.run(ctx, "cell_L", cells, name="L:TNLinearOperator input", chunk=64)
        ctx.subproducts.append("L: TNLinearOperator (two tensors, 6x6, rank 2; PSD for the hermitian drivers) x method x form(11) x get(3) x truncation(3) x {tensor_split(lo,...), lo.split(...)}")

    # ---- H ---------------------------------------------------------------- #
    if only in (None, "H"):
        cells = [{"t": "H", "method": m, "mode": mode, "dtype": "float64"} for m in ("svd", "svd:eig", "eigh") if m in methods for mode in MODES]
        table.run(ctx, "cell_H", cells, name="H:two-call histories over renorm", chunk=1)
        ctx.subproducts.append("H: all ordered pairs of renorm in {None, False, 0, True, 1, 2} x cutoff_mode(6) x {svd, svd:eig, eigh}: second call equals its fresh-process result")

    # ---- Z ---------------------------------------------------------------- #
    if only in (None, "Z"):
        table.run(ctx, "cell_Z", [{"t": "Z", "what": "absorb"}, {"t": "Z", "what": "mode"}], name="Z:aliases")
        ctx.subproducts.append("Z: every alias of every absorb code x {svd, qr, svd:eig}; every alias of every cutoff mode x {svd, svd:eig}")


def replay(case):
    return table.replay(sys.modules[__name__], case)

"""C18 - exact time evolution follows the Schroedinger / von Neumann equation.

SeqExplorer over update histories of REAL ``quimb.Evolution`` objects, where
the FIRST event of every history is the constructor call for one cell of the
configuration table (method x state kind x state form x Hamiltonian
representation x Hamiltonian data kind x t0 x int_small_step x compute
callbacks x int_stop x progbar x d), followed by ``update_to`` / ``at_times``
events from a fixed menu of requested times (non-uniform, repeated, backwards,
zero-length, integer / numpy typed).  The oracle after every transition is an
independent numpy propagator (``eigh`` for time-independent H, closed form for
the commuting time-dependent family, a cached 4th-order Magnus grid for the
non-commuting family).  A second, table-driven part compares the right-hand
sides of ``quimb.evo`` (Schroedinger ket/dop/vectorised, time-dependent,
Lindblad, Lindblad vectorised) pointwise with their formulas.

Rejection policy (DESIGN 2.1, C18): any exception at construction or at the
first update is a rejection (so is a backwards request with expm) - EXCEPT for
the combinations the documentation / the repository's tests present as
supported (``_must_work``), where a rejection is itself a violation.  After a
rejection the object must still report a correct (t, state) pair, and whether
a combination is supported must not depend on the Hilbert-space dimension
(differential re-run of the same history at another d).  ``method='integrate'``
is only offered non-decreasing requests (see the assumptions in ``run``).

Root-cause signatures are computed from the configuration class and the
oracle that failed; the three known findings have structural triggers
(expm x density operator with a one-sided result; solve x 2x2 matrix H;
progbar x zero-length update_to).
"""

from __future__ import annotations

import collections
import contextlib
import io
import itertools
import os
import signal
import sys

import numpy as np

from .. import core, seq, table
from ..alphabet import fill
from ..qhelp import arr_digest

# --------------------------------------------------------------------------- #
#                           configuration alphabet                            #
# --------------------------------------------------------------------------- #

Cfg = collections.namedtuple("Cfg", "method state pform ham hdt t0 small cb stop prog d play hlay")
# play / hlay: MEMORY LAYOUT of the initial state / of the dense Hamiltonian
# data: C, F (asfortranarray), T (transposed view of a C array, non-owning),
# slice (strided non-owning view into a larger sentinel-filled array).  The
# logical matrix is identical in all four - layout must never matter.
LAYOUTS = ("C", "F", "T", "slice")

METHODS = ("solve", "integrate", "expm")
STATES = ("ket", "dop_pure", "dop_mixed")
TI_FORMS = ("qarray", "ndarray", "csr", "solved", "solvedlist", "linop", "lazy")
TD_REPS = ("tdconst:qarray", "tdcomm:qarray", "tdcomm:csr", "tdnc:qarray", "tdnc:ndarray", "tdnc:csr", "tdnc:linop")
ALL_REPS = tuple("ti:" + f for f in TI_FORMS) + TD_REPS

# requested times are t0 + OFFSETS[i]; index 5 is the INTEGER 1 (+ t0)
OFFSETS = (0.2, 0.5, 0.1, 0.0, -0.15, 1)
NPFLOAT = 6  # pseudo index: numpy.float64(t0 + 0.35)
# pseudo indices 7/8: ONE LONG HOP (and a short hop beyond it), long enough
# that the dop853 / dopri5 stepper needs clearly more than scipy's DEFAULT cap
# of 500 internal steps per integrate() call - quimb lifts that cap with
# nsteps=0, and a hop that is silently cut short only shows when a single hop
# is that long.  The number of steps per unit time varies 4x with the data, so
# the length is calibrated per configuration by a PILOT hop of 60..350 steps
# (below the cap, hence identical whether or not the cap is lifted) with a
# counting callback: T = LONG_TARGET_STEPS / (pilot steps per unit time).
LONG = 7
LONGPLUS = 8
LONG_TARGET_STEPS = 850
LONG_MIN_STEPS = 600
LONG_K = {(False, False): 800.0, (False, True): 640.0, (True, False): 190.0, (True, True): 250.0}  # fallback (int_small_step, density operator): T = K / max|eig H|

# integrator tolerance of scipy's dopri5/dop853 as set up by quimb: rtol 1e-6
INT_TOL = 20 * 1e-6  # DESIGN: "ODE accuracy only to 20x the integrator tolerance"
# histories containing a long hop (700 - 2500 adaptive steps): every accepted
# step has a local error <= rtol (1e-6) in scipy's scaled norm and unitary flow
# does not amplify it, so N steps accumulate at most ~N * rtol; 3000 * 1e-6.
# Measured on the unchanged tree: <= 1e-4 (about 3e-8 per step).
INT_TOL_LONG = 3000 * 1e-6
EXACT_TOL = 1e-9


def _family(cfg):
    return cfg.ham.split(":")[0]


def _form(cfg):
    return cfg.ham.split(":")[1]


def _isdop(cfg):
    return cfg.state != "ket"


def _resolved_method(cfg):
    """A pre-solved (evals, evecs) pair selects the diagonalisation method
    whatever ``method=`` says (documented: 'if tuple then assumed to contain
    (eigvals, eigvecs)')."""
    return "solve" if _form(cfg) in ("solved", "solvedlist") else cfg.method


_LONG_T = {}


def _pilot_steps(cfg, T0):
    w = World()
    _construct(w, cfg._replace(cb="f2", stop="none", prog=False))
    w.evo.update_to(cfg.t0 + T0)
    return len(w.rec) - 1


def _long_T(cfg):
    """Deterministic function of (checked tree, VERIF_SEED, cfg)."""
    key = (cfg.state, cfg.pform, cfg.ham, cfg.hdt, cfg.t0, bool(cfg.small), cfg.d, cfg.play, cfg.hlay)
    if key not in _LONG_T:
        rho = float(np.max(np.abs(_get_ref(cfg).w)))
        T = LONG_K[(bool(cfg.small), _isdop(cfg))] / rho
        try:
            T0 = T / 8.0
            for _ in range(8):
                n = _pilot_steps(cfg, T0)
                if n > 350:
                    T0 /= 2.0
                elif n < 60:
                    T0 *= 3.0
                else:
                    T = LONG_TARGET_STEPS * T0 / n
                    break
        except core.HarnessError:
            raise
        except Exception:  # noqa - a tree on which the pilot fails keeps the fallback length
            pass
        _LONG_T[key] = round(T, 3)
    return _LONG_T[key]


def _time(cfg, idx):
    if idx == NPFLOAT:
        return np.float64(cfg.t0 + 0.35)
    if idx == LONG:
        return cfg.t0 + _long_T(cfg)
    if idx == LONGPLUS:
        return cfg.t0 + _long_T(cfg) + 0.5
    return cfg.t0 + OFFSETS[idx]


def _is_long(e):
    if e[0] == "update_to":
        return e[1] in (LONG, LONGPLUS)
    return e[0] == "at_times" and any(i in (LONG, LONGPLUS) for i in e[1])


# --------------------------------------------------------------------------- #
#                     reference model (numpy only, no quimb)                  #
# --------------------------------------------------------------------------- #

MAGNUS_H = 0.005
_C = np.sqrt(3.0) / 6.0


def _herm_exp(K):
    """exp(-i K) for Hermitian K."""
    w, v = np.linalg.eigh(K)
    return (v * np.exp(-1j * w)) @ v.conj().T


class Ref:
    """Exact propagator U(t <- t0) and reference states for one data cell."""

    def __init__(self, d, hdt, fam, state, t0):
        self.d, self.hdt, self.fam, self.state, self.t0 = d, hdt, fam, state, float(t0)
        self.A = self._herm("A")
        self.B = self._herm("B") if fam == "tdnc" else None
        self.w, self.v = np.linalg.eigh(self.A)
        k = fill("generic", (d, 1), "complex128", key=("c18", "psi", d))
        k = k / np.linalg.norm(k)
        if state == "ket":
            self.p0 = k
        elif state == "dop_pure":
            self.p0 = k @ k.conj().T
        else:
            r = fill("psd", (d, d), "complex128", key=("c18", "rho", d))
            self.p0 = r / np.trace(r).real
        self._grid = {0: np.eye(d, dtype=complex)}
        self._cache = {}

    def _herm(self, name):
        d = self.d
        if self.hdt == "real":
            return fill("hermitian", (d, d), "float64", key=("c18", name, d))
        if self.hdt == "degen":
            lam = [1.0, -0.5, 1.0, -0.5][:d]
            return fill("spectrum", (d, d), "complex128", key=("c18", name, d), lam=lam)
        return fill("hermitian", (d, d), "complex128", key=("c18", name, d))

    # -- Hamiltonian family -------------------------------------------------
    def f(self, t):
        return 1.0 + 0.8 * np.sin(1.3 * t)

    def fint(self, t):
        """integral of f from t0 to t"""
        return (t - self.t0) + (0.8 / 1.3) * (np.cos(1.3 * self.t0) - np.cos(1.3 * t))

    def H(self, t):
        if self.fam in ("ti", "tdconst"):
            return self.A
        if self.fam == "tdcomm":
            return self.f(t) * self.A
        return self.A + np.sin(1.1 * t) * self.B

    @property
    def time_independent(self):
        return self.fam in ("ti", "tdconst")

    # -- propagator -----------------------------------------------------------
    def _magnus_step(self, ta, tb):
        h = tb - ta
        if h == 0.0:
            return np.eye(self.d, dtype=complex)
        tm = 0.5 * (ta + tb)
        H1 = self.H(tm - _C * h)
        H2 = self.H(tm + _C * h)
        K = (h / 2.0) * (H1 + H2) - 1j * (np.sqrt(3.0) * h * h / 12.0) * (H2 @ H1 - H1 @ H2)
        return _herm_exp(K)

    def _grid_U(self, k):
        g = self._grid
        if k in g:
            return g[k]
        if abs(k) * MAGNUS_H > 400.0:
            raise core.HarnessError("reference propagator asked for |t - t0| > 400")
        s = 1 if k > 0 else -1
        j = k
        while j not in g:
            j -= s
        while j != k:
            ta = self.t0 + j * MAGNUS_H
            tb = self.t0 + (j + s) * MAGNUS_H
            g[j + s] = self._magnus_step(ta, tb) @ g[j]
            j += s
        return g[k]

    def U(self, t):
        t = float(t)
        if self.fam in ("ti", "tdconst"):
            return (self.v * np.exp(-1j * self.w * (t - self.t0))) @ self.v.conj().T
        if self.fam == "tdcomm":
            return (self.v * np.exp(-1j * self.w * self.fint(t))) @ self.v.conj().T
        u = self._cache.get(t)
        if u is None:
            k = int(np.floor((t - self.t0) / MAGNUS_H))
            u = self._magnus_step(self.t0 + k * MAGNUS_H, t) @ self._grid_U(k)
            if len(self._cache) > 20000:
                self._cache.clear()
            self._cache[t] = u
        return u

    def state_at(self, t):
        u = self.U(t)
        if self.state == "ket":
            return u @ self.p0
        return u @ self.p0 @ u.conj().T

    def one_sided(self, t):
        """U rho - what a ket-style update does to a density operator."""
        return self.U(t) @ self.p0

    def energy(self, p):
        p = np.asarray(p)
        if self.state == "ket":
            return float(np.real(p.conj().T @ self.A @ p).item())
        return float(np.real(np.trace(self.A @ p)))


def _norm_q(ref, p):
    p = np.asarray(p)
    if ref.state == "ket":
        return float(np.real(np.vdot(p, p)))
    return float(np.real(np.trace(p)))


def _purity(p):
    p = np.asarray(p)
    return float(np.real(np.trace(p @ p)))


def ref_selftest():
    """The Magnus grid against (a) the closed form of the commuting family and
    (b) a 20000-step exponential-midpoint product of the non-commuting one."""
    out = {}
    r = Ref(3, "complex", "tdcomm", "ket", 0.3)
    closed = r.U(0.8)
    r2 = Ref(3, "complex", "tdcomm", "ket", 0.3)
    r2.fam = "magnus-of-tdcomm"
    r2.H = lambda t: r.f(t) * r.A
    k = int(round(0.5 / MAGNUS_H))
    out["magnus_vs_closed_form"] = float(np.max(np.abs(Ref._grid_U(r2, k) - closed)))
    r3 = Ref(3, "complex", "tdnc", "ket", 0.3)
    n = 20000
    h = 0.5 / n
    u = np.eye(3, dtype=complex)
    for i in range(n):
        u = _herm_exp(h * r3.H(0.3 + (i + 0.5) * h)) @ u
    out["magnus_vs_midpoint20000"] = float(np.max(np.abs(r3.U(0.8) - u)))
    out["magnus_backward_roundtrip"] = float(np.max(np.abs(r3.U(0.05).conj().T @ r3.U(0.05) - np.eye(3))))
    return out


# --------------------------------------------------------------------------- #
#                            building the real object                         #
# --------------------------------------------------------------------------- #


class World:
    def __init__(self):
        self.cfg = None
        self.ref = None
        self.evo = None
        self.ham_given = None
        self.rec = []  # (fname, t, state copy, dense H argument or None)
        self.ret = collections.OrderedDict()  # fname -> returned values in order
        self.hist = []
        self.n_updates_ok = 0
        self.went_back = False
        self.stopped = False
        self.long = False  # history contains a long hop
        # every state object the Evolution handed out, NOT copied, with a copy
        # taken at that moment: (label, reported t, object, copy then)
        self.kept = []
        self.p0_given = None


def _layout(a, lay):
    a = np.ascontiguousarray(np.array(a))
    if lay == "C":
        return a
    if lay == "F":
        return np.asfortranarray(a)
    if lay == "T":
        return np.ascontiguousarray(a.T).T
    if lay == "slice":
        sentinel = 7.25 if a.dtype.kind != "c" else 7.25 - 3.5j
        big = np.full(tuple(2 * n + 1 for n in a.shape), sentinel, dtype=a.dtype)
        v = big[tuple(slice(1, None, 2) for _ in a.shape)]
        v[...] = a
        return v
    raise KeyError(lay)


def _mk_state(cfg, ref):
    import quimb as qu

    p = np.array(ref.p0)
    if cfg.pform == "vec1d":
        return _layout(p.reshape(-1), cfg.play)
    if cfg.pform != "sparse":
        p = _layout(p, cfg.play)
    if cfg.pform == "qarray":
        return qu.qarray(p)
    if cfg.pform == "ndarray":
        return p
    if cfg.pform == "sparse":
        return qu.qu(p, sparse=True)
    raise KeyError(cfg.pform)


def _wrap_form(h, form, lay="C"):
    import quimb as qu
    import scipy.sparse as sp
    import scipy.sparse.linalg as spla

    h = _layout(h, lay) if form != "csr" else np.array(h)
    if form == "qarray":
        return qu.qarray(h)
    if form == "ndarray":
        return h
    if form == "csr":
        return sp.csr_matrix(h)
    if form == "linop":
        return spla.aslinearoperator(h)
    raise KeyError(form)


def _mk_ham(cfg, ref):
    import quimb as qu

    fam, form = _family(cfg), _form(cfg)
    if fam == "ti":
        if form == "solved":
            return (_layout(ref.w, "slice" if cfg.hlay == "slice" else "C"), qu.qarray(_layout(ref.v.astype(complex), cfg.hlay)))
        if form == "solvedlist":
            return [ref.w.copy(), _layout(ref.v, cfg.hlay)]
        if form == "lazy":
            A = ref.A
            return qu.Lazy(lambda: qu.qarray(np.array(A)), shape=A.shape)
        return _wrap_form(ref.A, form, cfg.hlay)

    def ham(t):
        return _wrap_form(ref.H(t), form, cfg.hlay)

    return ham


def _dense_of_H(H, t):
    """Denotation of whatever a 3-argument callback receives as Hamiltonian."""
    import scipy.sparse as sp
    import scipy.sparse.linalg as spla

    if isinstance(H, (tuple, list)):
        w, v = H
        v = np.asarray(v)
        return (v * np.asarray(w)) @ v.conj().T
    if isinstance(H, spla.LinearOperator):
        return np.asarray(H @ np.eye(H.shape[1], dtype=complex))
    if sp.issparse(H):
        return np.asarray(H.toarray())
    if callable(H):
        return _dense_of_H(H(t), t)
    return np.array(H)


KEEP_MAX = 4000


def _keep(w, label, t, obj):
    if len(w.kept) < KEEP_MAX:
        w.kept.append((label, t, obj, _dense_state(obj)))


def _check_kept(w, event):
    """A reported state must not change after it was reported: every object
    handed out earlier (evo.pt, at_times yields, callback arguments, the
    caller's own initial state) still holds the values it had then."""
    for label, t, obj, then in w.kept:
        now = _dense_state(obj)
        if now.shape != then.shape or not np.array_equal(now, then):
            dev = float(np.max(np.abs(now - then))) if now.shape == then.shape else float("inf")
            return [core.problem("%s: the %s for t=%r was modified by a LATER call (changed by %.3g) - reported states alias a reused buffer (cfg %r)" % (event, label, t, dev, tuple(w.cfg)), **_sig(w, "reported-state-changed-later", event, handed="initial-state" if label.startswith("initial") else label.split()[0]))]
    return []


def _mk_callbacks(cfg, w):
    def f2(t, pt):
        _keep(w, "state passed to compute callback f2", t, pt)
        w.rec.append(("f2", t, np.array(pt), None))
        r = len(w.rec)
        w.ret.setdefault("f2", []).append(r)
        return r

    def f3(t, pt, H):
        _keep(w, "state passed to compute callback f3", t, pt)
        w.rec.append(("f3", t, np.array(pt), _dense_of_H(H, t)))
        r = len(w.rec)
        w.ret.setdefault("f3", []).append(r)
        return r

    if cfg.cb == "none":
        return None
    if cfg.cb == "f2":
        return f2
    if cfg.cb == "f3":
        return f3
    if cfg.cb == "dict":
        return {"a": f2, "b": f3}
    raise KeyError(cfg.cb)


def _mk_stop(cfg, w):
    lim = cfg.t0 + 0.3
    if cfg.stop == "none":
        return None
    if cfg.stop == "never2":
        return lambda t, p: 0
    if cfg.stop == "never3":
        return lambda t, p, H: None
    if cfg.stop == "stop":

        def stop(t, p):
            if t > lim:
                w.stopped = True
                return -1
            return 0

        return stop
    raise KeyError(cfg.stop)


def _construct(w, cfg):
    import quimb as qu

    ref = _get_ref(cfg)
    w.cfg, w.ref = cfg, ref
    # a LinearOperator Hamiltonian gets its first step from a STOCHASTIC norm
    # estimate (norm_fro_approx): the harness owns quimb's global generator
    qu.seed_rand(18)
    p0 = _mk_state(cfg, ref)
    w.p0_given = p0
    ham = _mk_ham(cfg, ref)
    kw = {}
    if cfg.small:
        kw["int_small_step"] = True
    cb = _mk_callbacks(cfg, w)
    if cb is not None:
        kw["compute"] = cb
    st = _mk_stop(cfg, w)
    if st is not None:
        kw["int_stop"] = st
    if cfg.prog:
        kw["progbar"] = True
    w.ham_given = ham
    if cfg.t0 != 0:
        kw["t0"] = cfg.t0  # t0 == 0 exercises the documented default (integer 0)
    if not (cfg.method == "integrate" and cfg.d == 4):
        kw["method"] = cfg.method  # d == 4 exercises the documented default method
    w.evo = qu.Evolution(p0, ham, **kw)


_REFS = {}


def _get_ref(cfg):
    k = (cfg.d, cfg.hdt, _family(cfg), cfg.state, cfg.t0)
    if k not in _REFS:
        if len(_REFS) > 400:
            _REFS.clear()
        _REFS[k] = Ref(*k)
    return _REFS[k]


# --------------------------------------------------------------------------- #
#                                 the oracle                                  #
# --------------------------------------------------------------------------- #


def _dense_state(x):
    import scipy.sparse as sp

    if sp.issparse(x):
        return np.asarray(x.toarray())
    return np.array(x)


def _tol(w):
    m = _resolved_method(w.cfg)
    if m == "integrate" or m not in METHODS:
        return INT_TOL_LONG if w.long else INT_TOL
    return EXACT_TOL


def _hamclass(cfg):
    fam, form = _family(cfg), _form(cfg)
    if fam != "ti":
        return "callable"
    return {"solved": "solved", "solvedlist": "solved", "linop": "linop", "lazy": "lazy"}.get(form, "matrix")


def _sig(w, what, event, **extra):
    """Root-cause signature: oracle that failed + the configuration class (the
    event kind and the data stay in the message)."""
    cfg = w.cfg
    s = {
        "root": what,
        "method": _resolved_method(cfg),
        "state": "dop" if _isdop(cfg) else "ket",
        "ham": _hamclass(cfg),
    }
    s.update(extra)
    return s


def _solve_2x2(cfg):
    """Structural trigger: the diagonalisation method handed a 2x2 MATRIX
    (unpacking it as an (evals, evecs) pair 'succeeds' row-wise)."""
    return cfg.d == 2 and cfg.method == "solve" and _family(cfg) == "ti" and _form(cfg) in ("qarray", "ndarray", "csr")


def _must_work(cfg):
    """Combinations the documentation and the repository's own tests present
    as supported (docstring of Evolution; tests/test_matrix/test_evo.py
    ``test_evo_ham``): for these a rejection is itself a violation.  Kept
    conservative - anything not listed may be rejected freely."""
    if cfg.pform not in ("qarray", "vec1d"):
        return False
    if cfg.stop != "none" and cfg.method != "integrate":
        return False  # documented ValueError
    fam, form = _family(cfg), _form(cfg)
    if fam == "ti" and form == "solved":
        return cfg.method in METHODS
    if cfg.method == "solve":
        return fam == "ti" and form in ("qarray", "csr")
    if cfg.method == "integrate":
        return form in ("qarray", "csr", "linop")
    if cfg.method == "expm":
        return fam == "ti" and form in ("qarray", "csr") and not _isdop(cfg)
    return False


def _unsupported_problem(cfg, e, exc, stage):
    return core.problem(
        "%s raised %s: %s - but (method=%s, %s, %s) is a documented supported combination (cfg %r)" % (e[:2], type(exc).__name__, str(exc)[:120].replace("\n", " "), cfg.method, cfg.state, cfg.ham, tuple(cfg)),
        root="supported-combination-rejected",
        method=_resolved_method(cfg),
        state="dop" if _isdop(cfg) else "ket",
        ham=_hamclass(cfg),
        stage=stage,
    )


def _check_pair(w, t_rep, pt, event, what="state-mismatch"):
    """(reported time, reported state) against the reference; [] if fine."""
    cfg, ref = w.cfg, w.ref
    got = _dense_state(pt)
    want = ref.state_at(t_rep)
    if got.shape != want.shape:
        return [core.problem("%s: state of shape %r, expected %r (cfg %r)" % (event, got.shape, want.shape, tuple(cfg)), **_sig(w, "state-shape", event))]
    if not np.all(np.isfinite(got)):
        return [core.problem("%s: non-finite state at t=%r (cfg %r)" % (event, t_rep, tuple(cfg)), **_sig(w, "state-nonfinite", event))]
    tol = _tol(w)
    err = float(np.max(np.abs(got - want)))
    if err > tol:
        if cfg.method == "expm" and _resolved_method(cfg) == "expm" and _isdop(cfg):
            one = float(np.max(np.abs(got - ref.one_sided(t_rep))))
            if one <= tol:
                return [
                    core.problem(
                        "%s: method='expm' on a density operator gives U rho instead of U rho U^H at t=%r: |got-ref|=%.3g, |got-U rho|=%.1e (cfg %r)" % (event, t_rep, err, one, tuple(cfg)),
                        root="expm-density-operator",
                        one_sided=True,
                        state="dop",
                        method="expm",
                    )
                ]
        return [core.problem("%s: state at reported t=%r differs from exp(-iH(t-t0)) p0 by %.3g > %.1g (cfg %r)" % (event, t_rep, err, tol, tuple(cfg)), **_sig(w, what, event))]
    return []


def _check_conserved(w, pt, event):
    cfg, ref = w.cfg, w.ref
    tol = 10 * _tol(w)
    p = _dense_state(pt)
    n0, n1 = _norm_q(ref, ref.p0), _norm_q(ref, p)
    if abs(n1 - n0) > tol:
        return [core.problem("%s: %s %.12g -> %.12g (cfg %r)" % (event, "trace" if _isdop(cfg) else "norm", n0, n1, tuple(cfg)), **_sig(w, "not-conserved", event, quantity="norm"))]
    if _isdop(cfg):
        q0, q1 = _purity(ref.p0), _purity(p)
        if abs(q1 - q0) > tol:
            return [core.problem("%s: purity %.12g -> %.12g (cfg %r)" % (event, q0, q1, tuple(cfg)), **_sig(w, "not-conserved", event, quantity="purity"))]
        if float(np.max(np.abs(p - p.conj().T))) > tol:
            return [core.problem("%s: density operator no longer Hermitian (cfg %r)" % (event, tuple(cfg)), **_sig(w, "not-conserved", event, quantity="hermiticity"))]
    if ref.time_independent:
        e0, e1 = ref.energy(ref.p0), ref.energy(p)
        if abs(e1 - e0) > tol * max(1.0, float(np.max(np.abs(ref.w)))):
            return [core.problem("%s: energy %.12g -> %.12g (cfg %r)" % (event, e0, e1, tuple(cfg)), **_sig(w, "not-conserved", event, quantity="energy"))]
    return []


def _results_as_dict(cfg, res):
    if cfg.cb == "dict":
        return {"f2": list(res["a"]), "f3": list(res["b"])}
    return {cfg.cb: list(res)}


def _check_callbacks(w, event, subs, n_before):
    """subs: list of (t_requested, t_before, t_reported, state copy)."""
    cfg, ref = w.cfg, w.ref
    if cfg.cb == "none":
        return []
    new = w.rec[n_before:]
    meth = _resolved_method(cfg)
    fnames = ("f2", "f3") if cfg.cb == "dict" else (cfg.cb,)
    # 1. every recorded (t, state) pair is a correct pair
    for fname, t, p, Hd in new:
        pr = _check_pair(w, t, p, event, what="callback-state")
        if pr:
            pr[0]["msg"] = "callback %s saw a wrong state: %s" % (fname, pr[0]["msg"])
            return pr
        if Hd is not None:
            want = ref.H(float(t))
            if Hd.shape != want.shape or float(np.max(np.abs(Hd - want))) > 1e-9:
                return [core.problem("%s: 3-argument callback received a Hamiltonian that does not denote H(t=%r) (cfg %r)" % (event, t, tuple(cfg)), **_sig(w, "callback-ham-arg", event))]
    # 2. the states reported at the requested times were seen by the callbacks
    if meth in ("solve", "expm"):
        for fname in fnames:
            mine = [r for r in new if r[0] == fname]
            if len(mine) != len(subs):
                return [core.problem("%s: callback %s called %d times for %d requested times (cfg %r)" % (event, fname, len(mine), len(subs), tuple(cfg)), **_sig(w, "callback-count", event))]
            for (fn, t, p, _), (t_req, t_bef, t_rep, pt) in zip(mine, subs):
                if t != t_req or p.shape != pt.shape or float(np.max(np.abs(p - pt))) > 1e-12:
                    return [core.problem("%s: callback %s saw (t=%r, state) but the evolution reports (t=%r, other state) (cfg %r)" % (event, fname, t, t_req, tuple(cfg)), **_sig(w, "callback-not-same-state", event))]
    elif cfg.stop != "stop":
        for fname in fnames:
            mine = [r for r in new if r[0] == fname]
            for t_req, t_bef, t_rep, pt in subs:
                if t_req == t_bef:
                    continue
                if not any(abs(t - t_req) <= 1e-12 and p.shape == pt.shape and float(np.max(np.abs(p - pt))) <= 1e-12 for fn, t, p, _ in mine):
                    return [core.problem("%s: no call of callback %s at the requested time %r with the reported state (cfg %r)" % (event, fname, t_req, tuple(cfg)), **_sig(w, "callback-not-same-state", event))]
    # 3. results hold what the callbacks returned, in order
    try:
        got = _results_as_dict(cfg, w.evo.results)
    except Exception as ex:  # noqa
        return [core.problem("%s: evo.results unusable: %s (cfg %r)" % (event, ex, tuple(cfg)), **_sig(w, "callback-results", event))]
    want = {k: list(w.ret.get(k, [])) for k in fnames}
    if got != want:
        return [core.problem("%s: evo.results %r != values returned by the callbacks %r (cfg %r)" % (event, got, want, tuple(cfg)), **_sig(w, "callback-results", event))]
    return []


# --------------------------------------------------------------------------- #
#                                   the case                                  #
# --------------------------------------------------------------------------- #


def _new_event(cfg):
    return ("new/%s/%s/%s" % (cfg.method, "dop" if _isdop(cfg) else "ket", cfg.ham),) + tuple(cfg)


def _is_new(e):
    return e[0].startswith("new/")


def _event_times(cfg, e):
    if e[0] == "update_to":
        return [_time(cfg, e[1])]
    return [_time(cfg, i) for i in e[1]]


def _generic_key(x, depth=0):
    """Generic digest of an attribute value (DESIGN 2.1: keys are generic by
    default; nothing of vars(evo) is hand-picked)."""
    import scipy.sparse as sp
    import scipy.sparse.linalg as spla

    if isinstance(x, np.ndarray):
        return ("arr", arr_digest(np.asarray(x)))
    if sp.issparse(x):
        return ("sp", arr_digest(np.asarray(x.toarray())))
    if isinstance(x, (bool, int, str)) or x is None:
        return x
    if isinstance(x, (float, np.floating)):
        return round(float(x), 9)
    if isinstance(x, (complex, np.complexfloating)):
        return (round(complex(x).real, 9), round(complex(x).imag, 9))
    if isinstance(x, (tuple, list)):
        return tuple(_generic_key(v, depth + 1) for v in x)
    if isinstance(x, dict):
        return tuple((str(k), _generic_key(v, depth + 1)) for k, v in x.items())
    if isinstance(x, spla.LinearOperator):
        return ("linop", type(x).__name__, tuple(x.shape))
    if hasattr(x, "integrate") and hasattr(x, "_integrator"):
        # scipy complex_ode: quimb restarts every integrate() call from
        # (t, y) with the configured first step, so (t, y) is its state
        return ("ode", round(float(x.t), 9), arr_digest(np.asarray(x.y)), type(x._integrator).__name__)
    if callable(x):
        return ("fn", getattr(x, "__qualname__", type(x).__name__))
    return ("obj", type(x).__name__)


CPU_LIMIT = 60.0  # CPU seconds for ONE event (normal: milliseconds)
_CURRENT = [None]


def _cpu_watchdog(signum, frame):
    # An exception raised here would surface inside scipy's Fortran callbacks,
    # where f2py may swallow it (that is how a broken callback turns into an
    # endless integration), so the worker is stopped hard: the runner reports
    # a harness error (exit 2) - never a VIOLATION (DESIGN 2.1, watchdog).
    sys.__stderr__.write("\nC18 WATCHDOG: event %r did not finish within %.0f CPU-seconds; history %r\n" % (_CURRENT[0][1], CPU_LIMIT, _CURRENT[0][0]))
    sys.__stderr__.flush()
    os._exit(86)


@contextlib.contextmanager
def _watch(hist, e):
    _CURRENT[0] = (list(hist), e)
    old = signal.signal(signal.SIGVTALRM, _cpu_watchdog)
    signal.setitimer(signal.ITIMER_VIRTUAL, CPU_LIMIT)
    try:
        yield
    finally:
        signal.setitimer(signal.ITIMER_VIRTUAL, 0)
        signal.signal(signal.SIGVTALRM, old)


class C18Case(seq.Case):
    rejections = (Exception,)
    step_timeout = 300

    def __init__(self, spec):
        super().__init__(spec)
        self.cfgs = [Cfg(*c) for c in group_configs(spec["group"], spec["tier"])]
        self.events = [core.tuplify(e) for e in group_events(spec["group"], spec["tier"])]

    # -- world ---------------------------------------------------------------
    def build(self):
        return World()

    def menu(self, w):
        if w.cfg is None:
            return [_new_event(c) for c in self.cfgs]
        if _resolved_method(w.cfg) not in ("solve", "expm"):
            # precondition: an ODE integrator marches forward - the property
            # claims non-monotonic sequences for the diagonalisation method
            # only (expm accepts negative increments exactly, so it keeps them)
            try:
                t = w.evo.t
            except Exception:  # noqa
                return list(self.events)
            out = []
            for e in self.events:
                ts = [t] + _event_times(w.cfg, e)
                if all(b >= a for a, b in zip(ts, ts[1:])):
                    out.append(e)
            return out
        return list(self.events)

    def pre(self, w, e):
        if w.cfg is None:
            return None
        try:
            return {"t": w.evo.t, "pt": _dense_state(w.evo.pt), "n": len(w.rec)}
        except Exception:  # noqa
            return {"t": None, "pt": None, "n": len(w.rec)}

    def apply(self, w, e):
        if _is_new(e):
            if w.cfg is not None:
                raise core.HarnessError("constructor event on a live world")
            cfg = Cfg(*e[1:])
            with contextlib.redirect_stderr(io.StringIO()):
                _construct(w, cfg)
            if cfg.pform != "sparse":
                _keep(w, "initial state object given by the caller", cfg.t0, w.p0_given)
            try:
                _keep(w, "pt of the fresh object", cfg.t0, w.evo.pt)
            except Exception:  # noqa - check() reports an unreadable fresh object
                pass
            w.hist.append(e)
            return {"kind": "new"}
        cfg, evo = w.cfg, w.evo
        subs = []
        n_before = len(w.rec)
        w.hist.append(e)
        if _is_long(e):
            w.long = True
        with _watch(w.hist[:-1], e), contextlib.redirect_stderr(io.StringIO()):
            if e[0] == "update_to":
                t = _time(cfg, e[1])
                t_bef = evo.t
                if t < t_bef:
                    w.went_back = True
                evo.update_to(t)
                pt = evo.pt
                _keep(w, "pt read after update_to", evo.t, pt)
                subs.append((t, t_bef, evo.t, _dense_state(pt)))
            elif e[0] == "at_times":
                ts = [_time(cfg, i) for i in e[1]]
                t_bef = evo.t
                if any(b < a for a, b in zip([t_bef] + ts, ts)):
                    w.went_back = True
                if len(e) > 2 and e[2] == "np":
                    ts = np.array(ts, dtype=float)
                it = iter(ts)
                gen = evo.at_times(ts)
                for pt in gen:
                    t = next(it)
                    _keep(w, "state yielded by at_times", evo.t, pt)
                    subs.append((t, t_bef, evo.t, _dense_state(pt)))
                    t_bef = evo.t
                if len(subs) != len(ts):
                    subs.append(("count", len(ts), len(subs), None))
            else:
                raise core.HarnessError("unknown event %r" % (e,))
        if subs:
            w.n_updates_ok += 1
        return {"kind": e[0], "subs": subs, "n_before": n_before}

    # -- oracle ----------------------------------------------------------------
    def check(self, w, e, obs, pre):
        if e == ("init",) or w.cfg is None:
            return []
        cfg, ref, evo = w.cfg, w.ref, w.evo
        ev = e[0] if not _is_new(e) else "new"
        if obs["kind"] == "new":
            try:
                t, pt = evo.t, evo.pt
            except Exception as ex:  # noqa
                return [core.problem("freshly constructed Evolution cannot report t/pt: %r (cfg %r)" % (ex, tuple(cfg)), **_sig(w, "init-state", ev))]
            if t != cfg.t0:
                return [core.problem("fresh Evolution reports t=%r, t0=%r (cfg %r)" % (t, cfg.t0, tuple(cfg)), **_sig(w, "time-mismatch", ev))]
            pr = _check_pair(w, t, pt, ev, what="init-state")
            return pr or _check_kept(w, ev)
        subs = obs["subs"]
        if subs and subs[-1][0] == "count":
            return [core.problem("at_times yielded %d states for %d times (cfg %r)" % (subs[-1][2], subs[-1][1], tuple(cfg)), **_sig(w, "at_times-count", ev))]
        for t_req, t_bef, t_rep, pt in subs:
            if w.stopped:
                pass  # int_stop fired: only the (reported t, state) pair is claimed
            elif not (abs(t_rep - t_req) <= 1e-12 * max(1.0, abs(t_req))):
                return [core.problem("%s: requested t=%r, evolution reports t=%r (cfg %r)" % (ev, t_req, t_rep, tuple(cfg)), **_sig(w, "time-mismatch", ev))]
            pr = _check_pair(w, t_rep, pt, ev)
            if pr:
                return pr
            pr = _check_conserved(w, pt, ev)
            if pr:
                return pr
        # the object's final report equals the last yielded state
        if subs:
            pr = _check_pair(w, evo.t, evo.pt, ev)
            if pr:
                return pr
        pr = _check_callbacks(w, ev, subs, obs["n_before"])
        return pr or _check_kept(w, ev)

    def check_rejected(self, w, e, exc, pre):
        if isinstance(exc, core.HarnessError):
            raise exc
        if _is_new(e):
            cfg = Cfg(*e[1:])
            other = _accepted_elsewhere(cfg, [], e)
            if other is not None:
                return [_dimension_problem(cfg, e, exc, other, w)]
            if _must_work(cfg) and not _solve_2x2(cfg):
                return [_unsupported_problem(cfg, e, exc, "constructor")]
            return []
        cfg = w.cfg
        ev = e[0]
        # (1) is the rejection legitimate here?
        times = _event_times(cfg, e)
        backwards = pre["t"] is not None and any(t < pre["t"] for t in times) or any(b < a for a, b in zip(times, times[1:]))
        meth = _resolved_method(cfg)
        first = w.n_updates_ok == 0
        if cfg.prog and meth == "integrate" and e[0] == "update_to" and pre["t"] is not None and times[0] == pre["t"]:
            # structural trigger: progress bar over a zero-length window
            return [core.problem("%s (a request for the CURRENT time %r) raised %s: %s because progbar=True (cfg %r)" % (e, pre["t"], type(exc).__name__, str(exc)[:80], tuple(cfg)), root="progbar-zero-length-update", method=meth, exc=type(exc).__name__)]
        # differential support check (only where control flow is data independent)
        other = _accepted_elsewhere(cfg, w.hist[:-1], e) if cfg.stop != "stop" else None  # apply() appended e before calling
        if other is not None:
            return [_dimension_problem(cfg, e, exc, other, w)]
        if _must_work(cfg) and not _solve_2x2(cfg) and not (backwards and meth == "expm"):
            return [_unsupported_problem(cfg, e, exc, "update")]
        if not first and not (backwards and meth in ("integrate", "expm")):
            return [core.problem("%s raised %s: %s after earlier updates of the same object succeeded (cfg %r)" % (e, type(exc).__name__, str(exc)[:120], tuple(cfg)), **_sig(w, "rejected-after-success", ev, exc=type(exc).__name__))]
        # (2) the rejected call must leave a correct (t, state) pair behind
        try:
            t, pt = w.evo.t, w.evo.pt
        except Exception as ex:  # noqa
            return [core.problem("%s rejected (%s) and the object can no longer report t/pt: %r (cfg %r)" % (e, type(exc).__name__, ex, tuple(cfg)), **_sig(w, "rejection-corrupts-state", ev))]
        root = "solve-2x2-matrix-hamiltonian" if _solve_2x2(cfg) else "rejection-corrupts-state"
        pr = _check_pair(w, t, pt, ev, what="rejection-corrupts-state")
        if pr and pr[0]["sig"]["root"] == "rejection-corrupts-state":
            pr[0]["msg"] = "%s rejected (%s) leaving evo.t=%r (was %r) with a state that does not belong to it: %s" % (e, type(exc).__name__, t, pre["t"], pr[0]["msg"])
            if root != "rejection-corrupts-state":
                pr[0]["sig"]["root"] = root
                pr[0]["sig"]["how"] = "rejection-corrupts-state"
        return pr

    def unexpected(self, w, e, exc):
        # only numpy LinAlgError reaches here (seq.step singles it out)
        cfg = w.cfg if w.cfg is not None else Cfg(*e[1:])
        return [core.problem("%s raised %s: %s (cfg %r)" % (e, type(exc).__name__, str(exc)[:160], tuple(cfg)), root="linalg-error", method=cfg.method, ham=_hamclass(cfg))]

    # -- bookkeeping -----------------------------------------------------------
    def canon(self, w):
        if w.cfg is None:
            return "empty"
        evo = w.evo
        items = []
        for k in sorted(vars(evo)):
            items.append((k, _generic_key(vars(evo)[k])))
        recd = tuple((r[0], round(float(r[1]), 9), arr_digest(r[2])) for r in w.rec)
        return core.digest((tuple(w.cfg), tuple(items), recd, w.stopped))

    def nontrivial(self, w, e, obs):
        if obs["kind"] == "new":
            return False
        if _is_long(e) and w.cfg.cb != "none" and not any(s[0] == s[1] for s in obs["subs"][-1:]):
            # a long hop only counts when it really took more than the
            # default step cap (one callback record per accepted step)
            return len(w.rec) - obs["n_before"] >= LONG_MIN_STEPS
        return any(s[3] is not None and abs(s[2] - s[1]) > 1e-6 for s in obs["subs"])

    def outcome(self, w, e, obs):
        cfg = w.cfg
        if obs["kind"] == "new":
            return "new|%s|%s|%s" % (_resolved_method(cfg), cfg.state, cfg.ham)
        subs = obs["subs"]
        mv = "empty"
        if subs:
            mv = "+".join("fwd" if s[0] > s[1] else "back" if s[0] < s[1] else "same" for s in subs)
        kind = e[0]
        if _is_long(e):
            kind += ":longhop"
            if cfg.cb != "none":
                kind += ":steps~%d00" % ((len(w.rec) - obs["n_before"]) // 100)
        return "%s|%s|%s|%s|%s" % (_resolved_method(cfg), "dop" if _isdop(cfg) else "ket", cfg.ham, kind, mv)


def _dimension_problem(cfg, e, exc, other_d, w):
    root = "solve-2x2-matrix-hamiltonian" if _solve_2x2(cfg) else "support-depends-on-dimension"
    return core.problem(
        "%s raised %s: %s for d=%d, but the identical history is accepted and evolved for d=%d: support of (method, state kind, Hamiltonian representation) depends on the dimension (cfg %r)"
        % (e[:2], type(exc).__name__, str(exc)[:100].replace("\n", " "), cfg.d, other_d, tuple(cfg)),
        root=root,
        how="rejected-by-dimension",
        method=_resolved_method(cfg),
        ham=_hamclass(cfg),
        d=cfg.d,
    )


def _accepted_elsewhere(cfg, hist, e):
    """Differential support check: re-run the same history + event for another
    dimension; returns that dimension if everything is accepted there."""
    d2 = 3 if cfg.d != 3 else 4
    cfg2 = cfg._replace(d=d2)
    w2 = World()
    case = _Plain()
    try:
        case.apply(w2, _new_event(cfg2))
        for h in hist:
            if _is_new(h):
                continue
            case.apply(w2, h)
        if not _is_new(e):
            case.apply(w2, e)
    except core.HarnessError:
        raise
    except Exception:  # noqa
        return None
    return d2


class _Plain:
    apply = C18Case.apply


def make_case(spec):
    return C18Case(spec)


def longhop_probe(cfg_t, common):
    """Worker: one long hop with a counting callback -> number of accepted
    integrator steps (evidence that the hop exceeds scipy's default cap)."""
    cfg = Cfg(*cfg_t)._replace(cb="f2")
    w = World()
    case = _Plain()
    case.apply(w, _new_event(cfg))
    t = _time(cfg, LONG)
    with contextlib.redirect_stderr(io.StringIO()):
        w.evo.update_to(t)
    return {"cfg": list(cfg_t), "T": _long_T(cfg), "steps": len(w.rec) - 1, "reached": bool(w.evo.t == t)}


# --------------------------------------------------------------------------- #
#                       groups: complete sub-products                         #
# --------------------------------------------------------------------------- #

DEFAULT = dict(pform="qarray", hdt="complex", t0=0.3, small=False, cb="none", stop="none", prog=False, d=3, play="C", hlay="C")


def _cfg(**kw):
    c = dict(DEFAULT)
    c.update(kw)
    return tuple(Cfg(**c))


def _rot(xs):
    from ..alphabet import seed

    xs = list(xs)
    if not xs:
        return xs
    k = (seed() * 7919) % len(xs)
    return xs[k:] + xs[:k]


def group_configs(group, tier):
    th = tier == "thorough"
    out = []
    if group.startswith("core-"):
        # method x state x every Hamiltonian representation x t0 x d (x small step)
        m, st0 = group.split("-")[1:3]
        smalls = (False, True) if m == "integrate" else (False,)
        for st, rep, t0, d, sm in itertools.product([s for s in STATES if s.startswith(st0)], ALL_REPS, (0, 0.3), (2, 3, 4), smalls):
            out.append(_cfg(method=m, state=st, ham=rep, t0=t0, d=d, small=sm))
    elif group == "callbacks":
        reps = ("ti:qarray", "ti:csr", "ti:solved", "ti:linop", "tdcomm:csr", "tdnc:qarray", "tdnc:linop")
        for m, st, rep, cb, t0 in itertools.product(METHODS, STATES, reps, ("f2", "f3", "dict"), (0, 0.3)):
            if m != "integrate" and (rep.startswith("td") or rep == "ti:linop"):
                continue  # documented TypeError, already in core-*
            smalls = (False, True) if (m == "integrate" and th) else (False,)
            for sm in smalls:
                out.append(_cfg(method=m, state=st, ham=rep, cb=cb, t0=t0, small=sm, d=3))
                if th:
                    out.append(_cfg(method=m, state=st, ham=rep, cb=cb, t0=t0, small=sm, d=2))
    elif group == "forms":
        # state forms x Hamiltonian data kinds
        for m, st, pf, hdt, rep, d in itertools.product(METHODS, STATES, ("ndarray", "vec1d", "sparse"), ("complex", "real", "degen"), ("ti:qarray", "ti:ndarray", "ti:csr", "ti:solved", "tdnc:qarray"), (2, 3)):
            if pf == "vec1d" and st != "ket":
                continue
            if hdt == "complex" and pf == "qarray":
                continue
            if rep.startswith("td") and m != "integrate":
                continue
            out.append(_cfg(method=m, state=st, pform=pf, hdt=hdt, ham=rep, d=d))
        for m, st, hdt, rep, d in itertools.product(METHODS, STATES, ("real", "degen"), ("ti:qarray", "ti:ndarray", "ti:csr", "ti:solved", "ti:linop", "tdnc:qarray", "tdcomm:csr"), (2, 3, 4)):
            if rep.startswith("td") and m != "integrate":
                continue
            out.append(_cfg(method=m, state=st, hdt=hdt, ham=rep, d=d))
    elif group == "plumbing":
        # int_stop x progbar x callbacks (integrate), and their documented
        # rejection with the other methods; unknown method name
        for st, rep, stop, prog, cb, sm in itertools.product(STATES, ("ti:qarray", "ti:csr", "tdnc:qarray"), ("none", "never2", "never3", "stop"), (False, True), ("none", "f2", "dict"), (False, True)):
            if stop == "none" and not prog:
                continue
            out.append(_cfg(method="integrate", state=st, ham=rep, stop=stop, prog=prog, cb=cb, small=sm))
        for m, st, rep, stop, prog, cb in itertools.product(("solve", "expm"), STATES, ("ti:qarray", "ti:csr"), ("none", "never2"), (False, True), ("none", "f3")):
            if stop == "none" and not prog:
                continue
            out.append(_cfg(method=m, state=st, ham=rep, stop=stop, prog=prog, cb=cb))
        for st, rep in itertools.product(STATES, ("ti:qarray", "ti:solved", "tdnc:qarray")):
            out.append(_cfg(method="bad", state=st, ham=rep))
    elif group == "layouts":
        # memory layout of the initial state x of the dense Hamiltonian data, every method and state kind
        ds = (2, 3, 4) if th else (3,)
        for m, st, play, hlay, d in itertools.product(METHODS, STATES, LAYOUTS, LAYOUTS, ds):
            reps = ["ti:qarray", "ti:solved"] + (["tdnc:qarray", "ti:linop"] if m == "integrate" else [])
            for rep_ in reps:
                out.append(_cfg(method=m, state=st, ham=rep_, play=play, hlay=hlay, d=d))
        for m, st, play, hlay in itertools.product(METHODS, STATES, LAYOUTS, LAYOUTS):
            # plain ndarray inputs (state and Hamiltonian), 1-D vectors, callbacks keeping what they are given
            if m != "solve":
                out.append(_cfg(method=m, state=st, pform="ndarray", ham="ti:ndarray", play=play, hlay=hlay))
            if st == "ket" and hlay in ("C", "F"):
                out.append(_cfg(method=m, state=st, pform="vec1d", ham="ti:qarray", play=play, hlay=hlay))
            if hlay in ("C", "T"):
                out.append(_cfg(method=m, state=st, pform="ndarray", ham="ti:solvedlist", play=play, hlay=hlay, cb="f2"))
                if m == "integrate":
                    out.append(_cfg(method=m, state=st, ham="tdcomm:ndarray", play=play, hlay=hlay, cb="dict", small=True))
    elif group == "longhop":
        # one hop that needs > 500 internal integrator steps (see LONG)
        if th:
            axes = [(STATES, ("ti:qarray", "ti:csr", "ti:linop", "tdcomm:qarray", "tdcomm:csr"), (False, True), ("none", "f2"), (0.3,), (3, 4), ("complex",)),
                    (STATES, ("ti:qarray", "ti:csr", "tdcomm:csr"), (False, True), ("none",), (0,), (2, 3), ("real", "degen"))]
        else:
            axes = [(("ket", "dop_mixed"), ("ti:qarray", "ti:csr", "tdcomm:qarray"), (False, True), ("none", "f2"), (0.3,), (3,), ("complex",))]
        for ax in axes:
            for st, rep_, sm, cb, t0, d, hdt in itertools.product(*ax):
                out.append(_cfg(method="integrate", state=st, ham=rep_, small=sm, cb=cb, t0=t0, d=d, hdt=hdt))
    else:
        raise KeyError(group)
    # complete, duplicate free, order rotated by the seed only
    seen, uniq = set(), []
    for c in out:
        if c not in seen:
            seen.add(c)
            uniq.append(c)
    return _rot(uniq)


def group_events(group, tier):
    th = tier == "thorough"
    if group == "layouts":
        ev = [("update_to", 0), ("update_to", 1), ("at_times", (2, 0, 1)), ("at_times", (1, 1))]
        if th:
            ev += [("update_to", 2), ("update_to", 3), ("at_times", (0, 1), "np")]
        return ev
    if group == "longhop":
        ev = [("update_to", 0), ("update_to", LONG)]
        if th:
            ev += [("at_times", (0, LONG)), ("update_to", LONGPLUS)]
        return ev
    if th:
        upd = [("update_to", i) for i in (0, 1, 2, 3, 4, 5, NPFLOAT)]
        att = [("at_times", (0, 1)), ("at_times", (2, 0, 1)), ("at_times", (1, 1)), ("at_times", (1, 2)), ("at_times", ()), ("at_times", (0, 1), "np"), ("at_times", (4, 3, 5))]
    else:
        upd = [("update_to", i) for i in (0, 1, 2, 3)]
        att = [("at_times", (2, 0, 1)), ("at_times", (1, 1)), ("at_times", (1, 2)), ("at_times", ()), ("at_times", (0, 1), "np")]
        if group in ("forms", "plumbing"):
            upd = [("update_to", i) for i in (0, 1, 2, 5)]
            att = [("at_times", (2, 0, 1)), ("at_times", (1, 2)), ("at_times", (0, NPFLOAT), "np")]
    return upd + att


GROUPS = ("core-solve-ket", "core-solve-dop", "core-expm-ket", "core-expm-dop", "core-integrate-ket", "core-integrate-dop_pure", "core-integrate-dop_mixed", "callbacks", "forms", "plumbing", "layouts", "longhop")
# number of events after the constructor


def _depth(group, tier):
    th = tier == "thorough"
    if group == "longhop":
        return 2
    if group == "layouts":
        return 3 if th else 2
    if group.startswith("core-integrate"):
        return 5 if th else 3
    if group.startswith("core-"):
        return 5 if th else 4
    return 3 if th else 2

# --------------------------------------------------------------------------- #
#                      table part: right-hand sides pointwise                 #
# --------------------------------------------------------------------------- #


def _rhs_ref(eq, H, y, d, ls, gamma):
    if eq in ("schrodinger_eq_ket", "schrodinger_eq_ket_timedep"):
        return -1j * (H @ y)
    rho = y.reshape(d, d)
    out = -1j * (H @ rho - rho @ H)
    for l in ls:
        ll = l.conj().T @ l
        out = out + gamma * (l @ rho @ l.conj().T - 0.5 * (ll @ rho + rho @ ll))
    return out.reshape(-1)


def rhs_cell(cell, common):
    """One right-hand side of quimb.evo at one point, against its formula."""
    import quimb as qu
    import quimb.evo as evo
    import scipy.sparse as sp

    eq, form, d, ykind, nl, lsparse, hdt, tval = cell
    key = ("c18rhs", d, hdt)
    H = fill("hermitian", (d, d), "float64" if hdt == "real" else "complex128", key=key + ("H",))
    B = fill("hermitian", (d, d), "complex128", key=key + ("B",))
    timedep = eq.endswith("_timedep")
    Ht = (H + np.sin(1.1 * tval) * B) if timedep else H
    isket = "_ket" in eq
    if isket:
        y = fill("generic", (d,), "complex128", key=key + ("y",))
        if ykind == "column":
            y = y.reshape(d, 1)
    else:
        if ykind == "herm":
            r = fill("psd", (d, d), "complex128", key=key + ("rho",))
            r = r / np.trace(r).real
        else:
            r = fill("generic", (d, d), "complex128", key=key + ("rhog",))
        y = r.reshape(-1)
    ls = [fill("generic", (d, d), "complex128", key=key + ("L", i)) for i in range(nl)]
    gamma = 0.7
    fn = getattr(evo, eq)

    def wrap(h):
        return _wrap_form(h, form)

    try:
        if timedep:
            f = fn(lambda t: wrap(H + np.sin(1.1 * t) * B))
        elif eq == "lindblad_eq":
            f = fn(wrap(H), [qu.qarray(l) for l in ls], gamma)
        elif eq == "lindblad_eq_vectorized":
            lq = [sp.csr_matrix(l) if lsparse is True else qu.qarray(l) for l in ls]
            f = fn(wrap(H), lq, gamma, sparse=True) if lsparse == "flag" else fn(wrap(H), lq, gamma)
        else:
            f = fn(wrap(H))
        got = f(tval, qu.qarray(y) if ykind == "column" else y.copy())
    except np.linalg.LinAlgError as ex:
        return table.bad(core.problem("%s raised LinAlgError %s" % (eq, ex), root="rhs-linalg-error", eq=eq, form=form))
    except Exception as ex:  # noqa - 'rejects what it does not support'
        return table.rejected("%s:%s:%s" % (eq, form, type(ex).__name__))
    got = np.asarray(got)
    want = _rhs_ref(eq, Ht, y, d, ls, gamma)
    if got.shape != want.shape:
        got = got.reshape(want.shape) if got.size == want.size else got
    if got.shape != want.shape or not np.all(np.isfinite(got)) or float(np.max(np.abs(got - want))) > 1e-10 * max(1.0, float(np.max(np.abs(want)))):
        err = float(np.max(np.abs(got - want))) if got.shape == want.shape else float("inf")
        return table.bad(core.problem("%s(%s ham, d=%d, y=%s, %d Lindblad ops): right-hand side differs from its formula by %.3g" % (eq, form, d, ykind, nl, err), root="rhs-formula", eq=eq, form=form, ykind=ykind))
    return table.ok(key=(eq, form, d, ykind, nl, lsparse, hdt, tval), nontrivial=float(np.max(np.abs(want))) > 1e-3, outcome="rhs|%s|%s" % (eq, form))


def rhs_cells(tier):
    th = tier == "thorough"
    ds = (2, 3, 4, 5) if th else (2, 3, 4)
    hdts = ("complex", "real")
    cells = []
    for d, hdt in itertools.product(ds, hdts):
        for form in ("qarray", "ndarray", "csr", "linop"):
            for yk in ("flat", "column"):
                cells.append(("schrodinger_eq_ket", form, d, yk, 0, False, hdt, 0.0))
                for tv in (0.0, 0.4, 1.7):
                    cells.append(("schrodinger_eq_ket_timedep", form, d, yk, 0, False, hdt, tv))
            cells.append(("schrodinger_eq_dop", form, d, "herm", 0, False, hdt, 0.0))
            for tv in (0.0, 0.4, 1.7):
                cells.append(("schrodinger_eq_dop_timedep", form, d, "herm", 0, False, hdt, tv))
        for form in ("qarray", "csr"):
            for yk in ("herm", "generic"):
                cells.append(("schrodinger_eq_dop_vectorized", form, d, yk, 0, False, hdt, 0.0))
                for nl in (0, 1, 2, 3):
                    for lsp in (False, True, "flag"):
                        cells.append(("lindblad_eq_vectorized", form, d, yk, nl, lsp, hdt, 0.0))
        for form in ("qarray", "ndarray", "csr"):
            for nl in (0, 1, 2, 3):
                cells.append(("lindblad_eq", form, d, "herm", nl, False, hdt, 0.0))
    return cells


# --------------------------------------------------------------------------- #
#                                   driver                                    #
# --------------------------------------------------------------------------- #


def run(ctx):
    tier = ctx.tier
    ctx.rule = (
        "BFS over histories [construct(cfg), event, event, ...] of real quimb.Evolution objects. cfg ranges over complete sub-products (groups) of "
        "method x state kind x state form x Hamiltonian representation (7 time-independent forms incl. pre-solved pairs, LinearOperator, Lazy; 7 callable "
        "forms over constant / commuting / non-commuting families) x data kind x t0 x int_small_step x compute callbacks x int_stop x progbar x d; events are "
        "update_to(t0+offset) and at_times(sequence) from a fixed menu (non-uniform, repeated, backwards, zero length, int / numpy typed, empty).  A state is "
        "distinct by the generic digest of vars(evo) + the callback record; a transition is non-trivial when the reported time actually moved.  Oracle after "
        "EVERY transition: reported t, state vs numpy propagator, norm/trace/purity/energy, callback records and results, rejection hygiene.  Plus a complete "
        "table of the quimb.evo right-hand sides against their formulas."
    )
    ctx.assumptions += [
        "Hamiltonians are Hermitian with entries O(1), times within [t0-0.15, t0+1]: phases are moderate, so absolute tolerances are meaningful",
        "tolerances: solve/expm 1e-9 absolute; integrate 2e-5 (= 20 x scipy rtol 1e-6)",
        "method='integrate' is only offered non-decreasing requests (menu precondition: the property claims non-monotonic sequences for the diagonalisation method only; quimb hands scipy's "
        "dopri steppers a positive first step, so a backwards request first walks forward - sometimes for 1e5 steps - and its outcome depends on scipy's stiffness counters, i.e. is not reproducible); "
        "solve and expm get every sequence incl. backwards ones",
        "any exception at construction / first update (or a backwards request with integrate/expm) is a rejection ('rejects what it does not support'); it must leave a "
        "correct (t, state) pair behind, and support must not depend on d (differential re-run of the same history at another dimension)",
        "scipy's complex_ode restarts every integrate() from (t, y) with the configured first step, so merging integrate states on (t, y rounded to 1e-9, callback record) keeps the futures",
        "histories with a long hop (length calibrated per configuration by a sub-cap pilot hop to ~850 accepted steps, measured per run in notes.longhop_accepted_steps) are compared at 3e-3 = 3000 steps x rtol 1e-6 (worst case linear "
        "accumulation of the per-step local error; measured <= 1e-4); the requested time must still be reported exactly",
        "per event CPU watchdog of 60 s (normal: milliseconds) that stops the worker hard -> harness error, exit 2: an exception raised inside scipy's Fortran solout callback can be swallowed by f2py "
        "and turn into an endless integration (seen with a seeded callback-plumbing bug), and a Python-level timeout exception would be swallowed the same way",
        "density operators handed to schrodinger_eq_dop / lindblad_eq are Hermitian (documented assumption of those two); the vectorised forms also get a generic matrix",
    ]
    depths = {g: _depth(g, tier) for g in GROUPS}
    if "depth" in ctx.opts:
        depths = {g: int(ctx.opts["depth"]) for g in depths}
    groups = [g for g in GROUPS if ctx.opts.get("only", g) == g]
    ctx.bounds = {
        "event_depth_after_constructor": {g: depths[g] for g in groups},
        "configs": {g: len(group_configs(g, tier)) for g in groups},
        "events": {g: len(group_events(g, tier)) for g in groups},
        "d": [2, 3, 4],
        "offsets": list(OFFSETS) + ["np.float64(0.35)"],
        "rhs_cells": len(rhs_cells(tier)),
    }
    st = ref_selftest()
    ctx.notes["reference_selftest"] = st
    if max(st.values()) > 1e-9:
        raise core.HarnessError("reference propagator self-test failed: %r" % (st,))
    if ctx.opts.get("only", "rhs") == "rhs":
        table.run(ctx, "rhs_cell", rhs_cells(tier), name="rhs: equation x Hamiltonian form x d x input kind x Lindblad ops")
        ctx.subproducts.append("right-hand sides: equation x Hamiltonian form x d x dtype x input kind x (0..3 Lindblad operators x dense/sparse) complete")
    if "longhop" in groups:
        probe_cfgs = sorted({tuple(Cfg(*c)._replace(cb="none")) for c in group_configs("longhop", tier)}, key=repr)
        pr = ctx.pmap("longhop_probe", probe_cfgs)
        steps = [r["steps"] for r in pr]
        ctx.notes["longhop_accepted_steps"] = {"min": min(steps), "max": max(steps), "scipy_default_cap": 500, "hop_length_min": min(r["T"] for r in pr), "hop_length_max": max(r["T"] for r in pr), "configs": len(pr)}
        short = [r for r in pr if r["reached"] and r["steps"] < LONG_MIN_STEPS]
        if short:
            ctx.cap("long hop of %d configuration(s) reached its time in < %d accepted steps (e.g. %r): not clearly beyond scipy's default cap of 500" % (len(short), LONG_MIN_STEPS, short[0]))
    for g in groups:
        seq.explore(ctx, {"group": g, "tier": tier}, 1 + depths[g], label=g)
        ctx.subproducts.append("%s: %d configurations x all event histories of length <= %d over %d events complete" % (g, len(group_configs(g, tier)), depths[g], len(group_events(g, tier))))


def replay(case):
    if case.get("engine") == "table":
        import sys

        return table.replay(sys.modules[__name__], case)
    return seq.replay(__name__, case)

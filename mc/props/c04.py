"""C04 - gauging, canonisation and simplification preserve the denoted tensor.

Three passes (DESIGN.md section 3, C04):

K  structure kernels (``find_diag_axes`` / ``find_antidiag_axes`` /
   ``find_columns``): every 0/1 mask of a list of small shapes times a generic
   fill (plus a below-threshold "dust" variant) against brute-force
   definitions.                                                   [table]
T  tensor-level rewrites on a pair of tensors (``tensor_canonize_bond``,
   ``tensor_compress_bond``, ``tensor_balance_bond``,
   ``tensor_make_single_bond``, ``tensor_fuse_squeeze``,
   ``tensor_gauge_simple_bond``): structure x dtype x option product, oracle =
   the contraction of the pair (with the simple-update gauges put back) is
   unchanged + the promised form.                                  [table]
S  SeqExplorer over compositions of network-level rewrites from a list of
   initial networks; after EVERY transition the dense value over the same
   outer labels (numpy einsum of the raw arrays, times 10**exponent, with any
   externally held simple-update gauges put back) must be unchanged, the
   outer labels must be unchanged, every ``left_inds`` the library set must be
   a true isometry, and the event's promised form must hold.        [seq]
"""

from __future__ import annotations

import itertools

import numpy as np

from .. import core, ref, seq, table
from ..alphabet import fill
from ..qhelp import Renamer, arr_digest

TOL_VAL = 1e-9
TOL_ISO = 1e-8
COND_MAX = 1e6  # simple-update / BP style gauging inverts bond weights
PASS_LIMIT = 200  # simplification passes inside ONE full_simplify / compress_simplify call


def _single(dtype):
    return str(dtype) in ("float32", "complex64")


class Precondition(ValueError):
    """harness-side guard: the event is outside its documented domain in the
    current world (counted as a rejection, never a violation)."""


# --------------------------------------------------------------------------- #
#                              initial networks                               #
# --------------------------------------------------------------------------- #


def _graph_tensors(edges, n, outer, dims):
    if dims == "all2":
        bsz = lambda k: 2
        osz = 2
    else:  # mixed 1, 2, 3
        bsz = lambda k: (2, 1, 3)[k % 3]
        osz = 3
    inds = {i: [] for i in range(n)}
    for k, (i, j) in enumerate(edges):
        lab = "b%d%d" % (i, j)
        inds[i].append((lab, bsz(k)))
        inds[j].append((lab, bsz(k)))
    for i in range(n):
        if outer == "all" or (outer == "first" and i == 0):
            inds[i].append(("k%d" % i, osz))
    return [(tuple(l for l, _ in inds[i]), tuple(s for _, s in inds[i]), "generic") for i in range(n)]


def _recipe(name):
    """Named networks: (list of (inds, shape, kind), out or None).  ``None``
    = the labels that appear exactly once, in order of appearance."""
    G = "generic"
    if name == "chain3":
        return [(("a", "x"), (2, 3), G), (("x", "b", "y"), (3, 2, 2), G), (("y", "c"), (2, 2), G)], None
    if name == "tri":
        return [(("a", "x", "z"), (2, 3, 2), G), (("x", "b", "y"), (3, 2, 2), G), (("y", "c", "z"), (2, 2, 2), G)], None
    if name == "chain-diag":  # middle tensor diagonal in its two bonds
        return [(("a", "x"), (2, 2), G), (("x", "y", "b"), (2, 2, 2), "diag"), (("y", "c"), (2, 2), G)], None
    if name == "chain-antidiag":
        return [(("a", "x"), (2, 2), G), (("x", "y", "b"), (2, 2, 2), "antidiag"), (("y", "c"), (2, 2), G)], None
    if name == "chain-column":  # only x = 0 is non-zero on the middle tensor
        return [(("a", "x"), (2, 2), G), (("b", "y", "x"), (2, 2, 2), "onehot-column"), (("y", "c"), (2, 2), G)], None
    if name == "chain-rank1":
        return [(("a", "x"), (2, 2), G), (("x", "y", "b"), (2, 2, 2), "rank1"), (("y", "c"), (2, 2), G)], None
    if name == "chain-identity":
        return [(("a", "x"), (2, 2), G), (("x", "y"), (2, 2), "identity"), (("y", "c"), (2, 2), G)], None
    if name == "loop-diag":  # triangle with a diagonal and an antidiagonal member
        return [(("x", "z", "a"), (2, 2, 2), "diag"), (("x", "y", "b"), (2, 2, 2), "antidiag"), (("y", "c", "z"), (2, 2, 2), G)], None
    if name == "copy":  # a COPY tensor joining three legs (quimb's immutable array)
        return [(("a", "x"), (2, 2), G), (("b", "y"), (2, 2), G), (("c", "z"), (2, 2), G), (("x", "y", "z"), (2, 2, 2), "copy")], None
    if name == "hyper3":
        return [(("a", "h"), (2, 2), G), (("b", "h"), (2, 2), G), (("c", "h"), (2, 2), G)], ("a", "b", "c")
    if name == "hyper3-out":  # hyper label that is also an output
        return [(("a", "h"), (2, 2), G), (("b", "h"), (2, 2), G), (("c", "h"), (2, 2), G)], ("a", "b", "c", "h")
    if name == "hyper4":
        return [(("a", "h"), (2, 3), G), (("b", "h", "x"), (2, 3, 2), G), (("h", "c"), (3, 2), G), (("x", "h"), (2, 3), G)], ("a", "b", "c")
    if name == "hyper-diag":  # hyper label + a diagonal tensor on it
        return [(("a", "h"), (2, 2), G), (("h", "y", "b"), (2, 2, 2), "diag"), (("c", "h"), (2, 2), G), (("y", "d"), (2, 2), G)], ("a", "b", "c", "d")
    if name == "outbond":  # an output label that is also a bond
        return [(("a", "x"), (2, 2), G), (("x", "b", "y"), (2, 2, 2), G), (("y", "c"), (2, 2), G)], ("a", "x", "b", "c")
    if name == "outbond-diag":
        return [(("a", "x"), (2, 2), G), (("x", "y", "b"), (2, 2, 2), "diag"), (("y", "c"), (2, 2), G)], ("a", "x", "b", "c")
    if name == "multibond":
        return [(("a", "x", "y"), (2, 2, 3), G), (("x", "y", "z", "b"), (2, 3, 2, 2), G), (("z", "c"), (2, 2), G)], None
    if name == "multibond-loop":
        return [(("a", "x", "y", "w"), (2, 2, 2, 2), G), (("x", "y", "z"), (2, 2, 2), G), (("z", "c", "w"), (2, 2, 2), G)], None
    if name == "oversized":  # bonds larger than the matrix rank allows
        return [(("a", "x"), (2, 3), G), (("x", "b", "y"), (3, 2, 4), G), (("y", "c"), (4, 2), G)], None
    if name == "scalar":  # a floating scalar tensor next to a chain
        return [(("a", "x"), (2, 2), G), (("x", "b"), (2, 2), G), ((), (), G)], None
    if name == "size1":  # size-1 bond, size-1 outer label
        return [(("a", "x", "s"), (2, 1, 1), G), (("x", "b", "y"), (1, 2, 2), G), (("y", "c"), (2, 2), G)], None
    if name == "closed":  # no outer labels: a number
        return [(("x", "z"), (3, 2), G), (("x", "y"), (3, 2), G), (("y", "z"), (2, 2), G)], None
    if name == "two-comp":  # two disconnected components
        return [(("a", "x"), (2, 2), G), (("x", "b"), (2, 2), G), (("c", "y"), (2, 3), G), (("y", "d"), (3, 2), G)], None
    if name == "hint":  # left_inds given by the user as a mere grouping hint
        return [(("a", "x"), (2, 2), "hint"), (("x", "b", "y"), (2, 2, 2), G), (("y", "c"), (2, 2), G)], None
    if name == "ring4-lowrank":  # 4-ring whose loop tensor is low rank: loop_simplify has work
        return [(("a", "p", "q"), (2, 3, 3), G), (("q", "r"), (3, 3), G), (("r", "s", "b"), (3, 3, 2), G), (("s", "p"), (3, 3), G)], None
    if name == "two-loops":  # two 3-loops joined by a bond (6 tensors)
        return [
            (("a", "p", "q"), (2, 3, 3), G),
            (("q", "r"), (3, 3), G),
            (("r", "p", "m"), (3, 3, 2), G),
            (("m", "s", "t"), (2, 3, 3), G),
            (("t", "u"), (3, 3), G),
            (("u", "s", "b"), (3, 3, 2), G),
        ], None
    if name == "outbond-pair":  # an OUTPUT label on exactly the two tensors of a pair that has a size-reducing re-split
        return [(("a", "o", "x"), (3, 2, 2), G), (("x", "o", "b"), (2, 2, 3), G)], ("a", "o", "b")
    if name == "factor-ring":  # factor graph: every variable on two factors, two of them kept open (a marginal)
        return [(("v0", "v1"), (2, 2), "positive"), (("v1", "v2"), (2, 2), "positive"), (("v2", "v3"), (2, 2), "positive"), (("v3", "v0"), (2, 2), "positive")], ("v0", "v2")
    if name == "outer-structured":  # structured tensors whose structured axis is an OUTER label
        return [
            (("a", "x"), (2, 2), "antidiag"),
            (("x", "y", "z", "b"), (2, 2, 2, 2), G),
            (("c", "y"), (2, 2), "diag"),
            (("z", "d"), (2, 2), "onehot-column"),
        ], None
    if name == "multibond-diag":  # diagonal across a multibond: diagonal_reduce leaves a repeated label
        return [(("x", "y", "a"), (2, 2, 2), "diag"), (("x", "y", "b", "z"), (2, 2, 2, 2), G), (("z", "c"), (2, 2), G)], None
    if name == "mixed-dtype":  # real and complex tensors in one network
        return [(("a", "x"), (2, 3), "generic:float64"), (("x", "b", "y"), (3, 2, 2), "generic:complex128"), (("y", "c"), (2, 2), "generic:float64")], None
    if name == "mps4":  # MPS-like with oversized bonds (pair_simplify has work)
        return [(("k0", "x"), (2, 3), G), (("x", "k1", "y"), (3, 2, 3), G), (("y", "k2", "z"), (3, 2, 3), G), (("z", "k3"), (3, 2), G)], None
    raise KeyError(name)


RECIPE_NAMES = (
    "chain3", "tri", "chain-diag", "chain-antidiag", "chain-column", "chain-rank1", "chain-identity", "loop-diag", "copy",
    "hyper3", "hyper3-out", "hyper4", "hyper-diag", "outbond", "outbond-diag", "multibond", "multibond-loop", "oversized",
    "scalar", "size1", "closed", "two-comp", "hint", "ring4-lowrank", "two-loops", "mps4", "multibond-diag", "mixed-dtype", "outer-structured", "outbond-pair", "factor-ring",
)


def spec_tensors(spec):
    if spec["net"] == "graph":
        tl = _graph_tensors([tuple(e) for e in spec["edges"]], spec["n"], spec["outer"], spec["dims"])
        out = None
    else:
        tl, out = _recipe(spec["net"])
    if out is None:
        cnt = {}
        for inds, _, _ in tl:
            for l in inds:
                cnt[l] = cnt.get(l, 0) + 1
        out = tuple(l for l, c in cnt.items() if c == 1)
    return tl, tuple(out)


def _data(kind, shape, dtype, key):
    if kind == "identity":
        return np.eye(shape[0], dtype=dtype).reshape(shape)
    if kind == "copy":
        import quimb.tensor as qtn

        return qtn.COPY_tensor(shape[0], ["i%d" % i for i in range(len(shape))], dtype=dtype).data
    if kind == "hint":
        kind = "generic"
    if ":" in kind:
        kind, dtype = kind.split(":")
    if shape == ():
        return np.asarray(fill("generic", (1,), dtype, key=key)[0] + 1.5)
    return fill(kind, shape, dtype, key=key)


class World:
    def __init__(self, tn, out, refval):
        self.tn = tn
        self.out = tuple(out)
        self.ref = refval
        self.gauges = None  # simple-update gauges currently held OUTSIDE the network
        self.tol = TOL_VAL
        self.itol = TOL_ISO
        self.cond = COND_MAX
        self.single = False
        self.hint = {}  # tag -> left_inds given by the USER as a grouping hint


def build_world(spec):
    import quimb.tensor as qtn

    tl, out = spec_tensors(spec)
    dtype = spec.get("dtype", "float64")
    ts, raw = [], []
    hints = []
    for i, (inds, shape, kind) in enumerate(tl):
        d = _data(kind, shape, dtype, ("c04", spec["net"], spec.get("gid", 0), i))
        t = qtn.Tensor(d, inds, tags=["T%d" % i] + (["HINT"] if kind == "hint" else []), left_inds=(inds[:1] if kind == "hint" else None))
        if kind == "hint":
            hints.append((i, tuple(inds[:1])))
        ts.append(t)
        raw.append((np.array(d), inds))
    tn = qtn.TensorNetwork(ts)
    expo = float(spec.get("expo", 0.0))
    tn.exponent = expo
    w = World(tn, out, ref.tn_value([(np.asarray(a, dtype=np.result_type(a.dtype, np.float64)), i) for a, i in raw], out, expo))
    if _single(dtype):
        w.tol, w.itol, w.cond, w.single = 5e-4, 5e-4, 1e2, True
    for i, li in hints:
        w.hint["HINT"] = li
    return w


def is_hint(w, t):
    return "HINT" in t.tags and t.left_inds is not None and tuple(t.left_inds) == tuple(w.hint.get("HINT", ()))


# --------------------------------------------------------------------------- #
#                         fresh scans of the live world                       #
# --------------------------------------------------------------------------- #


def raw_tensors(tn):
    return [(np.asarray(t.data), tuple(t.inds)) for t in tn.tensor_map.values()]


def dense_value(tn, out, gauges=None):
    """numpy-only denotation of the live network over ``out`` (externally held
    simple-update gauges are put back as diagonal tensors on their bonds)."""
    ts = [(np.asarray(a, dtype=np.result_type(a.dtype, np.float64)), i) for a, i in raw_tensors(tn)]
    if gauges:
        present = {l for _, inds in ts for l in inds}
        for ix, g in gauges.items():
            if ix in present:
                # a vector on a bond label: einsum treats the label as hyper,
                # i.e. multiplies the weight in exactly once
                ts.append((np.asarray(g), (ix,)))
    return ref.tn_value(ts, out, float(np.real(tn.exponent)))


class Facts:
    pass


def facts(w):
    tn = w.tn
    f = Facts()
    lab = {}
    size = {}
    for tid, t in tn.tensor_map.items():
        for ix, d in zip(t.inds, t.shape):
            lab.setdefault(ix, []).append(tid)
            size[ix] = int(d)
    out = set(w.out)
    f.lab, f.size = lab, size
    f.hyper = sorted(ix for ix, tids in lab.items() if len(tids) > 2 or (ix in out and len(tids) >= 2) or len(set(tids)) < len(tids))
    hy = set(f.hyper)
    f.bonds = [ix for ix, tids in lab.items() if len(tids) == 2 and ix not in hy]
    pairs = {}
    for ix, tids in lab.items():
        for a, b in itertools.combinations(sorted(set(tids)), 2):
            pairs.setdefault((a, b), []).append(ix)
    f.pairs = pairs
    # a pair is 'clean' when everything it shares is an ordinary bond
    f.clean = {p: ixs for p, ixs in pairs.items() if all(ix not in hy for ix in ixs)}
    f.all_clean = all(p in f.clean for p in pairs)
    f.multibond = any(len(ixs) > 1 for ixs in pairs.values())
    uniq = {}
    for tid, t in tn.tensor_map.items():
        for tg in sorted(t.tags):
            if set(tn.tag_map[tg]) == {tid}:
                uniq[tid] = tg
                break
    f.uniq = uniq
    f.tids = list(tn.tensor_map)
    # simple graph
    nb = {tid: set() for tid in f.tids}
    for a, b in pairs:
        nb[a].add(b)
        nb[b].add(a)
    f.nb = nb
    seen = set()
    if f.tids:
        st = [f.tids[0]]
        while st:
            x = st.pop()
            if x in seen:
                continue
            seen.add(x)
            st.extend(nb[x] - seen)
    f.connected = len(seen) == len(f.tids)
    f.tree = f.connected and len(pairs) == len(f.tids) - 1 and not f.hyper
    f.path = f.tree and all(len(v) <= 2 for v in nb.values())
    f.std = not f.hyper
    return f


def conditioning(w, f=None):
    """(no_simple, no_projector): simple-update gauging divides by bond
    weights (offered while every bond matricisation of every tensor has
    condition number < w.cond); the projector based rewrites (virtual-tree /
    full-bond compression, BP gauging) invert products of reduced factors and
    damp EXACT zeros, so they are offered when every matricisation is either
    exactly rank deficient or has condition number < 1e3 (10x margins to the
    regime in which rounding is amplified to the comparison tolerance)."""
    f = f or facts(w)
    ratios = []
    for ix in f.bonds:
        for tid in f.lab[ix]:
            t = w.tn.tensor_map[tid]
            a = np.asarray(t.data, dtype=np.result_type(t.dtype, np.float64))
            ax = t.inds.index(ix)
            m = np.moveaxis(a, ax, 0).reshape(a.shape[ax], -1)
            if m.shape[1] < m.shape[0]:
                ratios.append(0.0)
                continue
            s = np.linalg.svd(m, compute_uv=False)
            ratios.append(0.0 if s[0] == 0 else float(s[-1] / s[0]))
    single = w.single
    exact0 = 1e-5 if single else 1e-12
    no_simple = any(r < 1.0 / w.cond for r in ratios)
    no_proj = any(exact0 < r < (1e-2 if single else 1e-3) for r in ratios)
    return no_simple, no_proj


def iso_defect(t, left):
    a = np.asarray(t.data)
    inds = list(t.inds)
    if len(set(inds)) < len(inds):
        # repeated label (diagonal_reduce leaves them): the tensor acts through its generalised diagonal
        uniq = list(dict.fromkeys(inds))
        a = np.einsum(a, [uniq.index(i) for i in inds], list(range(len(uniq))))
        inds = uniq
    left = list(dict.fromkeys(left))
    li = [inds.index(i) for i in left]
    ri = [k for k in range(len(inds)) if k not in li]
    m = np.transpose(a, li + ri).reshape(int(np.prod([a.shape[k] for k in li])) if li else 1, -1)
    return ref.isometry_defect(m)


# --------------------------------------------------------------------------- #
#                                    menu                                     #
# --------------------------------------------------------------------------- #

FULL_SEQS = ("A", "D", "C", "R", "S", "L", "P", "ADCRS", "DCR", "ADCRSLP", "RPL", "SLP", "AD", "CSR", "ADCRP")


def menu(w, rich=1):
    """rich: 0 = default options only, 1 = + one-option deviations,
    2 = + every full_simplify string over ADCRSLP up to length 3."""
    f = facts(w)
    tn = w.tn
    ev = []

    def add(name, target=(), dev=0, **opts):
        if dev and not rich:
            return
        ev.append((name, tuple(target), tuple(sorted(opts.items())), dev))

    held = w.gauges is not None
    nt = len(f.tids)
    O = {} if f.std else {"output_inds": "out"}
    X = {} if f.std else {"exclude": "out"}
    defi, illp = conditioning(w, f)
    addr_pairs = [(a, b) for (a, b) in f.clean if a in f.uniq and b in f.uniq]

    # ---- pure rescalings: valid everywhere ------------------------------ #
    if nt:
        add("equalize_norms")
        add("equalize_norms", plain=True)
        add("equalize_norms", value=1.0)
        add("equalize_norms", dev=1, value=3.0)
        add("equalize_norms", dev=1, value=1.0, check_zero=True)
        add("distribute_exponent")
        add("distribute_exponent", dev=1, new_exponent=2.0)
        for pos in range(nt):
            add("strip_exponent", (pos,))
            add("strip_exponent", (pos,), dev=1, value=2.0, by="tensor")

    if held:
        # only gauge-aware rewrites make sense while bond weights are held out
        add("gauge_simple_insert")
        add("gauge_simple_insert", dev=1, remove=True)
        add("gauge_simple_temp")
        add("gauge_simple_temp", dev=1, ungauge_inner=False)
        if f.all_clean and f.bonds and not defi:
            add("gauge_all_simple", gauges="held")
            add("gauge_all_simple", dev=1, gauges="held", max_iterations=1)
            add("gauge_all_canonize", dev=1, gauges="held")
            add("compress_all_simple", dev=1, gauges="held", max_bond=None, cutoff=0.0)
            add("fuse_multibonds", gauges="held")
            for a, b in addr_pairs:
                ta, tb = f.uniq[a], f.uniq[b]
                add("canonize_between", (ta, tb), dev=1, gauges="held")
                add("canonize_between", (tb, ta), dev=1, gauges="held")
                add("compress_between", (ta, tb), dev=1, gauges="held", max_bond=None, cutoff=0.0)
                add("tensor_fuse_squeeze", (ta, tb), dev=1, gauges="held")
            for tid in f.tids:
                if tid in f.uniq:
                    add("canonize_around", (f.uniq[tid],), dev=1, gauges="held")
        return ev

    # ---- global gauging / compression ----------------------------------- #
    if f.all_clean and f.bonds:
        add("gauge_all_canonize")
        add("gauge_all_canonize", plain=True)
        add("gauge_all_canonize", dev=1, absorb="right")
        add("gauge_all_canonize", dev=1, absorb="left")
        add("gauge_all_canonize", dev=1, max_iterations=1)
        add("gauge_all_canonize", dev=1, equalize_norms=True)
        add("gauge_all_canonize", dev=1, equalize_norms=1.0)
        add("gauge_all_canonize", dev=1, method="svd")
        add("gauge_all_random", seed=7)
        add("gauge_all_random", seed=7, plain=True)
        add("gauge_all_random", dev=1, seed=7, unitary=False)
        add("gauge_all_random", dev=1, seed=7, max_iterations=2)
        add("balance_bonds")
        add("balance_bonds", plain=True)
        if not illp:  # default mode is 'virtual-tree' (oblique projectors)
            add("compress_all", max_bond=None, cutoff=0.0)
            add("compress_all", max_bond=None, cutoff=0.0, plain=True)
            add("compress_all", dev=1, max_bond=None, cutoff=0.0, tree_gauge_distance=1)
            add("compress_all", dev=1, max_bond=64, cutoff=0.0)
        add("compress_all", dev=(1 if not illp else 0), max_bond=None, cutoff=0.0, mode="basic")
        add("compress_all", dev=1, max_bond=None, cutoff=0.0, canonize=False)
        add("compress_all", dev=1, max_bond=None, cutoff=0.0, mode="basic", equalize_norms=1.0)
        if f.tree:
            add("compress_all_tree", max_bond=None, cutoff=0.0)
            add("compress_all_tree", max_bond=None, cutoff=0.0, plain=True)
        if f.path:
            add("compress_all_1d", max_bond=None, cutoff=0.0)
            add("compress_all_1d", max_bond=None, cutoff=0.0, plain=True)
            add("compress_all_1d", dev=1, max_bond=None, cutoff=0.0, canonize=False)
        add("gauge_all", dev=1, method="canonize")
        add("gauge_all", dev=1, method="random", seed=7)
        if not defi:
            add("gauge_all_simple")
            add("gauge_all_simple", plain=True)
            add("gauge_all_simple", gauges="new")
            add("gauge_all_simple", dev=1, max_iterations=1)
            add("gauge_all_simple", dev=1, power=0.5)
            add("gauge_all_simple", dev=1, smudge=0.0)
            add("gauge_all_simple", dev=1, damping=0.5)
            add("gauge_all_simple", dev=1, equalize_norms=True)
            add("gauge_all_simple", dev=1, fuse_multibonds=False)
            add("gauge_all_simple", dev=1, tol=1e-3)
            add("compress_all_simple", max_bond=None, cutoff=0.0)
            add("compress_all_simple", max_bond=None, cutoff=0.0, plain=True)
            add("compress_all_simple", dev=1, max_bond=None, cutoff=0.0, max_iterations=1)
            add("gauge_all", dev=1, method="simple")
        if not defi and not illp:
            add("gauge_all_belief_propagation")
            add("gauge_all_belief_propagation", plain=True)
            add("gauge_all_belief_propagation", dev=1, update="parallel")
            add("gauge_all_belief_propagation", dev=1, max_iterations=1)
            add("gauge_all_belief_propagation", dev=1, output_inds="out")
            add("gauge_all", dev=1, method="bp")

        # ---- region events ---------------------------------------------- #
        for tid in f.tids:
            if tid not in f.uniq:
                continue
            tg = f.uniq[tid]
            add("canonize_around", (tg,))
            add("canonize_around", (tg,), plain=True)
            add("canonize_around", (tg,), dev=1, max_distance=1)
            add("canonize_around", (tg,), dev=1, absorb="left")
            add("canonize_around", (tg,), dev=1, gauge_links=True)
            add("canonize_around", (tg,), dev=1, equalize_norms=1.0)
            add("canonize_around", (tg,), dev=1, min_distance=1)
            add("gauge_local", (tg,))
            add("gauge_local", (tg,), plain=True)
            add("gauge_local", (tg,), dev=1, max_distance=2)
            add("gauge_local", (tg,), dev=1, method="random", seed=5)
            add("gauge_local", (tg,), dev=1, equalize_norms=True)
            add("gauge_local", (tg,), dev=1, equalize_norms=1.0)
            if not defi and f.nb[tid]:  # the local region needs a bond to gauge
                add("gauge_local", (tg,), dev=1, method="simple")
                add("gauge_local", (tg,), dev=1, method="simple", equalize_norms=True)
                if not illp:
                    add("gauge_local", (tg,), dev=1, method="bp")

        # ---- pair events -------------------------------------------------- #
        for a, b in addr_pairs:
            ta, tb = f.uniq[a], f.uniq[b]
            single = len(f.clean[(a, b)]) == 1
            for x, y in ((ta, tb), (tb, ta)):
                add("canonize_between", (x, y))
            add("canonize_between", (ta, tb), dev=1, absorb="left")
            add("canonize_between", (ta, tb), dev=1, absorb="both")
            add("canonize_between", (ta, tb), dev=1, method="svd")
            add("canonize_between", (ta, tb), dev=1, equalize_norms=1.0)
            add("compress_between", (ta, tb), max_bond=None, cutoff=0.0)
            for x, y in ((ta, tb), (tb, ta)):
                add("compress_between", (x, y), dev=1, max_bond=None, cutoff=0.0, absorb="right")
            add("compress_between", (ta, tb), dev=1, max_bond=None, cutoff=0.0, absorb="left")
            # one SVD of the contracted pair keeps min(dim) values unless exact zeros are cut
            add("compress_between", (ta, tb), dev=1, max_bond=None, cutoff=(1e-5 if w.single else 1e-12), reduced=False)
            add("compress_between", (ta, tb), dev=1, max_bond=None, cutoff=0.0, reduced="left")
            add("compress_between", (ta, tb), dev=1, max_bond=None, cutoff=0.0, reduced="right")
            add("compress_between", (ta, tb), dev=1, max_bond=None, cutoff=0.0, canonize_distance=1)
            add("compress_between", (ta, tb), dev=1, max_bond=None, cutoff=0.0, equalize_norms=1.0)
            add("compress_between", (ta, tb), dev=1, max_bond=64, cutoff=0.0)
            add("compress_between", (ta, tb), dev=1, max_bond=64, cutoff=0.0, absorb="left")
            if not defi and not illp:
                add("compress_between", (ta, tb), dev=1, max_bond=None, cutoff=0.0, mode="virtual-tree")
                add("compress_between", (ta, tb), dev=1, max_bond=None, cutoff=0.0, mode="full-bond")
            if single:
                add("insert_gauge", (ta, tb))
                add("insert_gauge", (ta, tb), dev=1, Uinv=True)
                add("tensor_balance_bond", (ta, tb), dev=1)
            add("tensor_canonize_bond", (ta, tb), dev=1)
            add("tensor_compress_bond", (ta, tb), dev=1, cutoff=0.0)
            add("tensor_fuse_squeeze", (ta, tb), dev=1)
            add("tensor_make_single_bond", (ta, tb), dev=1)

    # ---- structure rewrites (hyper labels supported via output_inds) ------ #
    if nt:
        if f.std:
            add("squeeze")
            add("squeeze", plain=True)
            add("squeeze", dev=1, fuse=True)
            add("squeeze", dev=1, exclude="out")
            add("fuse_multibonds")
            add("fuse_multibonds", plain=True)
        else:
            add("squeeze", exclude="out")
            add("squeeze", exclude="out", plain=True)
            add("fuse_multibonds", exclude="out")
        add("hyperinds_resolve", **O)
        add("hyperinds_resolve", plain=True, **O)
        add("hyperinds_resolve", dev=1, mode="mps", **O)
        add("hyperinds_resolve", dev=1, mode="tree", **O)
        add("hyperinds_resolve", dev=1, mode="mps", sorter="centrality", **O)
        add("hyperinds_resolve", dev=1, mode="tree", sorter="clustering", **O)
        for name in ("rank_simplify", "diagonal_reduce", "antidiag_gauge", "column_reduce", "pair_simplify", "loop_simplify"):
            add(name, **O)
            add(name, plain=True, **O)
            if f.std:
                add(name, dev=1, output_inds="out")
        add("split_simplify")
        add("split_simplify", plain=True)
        for name in ("rank_simplify", "split_simplify", "pair_simplify", "loop_simplify"):
            o = O if name != "split_simplify" else {}
            add(name, dev=1, equalize_norms=1.0, **o)
        add("rank_simplify", dev=1, equalize_norms=True, **O)
        add("rank_simplify", dev=1, max_combinations=1, **O)
        add("loop_simplify", dev=1, max_loop_length=4, **O)
        add("full_simplify", **O)
        add("full_simplify", plain=True, **O)
        for s in FULL_SEQS:
            add("full_simplify", dev=1, seq=s, **O)
            if f.std and (len(s) == 1 or s in ("ADCRS", "RPL", "ADCRSLP")):
                # every pass letter and the documented sequences also WITH explicit outputs
                add("full_simplify", dev=1, seq=s, output_inds="out")
        if f.std:
            add("full_simplify", dev=1, output_inds="out")
            add("compress_simplify", dev=1, atol=1e-12, output_inds="out")
        add("full_simplify", dev=1, equalize_norms=True, **O)
        add("full_simplify", dev=1, equalize_norms=1.0, **O)
        add("full_simplify", dev=1, seq="ADCRSLP", equalize_norms=1.0, **O)
        add("compress_simplify", dev=1, atol=1e-12, **O)
        add("compress_simplify", dev=1, atol=1e-12, final_resolve=True, **O)
        add("compress_simplify", dev=1, atol=1e-12, equalize_norms=False, **O)
        if rich >= 2:
            for n in (1, 2, 3):
                for s in itertools.product("ADCRSLP", repeat=n):
                    s = "".join(s)
                    if s not in FULL_SEQS:
                        add("full_simplify", dev=1, seq=s, **O)
    return ev


# --------------------------------------------------------------------------- #
#                                   apply                                     #
# --------------------------------------------------------------------------- #

HAS_INPLACE = {
    "equalize_norms", "gauge_all_canonize", "gauge_all_simple", "gauge_all_random", "gauge_all_belief_propagation", "gauge_all",
    "balance_bonds", "compress_all", "compress_all_tree", "compress_all_1d", "compress_all_simple", "canonize_around", "gauge_local",
    "squeeze", "fuse_multibonds", "hyperinds_resolve", "rank_simplify", "diagonal_reduce", "antidiag_gauge", "column_reduce",
    "split_simplify", "pair_simplify", "loop_simplify", "full_simplify", "compress_simplify",
}


def _gauge_U(d, dtype, key):
    """a non-unitary gauge with condition number 2."""
    q1 = fill("unitary", (d, d), dtype, key=("c04U1", d, key))
    q2 = fill("unitary", (d, d), dtype, key=("c04U2", d, key))
    return ((q1 * np.linspace(1.0, 2.0, d)) @ q2).astype(dtype)


LOSSY_TOL = 1e-7


def _lossy(e):
    """rewrites that divide by bond weights / invert reduced factors: rounding
    is amplified by a condition number (bounded by the menu guards), so from
    here on the history is compared at LOSSY_TOL instead of 1e-9."""
    name, kw = e[0], dict(e[2])
    if "gauges" in kw or name.startswith("gauge_simple") or name in ("gauge_all_simple", "compress_all_simple", "gauge_all_belief_propagation", "gauge_all_random", "compress_simplify"):
        return True
    if name in ("gauge_local", "gauge_all") and kw.get("method") in ("simple", "bp", "random"):
        return True
    if name == "compress_all" and kw.get("mode") != "basic" and kw.get("canonize", True):
        return True
    if name == "compress_between" and kw.get("mode") in ("virtual-tree", "full-bond"):
        return True
    return False


PASSES = ("rank_simplify", "diagonal_reduce", "antidiag_gauge", "column_reduce", "split_simplify", "pair_simplify", "loop_simplify")
_PASS_COUNT = [0]


class NoFixedPoint(Precondition):
    """full_simplify keeps changing the network (observed: 'S' minimises the
    largest tensor, 'P' the total size; without 'R' they undo each other and a
    chain of small matrices grows for ever).  Termination is a liveness
    question outside the property statement: counted as a rejection."""


def install_pass_counter():
    """harness-side seam: count the simplification passes started inside one
    event so that a non-terminating full_simplify loop ends deterministically."""
    import quimb.tensor as qtn

    TN = qtn.TensorNetwork
    if getattr(TN, "_verif_pass_counter", False):
        return
    for nm in PASSES:
        orig = TN.__dict__[nm + "_"]

        def wrapper(self, *a, __orig=orig, **k):
            _PASS_COUNT[0] += 1
            if _PASS_COUNT[0] > PASS_LIMIT:
                raise NoFixedPoint("more than %d simplification passes in one call" % PASS_LIMIT)
            return __orig.__get__(self, type(self))(*a, **k)

        setattr(TN, nm + "_", wrapper)
    TN._verif_pass_counter = True


def apply(w, e):
    import quimb.tensor as qtn

    _PASS_COUNT[0] = 0
    name, target, opts, _dev = e
    if _lossy(e):
        w.tol = max(w.tol, LOSSY_TOL)
    kw = dict(opts)
    tn = w.tn
    obs = {}
    plain = bool(kw.pop("plain", False))
    if kw.get("output_inds") == "out":
        kw["output_inds"] = w.out
    if kw.get("exclude") == "out":
        kw["exclude"] = w.out
    g = kw.get("gauges")
    if g == "new":
        kw["gauges"] = w.gauges = {}
    elif g == "held":
        if w.gauges is None:
            raise Precondition("no gauges held")
        kw["gauges"] = w.gauges

    if name == "strip_exponent":
        tid = list(tn.tensor_map)[target[0]]
        by = kw.pop("by", "tid")
        tn.strip_exponent(tn.tensor_map[tid] if by == "tensor" else tid, **kw)
        obs["tid"] = tid
        return obs
    if name == "distribute_exponent":
        tn.distribute_exponent(**kw)
        return obs
    if name == "gauge_simple_insert":
        tn.gauge_simple_insert(w.gauges, **kw)
        w.gauges = None
        return obs
    if name == "gauge_simple_temp":
        with tn.gauge_simple_temp(w.gauges, **kw) as (outer, inner):
            obs["inside"] = dense_value(tn, w.out)
        if kw.get("ungauge_inner", True) is False:
            # the inner weights stay in the network: nothing is held any more
            w.gauges = None
        return obs
    if name in ("canonize_between", "compress_between"):
        getattr(tn, name)(target[0], target[1], **kw)
        return obs
    if name == "insert_gauge":
        ta, tb = tn[target[0]], tn[target[1]]
        (bond,) = qtn.bonds(ta, tb)
        d = ta.ind_size(bond)
        U = _gauge_U(d, str(ta.dtype), d)
        if kw.pop("Uinv", False):
            tn.insert_gauge(U, target[0], target[1], Uinv=np.linalg.inv(U))
        else:
            tn.insert_gauge(U, target[0], target[1])
        return obs
    if name.startswith("tensor_"):
        ta, tb = tn[target[0]], tn[target[1]]
        getattr(qtn.tensor_core, name)(ta, tb, **kw)
        return obs
    if name in ("canonize_around", "gauge_local"):
        args = (target[0],)
    else:
        args = ()
    if name not in HAS_INPLACE:
        raise KeyError(name)
    if plain:
        new = getattr(tn, name)(*args, **kw)
        try:  # the network the plain spelling was called on must still denote the same tensor
            obs["orig_err"] = ref.relerr(dense_value(tn, w.out, w.gauges), w.ref)
        except Exception as ex:
            obs["orig_err"] = "%s: %s" % (type(ex).__name__, ex)
        if isinstance(new, qtn.TensorNetwork) and new is not tn:
            w.tn = new
        else:
            obs["returned_bad"] = "the network itself" if new is tn else type(new).__name__
    else:
        r = getattr(tn, name + "_")(*args, **kw)
        obs["returned_self"] = r is tn
    return obs


# --------------------------------------------------------------------------- #
#                                  oracle                                     #
# --------------------------------------------------------------------------- #


def _opt_of(e):
    """the deviating option(s) of an event (for the signature)."""
    base = {"cutoff", "output_inds", "exclude", "seed", "plain", "atol"}
    o = [(k, v) for k, v in e[2] if k not in base and not (k == "max_bond" and v is None)]
    return ",".join("%s=%s" % kv for kv in o) or None


def _sig(e, kind, pre=None):
    return dict(event=e[0], kind=kind, opt=_opt_of(e), spelling="plain" if ("plain", True) in e[2] else "inplace", root=(pre or {}).get("root"), prec=(pre or {}).get("prec"))


def snapshot(w, e):
    """facts of the pre-state the promises are stated against."""
    f = facts(w)
    tn = w.tn
    pre = {
        "bondsize": {p: int(np.prod([f.size[ix] for ix in ixs])) for p, ixs in f.pairs.items()},
        "maxndim": max([t.ndim for t in tn.tensor_map.values()] or [0]),
        "sizes": dict(f.size),
        "tree": f.tree,
        "nt": len(f.tids),
        "claims": {id(t): t.left_inds for t in tn.tensor_map.values() if t.left_inds is not None},
        "std": f.std,
        "held": w.gauges is not None,
        "tids": {tg: tid for tid, tg in f.uniq.items()},
        "root": None,
        "prec": "single" if w.single else "double",
        "key": canon(w),
        "ni": len(f.lab),
    }
    # structural facts of the pre-state that are root causes in their own right
    if _has_repeat(tn):
        pre["root"] = "repeated-label"  # only diagonal_reduce produces these here
    elif e[0] in ("diagonal_reduce", "full_simplify", "compress_simplify") and "D" in dict(e[2]).get("seq", "D"):
        # classification only: would a diagonal pass leave a repeated label on a multibond partner?
        try:
            t2 = tn.copy()
            for _ in range(4):  # full_simplify repeats its passes
                t2.antidiag_gauge_(output_inds=w.out)
                t2.diagonal_reduce_(output_inds=w.out)
                if _has_repeat(t2):
                    pre["root"] = "repeated-label"
                    break
        except Exception:
            pass
    if e[0] == "balance_bonds" and f.multibond:
        pre["root"] = "multibond"
    if len(e) > 1 and len(e[1]) == 2 and all(isinstance(x, str) for x in e[1]):
        try:
            ta, tb = tn[e[1][0]], tn[e[1][1]]
            if set(ta.inds) == set(tb.inds):
                pre["root"] = "pair-without-free-labels"
        except Exception:
            pass
    return pre


def _has_repeat(tn):
    return any(len(set(t.inds)) < len(t.inds) for t in tn.tensor_map.values())


def generic_check(w):
    """value, outer labels, isometry claims.  Returns list of (kind, msg)."""
    tn = w.tn
    out = []
    lab = {}
    size = {}
    for tid, t in tn.tensor_map.items():
        if len(t.inds) != np.ndim(t.data):
            return [("structure", "tensor %s: %d labels for %d axes" % (tid, len(t.inds), np.ndim(t.data)))]
        for ix, d in zip(t.inds, np.shape(t.data)):
            lab[ix] = lab.get(ix, 0) + 1
            if size.setdefault(ix, int(d)) != int(d):
                return [("structure", "label %s has sizes %d and %d" % (ix, size[ix], d))]
    missing = [l for l in w.out if l not in lab]
    if missing:
        return [("labels", "outer label(s) %r no longer present (labels now %r)" % (missing, sorted(lab)))]
    shp = tuple(size[l] for l in w.out)
    if shp != tuple(np.shape(w.ref)):
        return [("labels", "outer shape %r != original %r over %r" % (shp, tuple(np.shape(w.ref)), w.out))]
    dangling = sorted(l for l, c in lab.items() if c == 1 and l not in w.out)
    if dangling:
        return [("labels", "new dangling label(s) %r not among the outer labels %r" % (dangling, w.out))]
    try:
        val = dense_value(tn, w.out, w.gauges)
    except Exception as ex:  # inconsistent network
        return [("structure", "network no longer contractible: %s %s" % (type(ex).__name__, str(ex)[:120]))]
    err = ref.relerr(val, w.ref)
    if not err <= w.tol:
        ratio = ""
        nz = np.abs(np.asarray(w.ref)) > 1e-6 * max(np.max(np.abs(w.ref)), 1e-300)
        if np.any(nz):
            r = np.asarray(val)[nz] / np.asarray(w.ref)[nz]
            if np.max(np.abs(r - r.flat[0])) < 1e-6 * max(abs(r.flat[0]), 1e-300):
                ratio = " (new = %.6g x old everywhere)" % (np.real(r.flat[0]) if abs(np.imag(r.flat[0])) < 1e-12 else abs(r.flat[0]))
        out.append(("value", "dense value over %r changed: rel err %.3g%s" % (w.out, err, ratio)))
    for t in tn.tensor_map.values():
        if t.left_inds is not None and not is_hint(w, t):
            if any(i not in t.inds for i in t.left_inds):
                out.append(("claim", "left_inds %r not all on tensor %r" % (t.left_inds, t.inds)))
                continue
            d = iso_defect(t, t.left_inds)
            if not d <= w.itol:
                out.append(("claim", "tensor %r carries library-set left_inds=%r but is not an isometry (defect %.3g)" % (t.inds, t.left_inds, d)))
    return out


def promise_check(w, e, obs, pre):
    """forms promised by the event.  Returns list of (kind, msg)."""
    name, target, opts, _ = e
    kw = dict(opts)
    tn = w.tn
    out = []
    f = facts(w)
    # weights held outside / norms equalised afterwards: no isometric form
    gaug = kw.get("gauges") is not None or bool(kw.get("equalize_norms"))

    def norms():
        return [float(np.linalg.norm(np.asarray(t.data, dtype=np.result_type(t.dtype, np.float64)))) for t in tn.tensor_map.values()]

    ntol = 1e-4 if w.single else 1e-9

    if name == "equalize_norms":
        ns = norms()
        v = kw.get("value")
        if v is None:
            if ns and max(ns) - min(ns) > ntol * max(ns):
                out.append(("promise:equal-norms", "norms not equal after equalize_norms(): %r" % ns))
        elif any(abs(n - v) > ntol * v for n in ns):
            out.append(("promise:equal-norms", "norms %r != %r after equalize_norms(%r)" % (ns, v, v)))
    elif name == "strip_exponent":
        v = kw.get("value") or 1.0
        n = float(np.linalg.norm(np.asarray(tn.tensor_map[obs["tid"]].data, dtype=np.result_type(tn.tensor_map[obs["tid"]].dtype, np.float64))))
        if abs(n - v) > ntol * v:
            out.append(("promise:norm", "norm %r != %r after strip_exponent" % (n, v)))
    elif name == "distribute_exponent":
        if abs(float(np.real(tn.exponent)) - kw.get("new_exponent", 0.0)) > 1e-6:
            out.append(("promise:exponent", "exponent %r after distribute_exponent(%r)" % (tn.exponent, kw.get("new_exponent", 0.0))))
    elif name == "gauge_simple_temp":
        err = ref.relerr(obs["inside"], w.ref)
        if not err <= max(1e-7, w.tol):
            out.append(("promise:temp-gauged-value", "inside gauge_simple_temp the network alone does not denote the gauged value: rel err %.3g" % err))
    elif name in ("fuse_multibonds",) or (name == "squeeze" and kw.get("fuse")):
        excl = set(w.out)
        groups = {}
        for ix, tids in f.lab.items():
            if len(tids) >= 2 and ix not in excl:
                groups.setdefault(tuple(sorted(tids)), []).append(ix)
        multi = {k: v for k, v in groups.items() if len(v) > 1}
        if multi:
            out.append(("promise:single-bond", "multibonds left after fusing: %r" % (sorted(multi.values()),)))
    if name == "squeeze":
        excl = set(kw.get("exclude") == "out" and w.out or ())
        left = sorted(ix for ix, d in f.size.items() if d == 1 and ix not in excl)
        if left:
            out.append(("promise:squeezed", "size-1 labels left after squeeze: %r" % left))
    if name == "hyperinds_resolve":
        hy = sorted(ix for ix, tids in f.lab.items() if len(tids) > 2)
        if hy:
            out.append(("promise:no-hyper", "labels on more than two tensors after hyperinds_resolve: %r" % hy))
    if name == "rank_simplify":
        mx = max([t.ndim for t in tn.tensor_map.values()] or [0])
        if mx > pre["maxndim"]:
            out.append(("promise:rank", "largest tensor rank grew from %d to %d" % (pre["maxndim"], mx)))
    if name in ("compress_between", "compress_all", "compress_all_tree", "compress_all_1d", "compress_all_simple", "tensor_compress_bond"):
        for p, ixs in f.pairs.items():
            if p in pre["bondsize"]:
                now = int(np.prod([f.size[ix] for ix in ixs]))
                if now > pre["bondsize"][p]:
                    out.append(("promise:bond-size", "bond between tensors %r grew from %d to %d" % (p, pre["bondsize"][p], now)))
    # isometric forms
    iso = None
    if not gaug and name in ("canonize_between", "tensor_canonize_bond"):
        ab = kw.get("absorb", "right")
        iso = {"right": target[0], "left": target[1]}.get(ab)
        other = {"right": target[1], "left": target[0]}.get(ab)
    if not gaug and name == "compress_between" and kw.get("absorb") in ("left", "right") and kw.get("mode") is None and kw.get("reduced") is None:
        ab = kw["absorb"]
        iso = {"right": target[0], "left": target[1]}[ab]
        other = {"right": target[1], "left": target[0]}[ab]
    if iso is not None:
        try:
            t, to = tn[iso], tn[other]
        except KeyError:
            t = None
        if t is not None and not isinstance(t, tuple) and not isinstance(to, tuple):
            shared = [ix for ix in t.inds if ix in to.inds]
            left = [ix for ix in t.inds if ix not in shared]
            d = iso_defect(t, left)
            if not d <= w.itol:
                out.append(("promise:isometry" + (":hinted" if is_hint(w, t) else ""), "%s%r: tensor %s not isometric w.r.t. %r -> %r (defect %.3g, left_inds=%r)" % (name, tuple(opts), iso, left, shared, d, t.left_inds)))
    if not gaug and name == "canonize_around" and pre["tree"] and f.tree and kw.get("absorb", "right") == "right" and "max_distance" not in kw and "min_distance" not in kw:
        # on a tree every tensor except the centre is isometric towards it
        root = pre["tids"].get(target[0])
        if root in f.nb:
            parent = {root: None}
            st = [root]
            while st:
                x = st.pop()
                for y in f.nb[x]:
                    if y not in parent:
                        parent[y] = x
                        st.append(y)
            for tid, par in parent.items():
                if par is None:
                    continue
                t = tn.tensor_map[tid]
                shared = [ix for ix in t.inds if ix in tn.tensor_map[par].inds]
                left = [ix for ix in t.inds if ix not in shared]
                d = iso_defect(t, left)
                if not d <= w.itol:
                    out.append(("promise:canonical-region" + (":hinted" if is_hint(w, t) else ""), "canonize_around(%s): tensor %r is not isometric towards the centre (defect %.3g)" % (target[0], t.inds, d)))
                    break
    if "orig_err" in obs:
        err = obs["orig_err"]
        if isinstance(err, str) or not err <= w.tol:
            out.append(("plain-spelling-changed-original", "the network the plain spelling was called on changed value: rel err %s" % err))
    if "returned_bad" in obs:
        out.append(("plain-spelling-return", "plain spelling returned %s instead of a new network" % obs["returned_bad"]))
    if obs.get("returned_self") is False:
        out.append(("inplace-returned-other", "in-place spelling did not return the network itself"))
    return out


# --------------------------------------------------------------------------- #
#                                  the case                                   #
# --------------------------------------------------------------------------- #


def canon(w):
    rn = Renamer()
    items = []
    for tid, t in w.tn.tensor_map.items():
        items.append(
            (
                tid,
                tuple(map(rn, t.inds)),
                tuple(int(d) for d in t.shape),
                tuple(sorted(map(rn, t.tags))),
                None if t.left_inds is None else tuple(map(rn, t.left_inds)),
                str(t.dtype),
                arr_digest(t.data, 8),
            )
        )
    g = None if w.gauges is None else tuple((rn(k), arr_digest(v, 8)) for k, v in w.gauges.items())
    return core.digest((type(w.tn).__name__, tuple(items), round(float(np.real(w.tn.exponent)), 8), g, w.out, tuple(int(d) for d in np.shape(w.ref))))


class C04Case(seq.Case):
    rejections = (Precondition,)
    step_timeout = 120

    def __init__(self, spec):
        super().__init__(spec)
        self.rich = int(spec.get("rich", 1))

    def build(self):
        return build_world(self.spec)

    def menu(self, w):
        return menu(w, self.rich)

    def cost(self, e):
        return int(e[3])

    def pre(self, w, e):
        self._pre = snapshot(w, e)
        return self._pre

    def apply(self, w, e):
        obs = apply(w, e)
        if e[0] == "squeeze" and not (dict(e[2]).get("exclude") == "out"):
            # a bare squeeze drops size-1 outer labels too (numpy semantics):
            # the denoted tensor is then compared over the remaining labels
            f = facts(w)
            gone = [l for l in w.out if l not in f.lab]
            if gone and all(np.shape(w.ref)[w.out.index(l)] == 1 for l in gone):
                keep = [l for l in w.out if l not in gone]
                w.ref = np.asarray(w.ref).reshape([np.shape(w.ref)[w.out.index(l)] for l in keep])
                w.out = tuple(keep)
        return obs

    def check(self, w, e, obs, pre):
        raw = generic_check(w)
        if e[0] != "init" and not raw:
            raw = promise_check(w, e, obs, pre)
        if not raw:
            return []
        if e[0] == "init":
            return [core.problem("initial world: %s" % raw[0][1], event="init", kind=raw[0][0])]
        kind = raw[0][0]
        return [core.problem("after %r: %s" % (e[:3], "; ".join(m for _, m in raw[:2])), **_sig(e, kind, pre))]

    def unexpected(self, w, e, exc):
        return [core.problem("%r raised %s: %s" % (e[:3], type(exc).__name__, str(exc)[:200]), **_sig(e, "exception:" + type(exc).__name__, getattr(self, "_pre", None)))]

    def canon(self, w):
        return canon(w)

    def nontrivial(self, w, e, obs):
        # at least two tensors share a label (there is something to gauge)
        return bool(facts(w).pairs)

    def outcome(self, w, e, obs):
        pre = getattr(self, "_pre", None) or {}
        same = pre.get("key") == canon(w)
        return "%s%s:%s:dnt=%+d:dni=%+d" % (e[0], "(plain)" if ("plain", True) in e[2] else "", "noop" if same else "changed", w.tn.num_tensors - pre.get("nt", 0), len(facts(w).lab) - pre.get("ni", 0))


def make_case(spec):
    install_pass_counter()
    return C04Case(spec)


# --------------------------------------------------------------------------- #
#                        K: structure detection kernels                       #
# --------------------------------------------------------------------------- #

K_SHAPES_QUICK = [(2,), (3,), (1, 1), (1, 2), (2, 1), (2, 2), (2, 3), (3, 2), (3, 3), (1, 2, 2), (2, 1, 2), (2, 2, 2), (1, 3, 3), (2, 2, 3), (1, 1, 1, 2)]
K_SHAPES_THOROUGH = K_SHAPES_QUICK + [(4, 4), (2, 3, 2), (3, 2, 3), (3, 3, 2), (2, 2, 2, 2), (2, 2, 1, 2, 2)]


def _bf_diag(x, atol):
    nd = x.ndim
    if nd < 2:
        return None
    idx = np.indices(x.shape)
    big = np.abs(x) > atol
    best = None
    for i in range(nd - 1):
        for j in range(i + 1, nd):
            if x.shape[i] == x.shape[j] and not np.any(big & (idx[i] != idx[j])):
                if best is None:
                    best = (i, j)
    return best


def _bf_antidiag(x, atol):
    nd = x.ndim
    if nd < 2:
        return None
    idx = np.indices(x.shape)
    big = np.abs(x) > atol
    for i in range(nd - 1):
        for j in range(i + 1, nd):
            if x.shape[i] == x.shape[j] and not np.any(big & (idx[i] != x.shape[i] - 1 - idx[j])):
                return (i, j)
    return None


def _bf_columns(x, atol):
    if x.ndim < 1:
        return None
    idx = np.indices(x.shape)
    big = np.abs(x) > atol
    for ax in range(x.ndim):
        for i in range(x.shape[ax]):
            if not np.any(big & (idx[ax] != i)):
                return (ax, i)
    return None


def kernel_cell(cell, common):
    """All 0/1 masks of one shape for one kernel / dtype / variant."""
    from quimb.tensor import array_ops

    fn, shape, dtype, variant = cell["fn"], tuple(cell["shape"]), cell["dtype"], cell["variant"]
    real = {"diag": array_ops.find_diag_axes, "antidiag": array_ops.find_antidiag_axes, "columns": array_ops.find_columns}[fn]
    bf = {"diag": _bf_diag, "antidiag": _bf_antidiag, "columns": _bf_columns}[fn]
    n = int(np.prod(shape))
    mag = fill("positive", shape, "float64", key=("c04K", shape))  # in [0.1, 1]
    sgn = np.sign(fill("generic", shape, "float64", key=("c04Ks", shape)))
    sgn[sgn == 0] = 1.0
    base = mag * sgn
    if np.dtype(dtype).kind == "c":
        base = base * np.exp(1j * np.pi * fill("generic", shape, "float64", key=("c04Kp", shape)))
    base = base.astype(dtype)
    kw = {}
    atol = 1e-12
    dust = 0.0
    if variant == "dust":  # entries 100x below the threshold count as zero
        dust = 1e-14
    elif variant == "atol":  # explicit tolerance, non-zeros 100x above it
        atol = 1e-3
        dust = 1e-5
        kw["atol"] = atol
    want_sub = cell.get("only")
    outcomes = set()
    res = []
    count = 0
    for m in range(2**n):
        if want_sub is not None and m != want_sub:
            continue
        mask = np.array([(m >> k) & 1 for k in range(n)], dtype=bool).reshape(shape)
        x = np.where(mask, base, dust * sgn).astype(dtype)
        want = bf(x, atol)
        try:
            got = real(x, **kw)
        except Exception as ex:
            res.append(table.bad(core.problem("find_%s(%r mask %d, %s) raised %s: %s" % (fn, shape, m, variant, type(ex).__name__, ex), entry="find_" + fn, kind="exception:" + type(ex).__name__), sub=m))
            continue
        got = None if got is None else tuple(int(v) for v in got)
        count += 1
        outcomes.add(repr(got))
        if got != want:
            res.append(table.bad(core.problem("find_%s on shape %r mask %d (%s, %s) = %r, brute force says %r" % (fn, shape, m, dtype, variant, got, want), entry="find_" + fn, kind="wrong-axes"), sub=m))
            if len(res) > 3:
                break
    res.append(table.ok(key=(fn, shape, dtype, variant), nontrivial=len(outcomes) > 1, outcome="%s:%d-outcomes" % (fn, len(outcomes)), evals=count))
    return res


def kernel_cells(thorough):
    cells = []
    for fn in ("diag", "antidiag", "columns"):
        for shape in K_SHAPES_THOROUGH if thorough else K_SHAPES_QUICK:
            for dtype in ("float64", "complex128"):
                for variant in ("exact", "dust", "atol"):
                    if int(np.prod(shape)) > 12 and (dtype, variant) not in (("float64", "exact"), ("complex128", "dust")):
                        continue  # the big shapes: two of the six dtype x variant combinations
                    cells.append({"fn": fn, "shape": list(shape), "dtype": dtype, "variant": variant})
    return cells


# --------------------------------------------------------------------------- #
#                     T: tensor-level rewrites on one pair                    #
# --------------------------------------------------------------------------- #

T_STRUCTS = {
    "s1": ((("a", "c", "x"), (2, 3, 2)), (("x", "b"), (2, 3))),
    "s1big": ((("a", "x"), (2, 3)), (("x", "b", "c"), (3, 2, 2))),
    "s1one": ((("a", "x"), (2, 1)), (("x", "b"), (1, 3))),
    "multi": ((("a", "x", "y"), (2, 2, 3)), (("y", "b", "x"), (3, 2, 2))),
    "multi1": ((("a", "x", "y"), (2, 1, 2)), (("y", "b", "x"), (2, 2, 1))),
    "none": ((("a", "c"), (2, 2)), (("b",), (3,))),
    "nolix": ((("x",), (2,)), (("x", "b"), (2, 2))),
}


def _pair_value(ta, tb, out, gauges=None, extra=()):
    up = lambda a: np.asarray(a, dtype=np.result_type(np.asarray(a).dtype, np.float64))
    ts = [(up(ta.data), tuple(ta.inds)), (up(tb.data), tuple(tb.inds))] + [(up(a), i) for a, i in extra]
    present = set(ta.inds) | set(tb.inds)
    for ix, g in (gauges or {}).items():
        if ix in present:
            ts.append((np.asarray(g), (ix,)))
    return ref.tn_value(ts, out)


def pair_cell(cell, common):
    import quimb.tensor as qtn
    from quimb.tensor import tensor_core as tc

    fn, struct, dtype = cell["fn"], cell["struct"], cell["dtype"]
    kw = dict(cell["opts"])
    (ia, sa), (ib, sb) = T_STRUCTS[struct]
    ta = qtn.Tensor(fill("generic", sa, dtype, key=("c04T", struct, 0)), ia, tags=["A"])
    tb = qtn.Tensor(fill("generic", sb, dtype, key=("c04T", struct, 1)), ib, tags=["B"])
    shared = [l for l in ia if l in ib]
    out = tuple(l for l in ia + ib if l not in shared)
    sizes = dict(zip(ia + ib, sa + sb))
    gmode = kw.pop("gauges", None)
    gauges = None
    if gmode is not None:
        labs = {"empty": [], "bond": shared, "all": list(dict.fromkeys(ia + ib)), "outer": list(out)}[gmode]
        gauges = {l: fill("positive", (sizes[l],), "float64", key=("c04Tg", l)) for l in labs}
        kw["gauges"] = gauges
    if isinstance(kw.get("bond_ind"), tuple):
        kw["bond_ind"] = set(kw["bond_ind"])
    info = None
    if kw.pop("info", False):
        info = {}
        kw["info"] = info
    if kw.pop("info_exponent", False):
        info = {"exponent": 0.0}
        kw["info"] = info
    tolv, toli = (5e-4, 5e-4) if _single(dtype) else (TOL_VAL, TOL_ISO)
    v0 = _pair_value(ta, tb, out, gauges)
    bond0 = int(np.prod([sizes[l] for l in shared])) if shared else 0
    bi = kw.get("bond_ind")
    # structural root causes visible in the CASE (not in the failure)
    root = "name-for-existing-single-bond" if isinstance(bi, str) and len(shared) == 1 and bi != shared[0] else None
    # (the full option tuple is in the message; the signature keeps the entry point, the gauge mode and the root)
    sig = dict(entry=fn, root=root, gauges=gmode, prec="single" if _single(dtype) else "double")

    def P(kind, msg):
        return table.bad(core.problem("%s(%s, %s, %r): %s" % (fn, struct, dtype, cell["opts"], msg), kind=kind, **sig))

    def colnorms(t, ix):
        a = np.abs(np.asarray(t.data, dtype=np.result_type(t.dtype, np.float64))) ** 2
        return np.einsum(a, list(range(t.ndim)), [t.inds.index(ix)])

    if fn == "tensor_balance_bond":
        x0, y0 = colnorms(ta, shared[0]), colnorms(tb, shared[0])
    try:
        ret = getattr(tc, fn)(ta, tb, **kw)
    except Exception as ex:
        if isinstance(ex, ValueError) and not isinstance(ex, np.linalg.LinAlgError) and struct == "none" and not kw.get("create_bond") and fn in ("tensor_canonize_bond", "tensor_compress_bond"):
            return table.rejected("%s:no-bond:ValueError" % fn)
        if isinstance(ex, NotImplementedError) and kw.get("swap_inds") and (fn == "tensor_compress_bond" or kw.get("absorb") in ("both", "left")):
            return table.rejected("%s:swap_inds:NotImplementedError" % fn)
        return P("exception:" + type(ex).__name__, "raised %s: %s" % (type(ex).__name__, str(ex)[:200]))
    # labels
    now_shared = [l for l in ta.inds if l in tb.inds]
    labs = set(ta.inds) | set(tb.inds)
    if not set(out) <= labs or any(l not in out for l in labs if l not in now_shared):
        return P("labels", "outer labels changed: %r / %r (were %r)" % (ta.inds, tb.inds, out))
    extra = []
    scale = 1.0
    if fn == "tensor_compress_bond" and kw.get("absorb", "both") is None and gauges is None:
        if info is None:
            return table.ok(key=(fn, struct, cell["opts"]), nontrivial=False, outcome=fn + ":absorb-none-unobservable")
        extra.append((np.asarray(info["singular_values"]), tuple(now_shared)))
    if info is not None and "exponent" in info:
        scale = 10.0 ** float(info["exponent"])
    if gauges is not None:
        stale = sorted(k for k in gauges if k not in labs)
        if stale:
            return P("stale-gauge", "gauges dict keeps weights for labels that no longer exist: %r" % stale)
        bad_size = [k for k, g in gauges.items() if np.shape(g) != (ta.ind_size(k) if k in ta.inds else tb.ind_size(k),)]
        if bad_size:
            return P("gauge-size", "gauge sizes do not match their labels: %r" % bad_size)
    v1 = _pair_value(ta, tb, out, gauges, extra) * scale
    err = ref.relerr(v1, v0)
    if not err <= tolv:
        return P("value", "contraction of the pair%s changed: rel err %.3g" % (" (gauges put back)" if gauges is not None else "", err))
    # promised forms
    bond1 = int(np.prod([ta.ind_size(l) for l in now_shared])) if now_shared else 0
    if fn in ("tensor_make_single_bond", "tensor_fuse_squeeze", "tensor_canonize_bond", "tensor_compress_bond") or (fn == "tensor_gauge_simple_bond" and kw.get("fuse_multibonds", True)):
        if len(now_shared) > 1:
            return P("promise:single-bond", "still %d shared labels" % len(now_shared))
    if fn == "tensor_make_single_bond":
        left, bond, right = ret
        if list(left) != [l for l in ta.inds if l not in tb.inds] or list(right) != [l for l in tb.inds if l not in ta.inds] or (bond if bond else None) != (now_shared[0] if now_shared else None):
            return P("promise:returned-groups", "returned %r for tensors %r %r" % (ret, ta.inds, tb.inds))
        bi = cell_bond_ind(cell)
        if isinstance(bi, str) and (len(shared) != 1) and bond != bi and (shared or kw.get("create_bond")):
            return P("promise:bond-name", "bond named %r, asked for %r" % (bond, bi))
    if fn == "tensor_fuse_squeeze" and kw.get("squeeze", True) and now_shared and bond1 == 1:
        return P("promise:squeezed", "size-1 bond left")
    if fn == "tensor_compress_bond" and bond0 and bond1 > bond0:
        return P("promise:bond-size", "bond grew from %d to %d" % (bond0, bond1))
    if fn in ("tensor_canonize_bond", "tensor_compress_bond") and gauges is None and not kw.get("swap_inds"):
        ab = kw.get("absorb", "right" if fn == "tensor_canonize_bond" else "both")
        red = kw.get("reduced", True)
        claim = {"right": ta, "left": tb}.get(ab)
        if fn == "tensor_compress_bond" and ((ab == "right" and red == "right") or (ab == "left" and red == "left")):
            claim = None  # documented: cannot be isometric on that side
        if claim is not None:
            left = [l for l in claim.inds if l not in now_shared]
            d = iso_defect(claim, left)
            if not d <= toli:
                return P("promise:isometry", "absorb=%r: tensor %r not isometric (defect %.3g)" % (ab, claim.inds, d))
    for t in (ta, tb):
        if t.left_inds is not None:
            d = iso_defect(t, t.left_inds)
            if not d <= toli:
                return P("claim", "tensor %r carries left_inds=%r but is not an isometry (defect %.3g)" % (t.inds, t.left_inds, d))
    if fn == "tensor_balance_bond":
        (ix,) = now_shared
        x, y = colnorms(ta, ix), colnorms(tb, ix)
        # the smudge makes the balance approximate: |x'/y' - 1| = sm |x - y| / (y (x + sm))
        sm = kw.get("smudge", 1e-6)
        bound = 2.0 * sm * np.abs(x0 - y0) / (x0 * y0) + (1e-4 if _single(dtype) else 1e-9)
        if np.any(np.abs(x / y - 1.0) > bound):
            return P("promise:balanced", "column norms differ after balancing: %r vs %r (were %r, %r)" % (x, y, x0, y0))
    if fn == "tensor_gauge_simple_bond":
        (ix,) = now_shared if len(now_shared) == 1 else (kw.get("bond_ind") or now_shared[0],)
        g = np.asarray(gauges[ix])
        if np.any(g < -1e-12) or np.any(np.diff(g) > 1e-9 * max(g[0], 1e-300)):
            return P("promise:singular-values", "new bond gauge is not a descending non-negative vector: %r" % g)
        if kw.get("renorm") and abs(np.linalg.norm(g) - 1.0) > 1e-9:
            return P("promise:renorm", "renorm=True but |gauge| = %r" % np.linalg.norm(g))
    return table.ok(key=(fn, struct, dtype, cell["opts"]), nontrivial=bool(shared) or bool(kw.get("create_bond")), outcome="%s:%s:bond%d->%d" % (fn, struct, bond0, bond1))


def cell_bond_ind(cell):
    return dict(cell["opts"]).get("bond_ind")


def pair_cells(thorough):
    cells = []

    def add(fn, struct, **opts):
        dts = ("float64", "complex128")
        if struct in ("s1", "multi") and set(opts) <= {"absorb", "gauges", "reduced", "cutoff", "info", "squeeze"} and opts.get("cutoff", 0.0) == 0.0 and opts.get("gauges") in (None, "bond"):
            dts += ("float32", "complex64")  # single precision on the two main structures, plain options
        for dtype in dts:
            cells.append({"fn": fn, "struct": struct, "dtype": dtype, "opts": tuple(sorted(opts.items(), key=lambda kv: kv[0]))})

    bonded = ["s1", "s1big", "s1one", "multi", "multi1", "nolix"]
    for st in bonded + ["none"]:
        cb = {"create_bond": True} if st == "none" else {}
        for absorb in ("right", "left", "both"):
            for g in (None, "bond", "all", "empty"):
                for method in (None, "svd"):
                    o = dict(cb, absorb=absorb)
                    if g:
                        o["gauges"] = g
                    if method:
                        o["method"] = method
                    add("tensor_canonize_bond", st, **o)
            for bi in ("Q", ("y", "zz")):
                add("tensor_canonize_bond", st, absorb=absorb, bond_ind=bi, **cb)
        if st == "none":
            add("tensor_canonize_bond", st)  # documented ValueError
            add("tensor_compress_bond", st, cutoff=0.0)
        if st in ("s1", "multi"):
            add("tensor_canonize_bond", st, swap_inds="a")
            add("tensor_canonize_bond", st, swap_inds=("a",), absorb="left")
            add("tensor_canonize_bond", st, swap_inds="a", absorb="both")  # documented NotImplementedError
            add("tensor_compress_bond", st, swap_inds="a", cutoff=0.0)  # documented NotImplementedError
        for reduced in (True, False, "left", "right", "lazy"):
            for absorb in ("both", "left", "right", None):
                for g in (None, "bond", "all"):
                    if reduced == "lazy" and st in ("s1one", "nolix", "none"):
                        continue  # iterative SVD of a rank-1 / vector operator: C05's domain
                    o = dict(cb, absorb=absorb, reduced=reduced, cutoff=(1e-12 if reduced in (False, "lazy") else 0.0))
                    if g:
                        o["gauges"] = g
                    if absorb is None and g is None:
                        o["info"] = True
                    add("tensor_compress_bond", st, **o)
        add("tensor_compress_bond", st, cutoff=0.0, max_bond=64, **cb)
        add("tensor_compress_bond", st, cutoff=0.0, bond_ind="Q", **cb)
        for g in (None, "bond", "all"):
            for bi in (None, "Q", ("y", "zz")):
                o = dict(cb)
                if g:
                    o["gauges"] = g
                if bi:
                    o["bond_ind"] = bi
                add("tensor_make_single_bond", st, **o)
            if st != "none":
                for sq in (True, False):
                    o = {"squeeze": sq}
                    if g:
                        o["gauges"] = g
                    add("tensor_fuse_squeeze", st, **o)
        if st == "none":
            add("tensor_make_single_bond", st)
        if st in ("s1", "s1big", "s1one", "nolix"):
            add("tensor_balance_bond", st) if st != "s1big" else None
            add("tensor_balance_bond", st, smudge=1e-3) if st == "s1" else None
        for g in ("empty", "bond", "all", "outer"):
            for o in ({}, {"smudge": 0.0}, {"power": 0.5}, {"renorm": True, "info_exponent": True}, {"renorm": True}, {"reduced": False}, {"reduced": "left"}, {"reduced": "right"}, {"fuse_multibonds": False}, {"bond_ind": "Q"}):
                if o.get("renorm") and not o.get("info_exponent"):
                    continue  # the dropped scale is then not observable
                if o.get("fuse_multibonds") is False and st in ("none",):
                    continue
                if o.get("bond_ind") and st not in ("multi", "multi1", "none"):
                    continue
                add("tensor_gauge_simple_bond", st, gauges=g, **dict(cb, **o))
    return cells


# --------------------------------------------------------------------------- #
#                                   driver                                    #
# --------------------------------------------------------------------------- #


def graph_specs(nmax, outers, dimss, dtypes, expos):
    from ..alphabet import connected_graphs

    specs = []
    gid = 0
    for n in range(1, nmax + 1):
        for edges in connected_graphs(n) if n > 1 else [[]]:
            gid += 1
            for outer in outers:
                if n == 1 and outer == "first":
                    continue
                for dims in dimss:
                    for dtype in dtypes:
                        for expo in expos:
                            specs.append({"net": "graph", "gid": gid, "n": n, "edges": [list(e) for e in edges], "outer": outer, "dims": dims, "dtype": dtype, "expo": expo})
    return specs


def _label(spec):
    if spec["net"] == "graph":
        return "g%d[n=%d,e=%d,%s,%s,%s,e%s]" % (spec["gid"], spec["n"], len(spec["edges"]), spec["outer"], spec["dims"], spec["dtype"][0], spec["expo"])
    return "%s[%s,e%s]" % (spec["net"], spec["dtype"][0], spec["expo"])


def run(ctx):
    thorough = ctx.tier == "thorough"
    only = ctx.opts.get("only")
    ctx.rule = (
        "S: BFS over histories of documented representation-only rewrites (one event = method x target tags x one option deviation x spelling) from each initial "
        "network; a state is distinct by its canonical key (tids, renamed labels, shapes, tags, left_inds, array digests, exponent, held gauges) and non-trivial when at "
        "least two tensors share a label; oracle after EVERY transition = numpy einsum value over the same outer labels x 10**exponent (held simple-update gauges put back), "
        "outer labels unchanged, every library-set left_inds isometric, the event's promised form.  T: structure x dtype x option table for the six tensor-level pair rewrites.  "
        "K: every 0/1 mask of each listed shape x dtype x {exact, dust, explicit atol} for the three structure kernels against brute force."
    )
    ctx.assumptions += [
        "one data fill per tensor (VERIF_SEED selects it); structured kinds diag/antidiag/onehot-column/rank1/identity/COPY each appear in one recipe",
        "events are offered only inside their documented domain: pair/region/global gauging only where every shared label is an ordinary bond (no hyper label, no output label on two tensors) "
        "and the tensors are addressable by a unique tag; simple-update/BP gauging (which divides by bond weights) only when every bond matricisation has condition number < 1e6; "
        "compress_all_tree on trees, compress_all_1d on paths; while simple-update gauges are held outside the network only gauge-aware events and pure rescalings",
        "a bare squeeze() drops size-1 outer labels too (numpy semantics, also what full_simplify relies on via exclude=); the value is then compared over the remaining labels",
        "a left_inds given by the user is a grouping hint; every left_inds set by the library during the history is an isometry claim",
        "compression events use max_bond=None (or 64 >= every bond) and cutoff=0.0; the single-SVD modes (reduced=False/'lazy') use cutoff=1e-12 because exact zeros are otherwise kept and the bond grows by construction",
        "identical canonical keys have identical futures (the key holds everything the rewrites read)",
    ]
    if only in (None, "K"):
        cells = kernel_cells(thorough)
        table.run(ctx, "kernel_cell", cells, name="K:kernel x shape x dtype x variant (all masks)", chunk=1)
        ctx.subproducts.append("K: find_diag_axes/find_antidiag_axes/find_columns x %d shapes x all 0/1 masks complete (small shapes x 2 dtypes x 3 variants; shapes with > 12 entries x 2 of the 6 combinations)" % len(K_SHAPES_THOROUGH if thorough else K_SHAPES_QUICK))
    if only in (None, "T"):
        cells = pair_cells(thorough)
        table.run(ctx, "pair_cell", cells, name="T:pair rewrite x structure x dtype x options")
        ctx.subproducts.append("T: 6 tensor-level pair rewrites x 7 structures x 2 dtypes x listed option grid complete (%d cells)" % len(cells))
    if only not in (None, "S"):
        return
    plan = []  # (spec, depth, max_dev)
    sel = ctx.opts.get("net")
    d_override = ctx.opts.get("depth")
    if thorough:
        rec2 = [(r, dt, ex) for r in RECIPE_NAMES for dt, ex in (("float64", 1.5), ("complex128", 0.0))]
        rec3 = ["chain3", "tri", "chain-diag", "loop-diag", "copy", "hyper-diag", "outbond-diag", "multibond", "size1", "oversized", "multibond-diag", "outer-structured"]
        for r, dt, ex in rec2:
            plan.append(({"net": r, "dtype": dt, "expo": ex, "rich": 2 if r in ("loop-diag", "hyper-diag", "copy") and dt == "float64" else 1}, 2, 1))
        for r in rec3:
            plan.append(({"net": r, "dtype": "float64", "expo": 1.5, "rich": 0}, 3, 0))
        for i, r in enumerate(RECIPE_NAMES):
            plan.append(({"net": r, "dtype": "float32", "expo": (0.0, 1.5)[i % 2], "rich": 1}, 1, 1))
            plan.append(({"net": r, "dtype": "complex64", "expo": (1.5, 0.0)[i % 2], "rich": 1}, 1, 1))
        gs = graph_specs(4, ("all", "first", "none"), ("all2", "mixed"), ("float64", "complex128"), (0.0, 1.5))
        for s in gs:
            plan.append((dict(s, rich=1), 1, 1))
        for s in graph_specs(4, ("all",), ("mixed",), ("complex128",), (1.5,)):
            plan.append((dict(s, rich=1), 2, 1))
    else:
        for r in RECIPE_NAMES:
            plan.append(({"net": r, "dtype": "float64", "expo": 1.5, "rich": 1}, 1, 1))
            plan.append(({"net": r, "dtype": "complex128", "expo": 0.0, "rich": 1}, 1, 1))
        for r in ("chain3", "tri", "chain-diag", "loop-diag", "copy", "hyper-diag", "outbond-diag", "multibond", "size1", "oversized", "chain-column", "hyper3-out", "multibond-diag", "outer-structured"):
            plan.append(({"net": r, "dtype": "float64", "expo": 1.5, "rich": 0}, 2, 0))
        for s in graph_specs(4, ("all",), ("all2", "mixed"), ("complex128",), (1.5,)):
            plan.append((dict(s, rich=1), 1, 1))
        for s in graph_specs(3, ("first", "none"), ("mixed",), ("float64",), (0.0,)):
            plan.append((dict(s, rich=1), 1, 1))
        for i, r in enumerate(("chain3", "tri", "multibond", "hyper-diag", "chain-diag", "copy")):
            plan.append(({"net": r, "dtype": "float32", "expo": (0.0, 1.5)[i % 2], "rich": 1}, 1, 1))
            plan.append(({"net": r, "dtype": "complex64", "expo": (1.5, 0.0)[i % 2], "rich": 1}, 1, 1))
        plan.append(({"net": "chain-diag", "dtype": "float64", "expo": 1.5, "rich": 1}, 2, 1))
        plan.append(({"net": "hyper-diag", "dtype": "float64", "expo": 1.5, "rich": 1}, 2, 1))
        plan.append(({"net": "multibond", "dtype": "complex128", "expo": 0.0, "rich": 1}, 2, 1))
    ctx.bounds = {"plans": len(plan), "max_depth": max(p[1] for p in plan), "tier": ctx.tier}
    todo = []
    for spec, depth, dev in plan:
        if sel and spec["net"] != sel and _label(spec).split("[")[0] != sel:
            continue
        if d_override:
            depth = int(d_override)
        if "dev" in ctx.opts:
            dev = int(ctx.opts["dev"])
        if "rich" in ctx.opts:
            spec = dict(spec, rich=int(ctx.opts["rich"]))
        todo.append((spec, depth, dev, "%s/d%d/dev%d/r%d" % (_label(spec), depth, dev, spec.get("rich", 1))))
    done = explore_many(ctx, todo)
    for (depth, dev), n in sorted(done.items()):
        ctx.subproducts.append("S: %d initial networks explored to depth %d with at most %d option deviation(s) per history, full menu at every state" % (n, depth, dev))


def expand_item(item, common):
    spec, hist, dev, max_dev = item
    return seq.expand((spec, hist, dev), {"mod": __name__, "max_dev": max_dev})


NEW_SIG_CAP = 16
_KNOWN = []
_NEWSIGS = set()


def record(ctx, prob, case):
    """ctx.violation, but at most NEW_SIG_CAP distinct NEW signatures per run
    are kept (each costs a three-fold determinism replay); known findings are
    always recorded.  Anything dropped makes the run non-exhaustive."""
    if not _KNOWN:
        _KNOWN.append(core.load_known(ctx.prop_id))
    k = core.sig_key(prob["sig"])
    if core.match_known(prob["sig"], _KNOWN[0]) is None and k not in _NEWSIGS:
        if len(_NEWSIGS) >= NEW_SIG_CAP:
            ctx.counters["violations_beyond_signature_cap"] += 1
            ctx.cap("more than %d distinct new violation signatures: further ones counted, not replayed" % NEW_SIG_CAP)
            return
        _NEWSIGS.add(k)
    ctx.violation(prob, case)


def explore_many(ctx, plans):
    """seq.explore for MANY initial worlds at once (level-synchronous BFS over
    all of them, so that the depth-1 plans are spread over the workers too).
    Same merging rules as seq.explore: results are merged in frontier order,
    violating states are recorded and not expanded."""
    import collections

    done = collections.Counter()
    seen, frontier, nstates = {}, [], {}
    for pi, (spec, depth, dev, label) in enumerate(plans):
        case = seq.get_case(__name__, spec)
        w0 = case.build()
        probs0 = case.check(w0, ("init",), None, None)
        for p in probs0:
            record(ctx, p, {"engine": "seq", "spec": spec, "history": []})
        if probs0:
            ctx.states += 1
            ctx.cap("initial state of %s violates the invariant: not expanded" % label)
            continue
        seen[pi] = {case.canon(w0)}
        frontier.append((pi, [], 0))
        done[(depth, dev)] += 1
    d = 0
    while frontier:
        d += 1
        frontier = [(pi, h, dev) for pi, h, dev in frontier if d <= plans[pi][1]]
        if not frontier:
            break
        if ctx.out_of_time():
            ctx.cap("time budget hit before depth %d (%d states pending)" % (d, len(frontier)))
            break
        items = [(plans[pi][0], h, dev, plans[pi][2]) for pi, h, dev in frontier]
        res = ctx.pmap("expand_item", items, chunk=max(1, min(8, len(items) // (ctx.workers * 4) or 1)))
        nxt = []
        for (pi, h, hdev), outs in zip(frontier, res):
            spec, depth, max_dev, label = plans[pi]
            if isinstance(outs, dict) and outs.get("__crash__"):
                record(ctx, core.problem("worker process died while expanding state %r of %s" % (h, label), root="worker-crash", label=label), {"engine": "seq-expand", "spec": spec, "history": list(h)})
                continue
            for e, dev, status, key, probs, outcome, nontriv in outs:
                ctx.transitions += 1
                ctx.evaluations += 1
                ctx.traces += 1
                hist = list(h) + [e]
                if status == "reject":
                    ctx.reject(key)
                if probs:
                    for p in probs:
                        record(ctx, p, {"engine": "seq", "spec": spec, "history": hist})
                    continue
                if status != "ok":
                    continue
                ctx.outcome(outcome)
                parts = str(outcome).split(":")
                ctx.counters["S.%s.%s" % (parts[0].replace("(plain)", ""), parts[1] if len(parts) > 1 else "?")] += 1
                if key not in seen[pi]:
                    seen[pi].add(key)
                    if nontriv:
                        ctx.nontrivial_keys.add(core.digest((core.sig_key(spec), key)))
                    nxt.append((pi, hist, dev))
                    if (label, d) not in ctx._sampled and len(ctx.samples) < 8:
                        ctx._sampled.add((label, d))
                        ctx.samples.append(core.jsonable({"spec": spec, "history": hist}))
        frontier = nxt
        ctx.counters["S.depth_reached"] = d
    for pi, sn in seen.items():
        ctx.states += len(sn)
    ctx.counters["S.initial_networks"] = len(seen)
    ctx.counters["S.states"] = sum(len(v) for v in seen.values())
    return done


def collections_counter():
    import collections

    return collections.Counter()


def replay(case):
    import sys

    if case.get("engine") == "table":
        cell = dict(core.tuplify(case["cell"]))
        if case["fn"] == "kernel_cell" and case.get("sub") is not None:
            cell["only"] = case["sub"]
            rr = kernel_cell(cell, None)
            return [p for r in rr if r["st"] == "bad" for p in r["probs"]]
        return table.replay(sys.modules[__name__], case)
    return seq.replay(__name__, case)

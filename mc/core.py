"""Shared runner machinery: context, violations, known findings, evidence,
process pool.  See DESIGN.md section 2.

A property module ``mc.props.cNN`` exposes

    run(ctx)              -- enumerate, evaluate, call ctx.* to record
    replay(case) -> list  -- re-evaluate ONE recorded case (history or table
                             cell) on fresh objects; returns a list of problem
                             dicts ({'sig': {...}, 'msg': str}) - empty when
                             the property holds on that case

and module-level worker functions that ``ctx.pmap`` calls by name in worker
processes (they must be importable and take/return picklable values).
"""

from __future__ import annotations

import collections
import concurrent.futures as cf
import hashlib
import importlib
import json
import multiprocessing as mp
import os
import subprocess
import sys
import time
import traceback

VERIF = os.path.dirname(os.path.dirname(os.path.abspath(__file__)))
LEVEL = "model_checking"


# --------------------------------------------------------------------------- #
#                               small utilities                               #
# --------------------------------------------------------------------------- #


def jsonable(x):
    """Best-effort conversion of harness values into plain JSON values."""
    import numpy as np

    if isinstance(x, dict):
        return {str(k): jsonable(v) for k, v in x.items()}
    if isinstance(x, (list, tuple)):
        return [jsonable(v) for v in x]
    if isinstance(x, (set, frozenset)):
        return sorted((jsonable(v) for v in x), key=repr)
    if isinstance(x, (str, int, bool)) or x is None:
        return x
    if isinstance(x, float):
        return x if x == x and abs(x) != float("inf") else repr(x)
    if isinstance(x, complex):
        return {"re": x.real, "im": x.imag}
    if isinstance(x, np.generic):
        return jsonable(x.item())
    if isinstance(x, np.ndarray):
        if x.size <= 64:
            return jsonable(x.tolist())
        return {"ndarray": list(x.shape), "sha1": hashlib.sha1(x.tobytes()).hexdigest()}
    if isinstance(x, slice):
        return {"slice": [x.start, x.stop, x.step]}
    if isinstance(x, type):
        return x.__name__
    return repr(x)


def tuplify(x):
    """JSON lists -> tuples (recursively), so replayed events equal live ones."""
    if isinstance(x, list):
        return tuple(tuplify(v) for v in x)
    if isinstance(x, dict):
        return {k: tuplify(v) for k, v in x.items()}
    return x


def digest(obj) -> str:
    return hashlib.sha1(repr(obj).encode()).hexdigest()


def sig_key(sig: dict) -> str:
    return json.dumps(jsonable(sig), sort_keys=True)


def problem(msg, **sig):
    """Create a problem record: a structured root-cause signature + text."""
    return {"sig": dict(sig), "msg": str(msg)}


# --------------------------------------------------------------------------- #
#                               worker plumbing                               #
# --------------------------------------------------------------------------- #

_WORKER_STATE = {}


def _worker_init(env):
    os.environ.update(env)
    import warnings

    warnings.filterwarnings("ignore")
    import faulthandler

    faulthandler.enable()


def _worker_call(modname, fname, chunk, common):
    mod = importlib.import_module(modname)
    fn = getattr(mod, fname)
    out = []
    for item in chunk:
        try:
            out.append(fn(item, common))
        except BaseException as ex:  # harness error inside a worker
            out.append(
                {
                    "__harness_error__": "".join(
                        traceback.format_exception(type(ex), ex, ex.__traceback__)
                    )[-4000:],
                    "item": jsonable(item),
                }
            )
    return out


class HarnessError(RuntimeError):
    pass


# --------------------------------------------------------------------------- #
#                                   context                                   #
# --------------------------------------------------------------------------- #


class Ctx:
    """Everything a property module needs to record what it explored."""

    def __init__(self, prop_id, tier="quick", seed=0, workers=None, budget_s=None):
        self.prop_id = prop_id
        self.tier = tier
        self.seed = int(seed)
        self.workers = workers or min(16, os.cpu_count() or 1)
        self.t0 = time.time()
        self.budget_s = budget_s
        self.evaluations = 0
        self.states = 0
        self.transitions = 0
        self.traces = 0
        self.nontrivial_keys = set()
        self.rejections = collections.Counter()
        self.outcomes = collections.Counter()
        self.counters = collections.Counter()
        self.samples = []
        self._sampled = set()
        self.notes = {}
        self.assumptions = []
        self.rule = ""
        self.exhaustive = True
        self.caps_hit = []
        self.subproducts = []
        self.bounds = {}
        # violations: sig_key -> record (first = shortest because explorers go
        # simplest-first); count of all occurrences kept per signature
        self.viol = {}
        self.viol_count = collections.Counter()
        self._pool = None
        self.module = None

    # ---- time ---------------------------------------------------------- #
    def elapsed(self):
        return time.time() - self.t0

    def out_of_time(self):
        return self.budget_s is not None and self.elapsed() > self.budget_s

    def cap(self, what):
        """Record that a cap was hit: the run is then not claimed exhaustive."""
        self.exhaustive = False
        if what not in self.caps_hit:
            self.caps_hit.append(what)

    # ---- recording ----------------------------------------------------- #
    def sample(self, x, every=1):
        if len(self.samples) < 6:
            self.samples.append(jsonable(x))

    def evaluated(self, key=None, nontrivial=True, n=1):
        self.evaluations += n
        if key is not None and nontrivial:
            self.nontrivial_keys.add(key if isinstance(key, str) else digest(key))

    def reject(self, what):
        self.rejections[str(what)] += 1

    def outcome(self, what):
        self.outcomes[str(what)] += 1

    def violation(self, prob, case):
        """prob: problem() dict; case: JSON-able replay case for module.replay."""
        k = sig_key(prob["sig"])
        self.viol_count[k] += 1
        if k not in self.viol:
            self.viol[k] = {"sig": jsonable(prob["sig"]), "msg": prob["msg"], "case": jsonable(case)}

    # ---- parallel map -------------------------------------------------- #
    def pool(self):
        if self._pool is None:
            env = {k: v for k, v in os.environ.items() if k.startswith(("PYTHON", "NUMBA", "OMP", "MKL", "OPENBLAS", "QUIMB", "VERIF"))}
            self._pool = cf.ProcessPoolExecutor(
                max_workers=self.workers,
                mp_context=mp.get_context("forkserver"),
                initializer=_worker_init,
                initargs=(env,),
            )
        return self._pool

    def pmap(self, fname, items, common=None, chunk=None, modname=None):
        """Ordered parallel map of module-level function ``fname(item, common)``
        of the property module over ``items``.  Results come back in input
        order so that every merge done by the caller is deterministic.

        If a worker process dies (a segfault inside compiled code is a possible
        consequence of a broken kernel) the affected items are re-run one by
        one in fresh single-use processes; an item that kills its process again
        yields ``{"__crash__": True}`` instead of a result, which the engines
        turn into a violation."""
        items = list(items)
        if not items:
            return []
        modname = modname or self.module.__name__
        if self.workers <= 1 or len(items) == 1:
            res = self._isolated(modname, fname, items, common) if self.isolate else _worker_call(modname, fname, items, common)
        else:
            if chunk is None:
                chunk = max(1, min(64, len(items) // (self.workers * 4) or 1))
            chunks = [items[i : i + chunk] for i in range(0, len(items), chunk)]
            futs = [self.pool().submit(_worker_call, modname, fname, c, common) for c in chunks]
            res = []
            broken = False
            for f, c in zip(futs, chunks):
                try:
                    if broken:
                        raise cf.process.BrokenProcessPool()
                    res.extend(f.result())
                except cf.process.BrokenProcessPool:
                    if not broken:
                        broken = True
                        self.close()
                    if f.done() and not f.cancelled() and f.exception() is None:
                        res.extend(f.result())
                    else:
                        res.extend(self._isolated(modname, fname, c, common))
        for r in res:
            if isinstance(r, dict) and "__harness_error__" in r:
                raise HarnessError("worker failed on %r:\n%s" % (r["item"], r["__harness_error__"]))
        return res

    isolate = False

    def _isolated(self, modname, fname, items, common):
        out = []
        env = {k: v for k, v in os.environ.items() if k.startswith(("PYTHON", "NUMBA", "OMP", "MKL", "OPENBLAS", "QUIMB", "VERIF"))}
        for it in items:
            ex = cf.ProcessPoolExecutor(max_workers=1, mp_context=mp.get_context("forkserver"), initializer=_worker_init, initargs=(env,))
            try:
                out.extend(ex.submit(_worker_call, modname, fname, [it], common).result())
            except cf.process.BrokenProcessPool:
                self.counters["worker_crashes"] += 1
                out.append({"__crash__": True})
            finally:
                ex.shutdown(wait=False, cancel_futures=True)
        return out

    def close(self):
        if self._pool is not None:
            self._pool.shutdown(wait=True, cancel_futures=True)
            self._pool = None


# --------------------------------------------------------------------------- #
#                       known findings / replays / finish                     #
# --------------------------------------------------------------------------- #


def load_known(prop_id):
    path = os.path.join(VERIF, "known_findings.json")
    if not os.path.exists(path):
        return []
    with open(path) as f:
        d = json.load(f)
    out = [e for e in d.get("findings", []) if e.get("property") == prop_id]
    # per-property fragments (same format), merged into the main file by
    # tools/merge_known.py before a release of /verif
    frag = os.path.join(VERIF, "known_findings.d", prop_id + ".json")
    if os.path.exists(frag):
        with open(frag) as f:
            out += [e for e in json.load(f).get("findings", []) if e.get("property") == prop_id]
    return out


def match_known(sig, known):
    """A finding matches when every key of its 'match' equals (or, for a list,
    contains) the violation signature's value for that key."""
    for e in known:
        ok = True
        for k, v in e["match"].items():
            sv = sig.get(k, None)
            if isinstance(v, list):
                if sv not in v:
                    ok = False
                    break
            elif sv != v:
                ok = False
                break
        if ok:
            return e
    return None


def write_replay(prop_id, rec, name=None):
    d = os.path.join(VERIF, "replays", prop_id)
    os.makedirs(d, exist_ok=True)
    body = {
        "property": prop_id,
        "signature": rec["sig"],
        "message": rec["msg"],
        "case": rec["case"],
        "replay_cmd": "./check %s --replay <this file>" % prop_id,
    }
    name = name or (digest(json.dumps(body["signature"], sort_keys=True))[:16] + ".json")
    path = os.path.join(d, name)
    with open(path, "w") as f:
        json.dump(body, f, indent=1, sort_keys=True)
    return path


def _probs_fingerprint(probs):
    return sorted(sig_key(p["sig"]) for p in probs)


def determinism_gate(ctx, rec, path):
    """Replay a violating case twice in-process on fresh worlds and once in a
    fresh interpreter; all three must report the same problem signatures and
    they must include the recorded one."""
    mod = ctx.module
    want = sig_key(rec["sig"])
    fps = []
    crash = rec["sig"].get("root") == "worker-crash"
    for _ in range(2):
        if crash:
            continue  # replaying a crashing case in-process would kill the runner
        probs = mod.replay(tuplify(rec["case"]))
        fps.append(_probs_fingerprint(probs))
    for _ in range(2 if crash else 1):
        out = subprocess.run(
            [os.path.join(VERIF, "check"), ctx.prop_id, "--replay", path, "--json"],
            capture_output=True,
            text=True,
            env=dict(os.environ, VERIF_SEED=str(ctx.seed)),
        )
        try:
            line = [l for l in out.stdout.splitlines() if l.startswith("REPLAY-JSON ")][-1]
            fps.append(sorted(json.loads(line[len("REPLAY-JSON ") :])))
        except Exception:
            if crash and out.returncode != 0:
                fps.append([want])  # the fresh interpreter died again: reproduced
            else:
                fps.append(["<fresh interpreter replay failed: %s>" % (out.stderr[-500:],)])
    same = all(fp == fps[0] for fp in fps)
    return same and want in fps[0], fps


def finish(ctx):
    """Write evidence, report violations/known findings, return exit code."""
    known = load_known(ctx.prop_id)
    new, old, nondet = [], [], []
    for k, rec in ctx.viol.items():
        e = match_known(rec["sig"], known)
        if e is not None:
            old.append((e, rec, ctx.viol_count[k]))
        else:
            new.append((rec, ctx.viol_count[k]))
    # determinism gate only for the violations we are about to raise
    reported = []
    for rec, n in new:
        path = write_replay(ctx.prop_id, rec)
        ok, fps = determinism_gate(ctx, rec, path)
        if not ok:
            nondet.append((rec, fps))
        else:
            reported.append((rec, n, path))
    seen_known = collections.OrderedDict()
    for e, rec, n in old:
        seen_known.setdefault(e["id"], [e, 0, rec])
        seen_known[e["id"]][1] += n
    for fid, (e, n, rec) in seen_known.items():
        write_replay(ctx.prop_id, rec, name="known_%s.json" % fid)
        print("KNOWN-FINDING: property=%s %s [%s; %d occurrence(s) this run; e.g. %s]" % (ctx.prop_id, e["what"], fid, n, rec["msg"][:160]))
    cov = {
        "evaluations": int(ctx.evaluations),
        "distinct_nontrivial": len(ctx.nontrivial_keys),
        "rule": ctx.rule,
        "samples": ctx.samples or [],
        "states": int(ctx.states),
        "transitions": int(ctx.transitions),
        "traces_validated_against_impl": int(ctx.traces),
        "exhaustive": bool(ctx.exhaustive),
        "caps_hit": ctx.caps_hit,
        "bounds": jsonable(ctx.bounds),
        "complete_subproducts": ctx.subproducts,
        "rejections": dict(sorted(ctx.rejections.items())[:200]),
        "rejections_total": int(sum(ctx.rejections.values())),
        "distinct_outcomes": len(ctx.outcomes),
        "outcomes": dict(ctx.outcomes.most_common(40)),
        "counters": dict(sorted(ctx.counters.items())),
        "known_findings_seen": {fid: n for fid, (e, n, rec) in seen_known.items()},
        "new_violation_signatures": [r[0]["sig"] for r in reported],
        "explanation": "explicit enumeration of the bounded space named in 'rule'/'bounds' on the real quimb code; every explored trace is an implementation trace (no separate model)",
        "notes": jsonable(ctx.notes),
    }
    ev = {
        "property_id": ctx.prop_id,
        "tier": ctx.tier,
        "seed": ctx.seed,
        "level": LEVEL,
        "coverage": cov,
        "assumptions": ctx.assumptions,
        "wall_s": round(ctx.elapsed(), 2),
        "violations": len(reported),
    }
    os.makedirs(os.path.join(VERIF, "evidence"), exist_ok=True)
    evpath = os.path.join(VERIF, "evidence", ctx.prop_id + ".json")
    with open(evpath, "w") as f:
        json.dump(ev, f, indent=1, sort_keys=True)
    try:
        import jsonschema

        with open("/root/.vp/EVIDENCE.schema.json") as f:
            jsonschema.validate(ev, json.load(f))
    except ImportError:
        pass
    except FileNotFoundError:
        pass
    print(
        "%s tier=%s seed=%d: evaluations=%d distinct_nontrivial=%d states=%d transitions=%d traces=%d rejections=%d outcomes=%d exhaustive=%s wall=%.1fs"
        % (ctx.prop_id, ctx.tier, ctx.seed, ctx.evaluations, len(ctx.nontrivial_keys), ctx.states, ctx.transitions, ctx.traces, sum(ctx.rejections.values()), len(ctx.outcomes), ctx.exhaustive, ctx.elapsed())
    )
    rc = 0
    if reported:
        for rec, n, path in reported:
            print("  violation x%d: %s :: %s" % (n, sig_key(rec["sig"]), rec["msg"][:300]))
            print("VIOLATION property=%s replay=%s" % (ctx.prop_id, path))
        rc = 1
    if nondet:
        for rec, fps in nondet:
            print("HARNESS-NONDETERMINISM property=%s sig=%s msg=%s replays=%s" % (ctx.prop_id, sig_key(rec["sig"]), rec["msg"][:200], fps))
        rc = rc or 2
    return rc

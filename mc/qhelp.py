"""Helpers shared by property modules that touch quimb objects (canonical
keys, uuid renaming, fresh scans).  Harness side only."""

from __future__ import annotations

import collections
import hashlib
import re

import numpy as np

UUID_RE = re.compile(r"_[0-9a-f]{6}[A-Za-z]{5,}")


class Renamer:
    """Rename rand_uuid-style names by order of first appearance, so that two
    runs (or two processes) give identical canonical keys."""

    def __init__(self):
        self.map = {}

    def __call__(self, name):
        if not isinstance(name, str):
            return name

        def sub(m):
            s = m.group(0)
            if s not in self.map:
                self.map[s] = "_U%d" % len(self.map)
            return self.map[s]

        return UUID_RE.sub(sub, name)


def arr_digest(x, decimals=9):
    x = np.asarray(x)
    if x.dtype.kind in "fc":
        x = np.round(x, decimals) + 0.0  # kill negative zeros
    return hashlib.sha1(repr(x.shape).encode() + str(x.dtype).encode() + np.ascontiguousarray(x).tobytes()).hexdigest()[:16]


def scan_network(tn):
    """Fresh scan of a TensorNetwork's tensors -> (ind->set(tid), tag->set(tid),
    label multiplicity counter)."""
    cnt = collections.Counter()
    im = collections.defaultdict(set)
    tm = collections.defaultdict(set)
    for tid, t in tn.tensor_map.items():
        for ix in t.inds:
            cnt[ix] += 1
            im[ix].add(tid)
        for tg in t.tags:
            tm[tg].add(tid)
    return dict(im), dict(tm), cnt


def dense_of(tn, inds):
    """Dense array of a network / tensor over ``inds`` in the given order,
    including its exponent.  Uses to_dense with one group per label."""
    import quimb.tensor as qtn

    if isinstance(tn, qtn.Tensor):
        return np.asarray(tn.transpose(*inds).data)
    if not inds:
        x = tn.contract(all, output_inds=()) if tn.num_tensors else 1.0
        return np.asarray(x)
    t = tn.contract(all, output_inds=tuple(inds), preserve_tensor=True)
    return np.asarray(t.transpose(*inds).data)

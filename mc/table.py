"""TableExplorer: exhaustive configuration x structure products (DESIGN 2.2).

The property module provides a deterministic list of JSON-able *cells* and a
module-level worker ``fn(cell, common)`` that evaluates the real entry point
on that cell and returns one result (or a list of results, when one cell
fans out into several evaluations).  A result is made with ``ok`` /
``rejected`` / ``bad`` below.  Every cell of the list is run - nothing is
sampled; ``VERIF_SEED`` only rotates the order.
"""

from __future__ import annotations

from . import core


def ok(key=None, nontrivial=True, outcome=None, evals=1, sub=None):
    return {"st": "ok", "key": key, "nt": bool(nontrivial), "out": outcome, "n": evals, "sub": sub}


def rejected(what, sub=None):
    return {"st": "rej", "what": str(what), "sub": sub}


def bad(probs, sub=None):
    if isinstance(probs, dict):
        probs = [probs]
    return {"st": "bad", "probs": probs, "sub": sub}


def rotate(cells, seed):
    cells = list(cells)
    if not cells:
        return cells
    k = (seed * 7919) % len(cells)
    return cells[k:] + cells[:k]


def run(ctx, fname, cells, common=None, chunk=None, name=None, case_of=None):
    """Evaluate every cell; merge results deterministically in cell order.

    ``case_of(cell, result)`` builds the replay case stored with a violation
    (default: {'engine': 'table', 'fn': fname, 'cell': cell, 'sub': sub})."""
    cells = rotate(cells, ctx.seed)
    n_ok = n_rej = n_bad = 0
    B = max(ctx.workers * 64, 1024)
    done = 0
    for start in range(0, len(cells), B):
        if ctx.out_of_time():
            ctx.cap("time budget hit in table %s after %d of %d cells" % (name or fname, done, len(cells)))
            break
        batch = cells[start : start + B]
        res = ctx.pmap(fname, batch, common=common, chunk=chunk)
        for cell, rr in zip(batch, res):
            if isinstance(rr, dict) and rr.get("__crash__"):
                rr = [bad(core.problem("worker process died (segfault/abort in compiled code?) while evaluating %s cell %r" % (name or fname, cell), root="worker-crash", fn=fname))]
            if isinstance(rr, dict):
                rr = [rr]
            ctx.states += 1
            for r in rr:
                ctx.transitions += 1
                ctx.traces += 1
                if r["st"] == "ok":
                    n_ok += 1
                    ctx.evaluations += r.get("n", 1)
                    if r.get("key") is not None and r.get("nt"):
                        ctx.nontrivial_keys.add(core.digest((name or fname, r["key"])))
                    if r.get("out") is not None:
                        ctx.outcome(r["out"])
                elif r["st"] == "rej":
                    n_rej += 1
                    ctx.evaluations += 1
                    ctx.reject(r["what"])
                else:
                    n_bad += 1
                    ctx.evaluations += 1
                    for p in r["probs"]:
                        case = case_of(cell, r) if case_of else {"engine": "table", "fn": fname, "cell": cell, "sub": r.get("sub"), "common": common}
                        ctx.violation(p, case)
        done += len(batch)
        if len(ctx.samples) < 4 and batch:
            ctx.sample({"table": name or fname, "cell": batch[0]})
    ctx.counters["table.cells[%s]" % (name or fname)] = done
    ctx.counters["table.ok[%s]" % (name or fname)] = n_ok
    ctx.counters["table.rejected[%s]" % (name or fname)] = n_rej
    ctx.counters["table.violating[%s]" % (name or fname)] = n_bad
    return n_ok, n_rej, n_bad


def replay(mod, case):
    """Re-evaluate one recorded table cell with the module's worker."""
    fn = getattr(mod, case["fn"])
    rr = fn(core.tuplify(case["cell"]), core.tuplify(case.get("common")))
    if isinstance(rr, dict):
        rr = [rr]
    probs = []
    for r in rr:
        if r["st"] == "bad":
            if case.get("sub") is None or r.get("sub") == case.get("sub") or core.jsonable(r.get("sub")) == core.jsonable(case.get("sub")):
                probs.extend(r["probs"])
    return probs

"""Reference models: plain numpy, no quimb imports (DESIGN 2.5).  Boring on
purpose."""

from __future__ import annotations

import itertools

import numpy as np

# --------------------------------------------------------------------------- #
#                         tensor network denotation                           #
# --------------------------------------------------------------------------- #


def tn_value(tensors, output, exponent=0.0):
    """tensors: list of (ndarray, labels).  Sum over every label not in
    ``output`` (hyper labels are natural in einsum); result axes ordered as
    ``output``; times 10**exponent."""
    sym = {}
    for _, labels in tensors:
        for l in labels:
            sym.setdefault(l, len(sym))
    for l in output:
        if l not in sym:
            raise KeyError(l)
    args = []
    for a, labels in tensors:
        args.append(np.asarray(a))
        args.append([sym[l] for l in labels])
    args.append([sym[l] for l in output])
    val = np.einsum(*args, optimize=False)
    return val * 10.0 ** float(exponent)


def outer_labels(tensors):
    """labels appearing exactly once overall (quimb's default outputs),
    in order of first appearance."""
    cnt = {}
    for _, labels in tensors:
        for l in labels:
            cnt[l] = cnt.get(l, 0) + 1
    return tuple(l for l, c in cnt.items() if c == 1)


def close(x, y, rtol=1e-9, atol=0.0):
    x = np.asarray(x)
    y = np.asarray(y)
    if x.shape != y.shape:
        return False
    if x.size == 0:
        return True
    if not (np.all(np.isfinite(x)) and np.all(np.isfinite(y))):
        return False
    scale = max(float(np.max(np.abs(y))), float(np.max(np.abs(x))), 1e-300)
    return float(np.max(np.abs(x - y))) <= rtol * scale + atol


def relerr(x, y):
    x = np.asarray(x)
    y = np.asarray(y)
    if x.shape != y.shape:
        return float("inf")
    if x.size == 0:
        return 0.0
    scale = max(float(np.max(np.abs(y))), float(np.max(np.abs(x))), 1e-300)
    d = np.abs(x - y)
    if not np.all(np.isfinite(d)):
        return float("inf")
    return float(np.max(d)) / scale


def rtol_for(dtype, double=1e-9, single=5e-4):
    return single if np.dtype(dtype).itemsize // (2 if np.dtype(dtype).kind == "c" else 1) == 4 else double


# --------------------------------------------------------------------------- #
#                            embedding / kron / ptr                           #
# --------------------------------------------------------------------------- #


def kron(*ops):
    out = np.eye(1)
    for o in ops:
        out = np.kron(out, o)
    return out


def embed(op, dims, where):
    """Operator ``op`` (matrix on prod(dims[w] for w in where), factors in the
    order given by ``where``) embedded into the full space with identities."""
    dims = list(dims)
    n = len(dims)
    where = list(where)
    dw = [dims[w] for w in where]
    k = len(where)
    op = np.asarray(op).reshape(dw + dw)
    D = int(np.prod(dims))
    full = np.eye(D, dtype=complex).reshape(dims + dims)
    # contract op's input axes with full's row axes at `where`
    res = np.tensordot(op, full, axes=(list(range(k, 2 * k)), where))
    # res axes: op outputs (k) then remaining full axes in order (without where rows)
    rest = [i for i in range(2 * n) if i not in where]
    cur = list(where) + rest
    perm = [cur.index(i) for i in range(2 * n)]
    return res.transpose(perm).reshape(D, D)


def apply_op(op, psi, dims, where):
    """op (on sites ``where`` in that order) applied to state vector psi."""
    dims = list(dims)
    where = list(where)
    k = len(where)
    dw = [dims[w] for w in where]
    op = np.asarray(op).reshape(dw + dw)
    x = np.asarray(psi).reshape(dims)
    res = np.tensordot(op, x, axes=(list(range(k, 2 * k)), where))
    rest = [i for i in range(len(dims)) if i not in where]
    cur = list(where) + rest
    perm = [cur.index(i) for i in range(len(dims))]
    return res.transpose(perm).reshape(-1)


def ptrace(rho, dims, keep):
    """Partial trace keeping subsystems ``keep`` in the ORDER given."""
    dims = list(dims)
    n = len(dims)
    keep = list(keep)
    rho = np.asarray(rho)
    if rho.ndim == 1 or 1 in rho.shape and rho.ndim == 2 and rho.shape[0] != rho.shape[1]:
        v = rho.reshape(-1)
        rho = np.outer(v, v.conj())
    r = rho.reshape(dims + dims)
    rows = list(range(n))
    cols = list(range(n, 2 * n))
    for i in range(n):
        if i not in keep:
            cols[i] = rows[i]
    out = [rows[i] for i in keep] + [cols[i] for i in keep]
    res = np.einsum(r, rows + cols, out)
    dk = int(np.prod([dims[i] for i in keep])) if keep else 1
    return res.reshape(dk, dk)


def permute(x, dims, perm):
    """Reorder subsystems: new subsystem i is old subsystem perm[i]."""
    dims = list(dims)
    n = len(dims)
    x = np.asarray(x)
    if x.ndim == 2 and x.shape[0] == x.shape[1] and x.shape[0] == int(np.prod(dims)):
        r = x.reshape(dims + dims)
        r = r.transpose(list(perm) + [n + p for p in perm])
        D = int(np.prod(dims))
        return r.reshape(D, D)
    shp = x.shape
    r = x.reshape(dims).transpose(list(perm)).reshape(-1)
    return r.reshape(shp) if len(shp) == 2 else r


def partial_transpose(rho, dims, sysa):
    dims = list(dims)
    n = len(dims)
    r = np.asarray(rho).reshape(dims + dims)
    perm = list(range(2 * n))
    for i in sysa:
        perm[i], perm[n + i] = perm[n + i], perm[i]
    D = int(np.prod(dims))
    return r.transpose(perm).reshape(D, D)


# --------------------------------------------------------------------------- #
#                                   physics                                   #
# --------------------------------------------------------------------------- #

PAULI = {
    "I": np.eye(2, dtype=complex),
    "X": np.array([[0, 1], [1, 0]], dtype=complex),
    "Y": np.array([[0, -1j], [1j, 0]], dtype=complex),
    "Z": np.array([[1, 0], [0, -1]], dtype=complex),
}


def spin_ops(S):
    """(Sx, Sy, Sz) for spin S in the basis m = S, S-1, ..., -S."""
    d = int(round(2 * S + 1))
    m = np.array([S - i for i in range(d)])
    sz = np.diag(m).astype(complex)
    sp = np.zeros((d, d), dtype=complex)
    for i in range(1, d):
        mm = m[i]
        sp[i - 1, i] = np.sqrt(S * (S + 1) - mm * (mm + 1))
    sm = sp.conj().T
    return (sp + sm) / 2, (sp - sm) / 2j, sz


def expm_herm(H, t):
    """exp(-i H t) for Hermitian H via eigh."""
    w, v = np.linalg.eigh(np.asarray(H))
    return (v * np.exp(-1j * w * t)) @ v.conj().T


def expm_general(A):
    """exp(A) for general (diagonalisable or not) small A via scaling-squaring
    Taylor - independent of scipy."""
    A = np.asarray(A, dtype=complex)
    n = A.shape[0]
    nrm = np.linalg.norm(A, 1)
    s = max(0, int(np.ceil(np.log2(max(nrm, 1e-16)))) + 1)
    B = A / (2**s)
    E = np.eye(n, dtype=complex)
    term = np.eye(n, dtype=complex)
    for k in range(1, 30):
        term = term @ B / k
        E = E + term
    for _ in range(s):
        E = E @ E
    return E


def isometry_defect(m):
    """max |M^H M - 1| for a matrix with the 'kept' axis as columns."""
    m = np.asarray(m)
    g = m.conj().T @ m
    return float(np.max(np.abs(g - np.eye(g.shape[0])))) if g.size else 0.0


def entropy_vn(p):
    p = np.asarray(p, dtype=float)
    p = p[p > 1e-15]
    return float(-np.sum(p * np.log2(p)))


def all_bitstrings(n):
    return list(itertools.product((0, 1), repeat=n))

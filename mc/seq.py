"""SeqExplorer: explicit-state breadth-first search over operation histories
of REAL quimb objects (DESIGN.md 2.1).

A *case* object (built in each worker from a JSON-able ``spec`` by the
property module's ``make_case(spec)``) provides

    build()                  -> fresh world (never reused between executions)
    menu(world)              -> list of events (JSON-able tuples), simplest first
    apply(world, event)      -> observation (calls the real public API)
    pre(world, event)        -> anything the oracle needs from BEFORE the event
    check(world, event, obs, pre) -> list of core.problem(...)
    canon(world)             -> hashable canonical key of the state
    rejections               -> tuple of exception types that count as a
                                documented rejection for this case
    check_rejected(world, event, exc, pre) -> problems (state must be intact)
    cost(event)              -> 0 | 1 deviation units (exotic option)
    nontrivial(world, event, obs) -> bool   (for the evidence counter)

States are identified with the history that reaches them; a state is always
REBUILT by replaying its history on a fresh world (live quimb objects do not
deepcopy faithfully).  The oracle runs after every transition.  Violating
states are recorded and not expanded.
"""

from __future__ import annotations

import importlib
import signal

from . import core

_CASES = {}


class Case:
    rejections = (ValueError, NotImplementedError)
    step_timeout = 120

    def __init__(self, spec):
        self.spec = spec

    def pre(self, w, e):
        return None

    def check_rejected(self, w, e, exc, pre):
        return []

    def cost(self, e):
        return 0

    def nontrivial(self, w, e, obs):
        return True

    def outcome(self, w, e, obs):
        return e[0]

    def unexpected(self, w, e, exc):
        """An exception outside ``rejections``: by default a violation whose
        root signature is the event kind and the exception type."""
        return [core.problem("%s raised %s: %s" % (e, type(exc).__name__, str(exc)[:200]), root="unexpected-exception", event=e[0], exc=type(exc).__name__)]


def get_case(modname, spec):
    k = (modname, core.sig_key(spec))
    if k not in _CASES:
        mod = importlib.import_module(modname)
        _CASES[k] = mod.make_case(core.tuplify(spec))
    return _CASES[k]


class _Timeout(Exception):
    pass


def _alarm(signum, frame):
    raise _Timeout()


def rebuild(case, hist):
    w = case.build()
    for e in hist:
        case.apply(w, e)
    return w


def step(case, hist, e):
    """Run one transition from the state reached by ``hist``.  Returns
    (status, key, problems, outcome, nontrivial)."""
    w = rebuild(case, hist)
    pre = case.pre(w, e)
    try:
        obs = case.apply(w, e)
    except _Timeout:
        raise
    except case.rejections as ex:
        import numpy as np

        if isinstance(ex, np.linalg.LinAlgError):
            return ("viol", None, case.unexpected(w, e, ex), None, False)
        probs = case.check_rejected(w, e, ex, pre)
        return ("reject", "%s:%s" % (e[0], type(ex).__name__), probs, None, False)
    except Exception as ex:
        probs = case.unexpected(w, e, ex)
        if probs:
            return ("viol", None, probs, None, False)
        return ("reject", "%s:%s" % (e[0], type(ex).__name__), [], None, False)
    probs = case.check(w, e, obs, pre)
    if probs:
        return ("viol", None, probs, None, False)
    return ("ok", case.canon(w), [], str(case.outcome(w, e, obs)), bool(case.nontrivial(w, e, obs)))


def expand(item, common):
    """Worker: expand one frontier state = run every enabled event from it."""
    spec, hist, dev = item
    case = get_case(common["mod"], spec)
    hist = list(core.tuplify(hist))
    w = rebuild(case, hist)
    events = list(case.menu(w))
    out = []
    old = signal.signal(signal.SIGALRM, _alarm)
    try:
        for e in events:
            c = case.cost(e)
            if dev + c > common["max_dev"]:
                continue
            signal.alarm(int(case.step_timeout))
            try:
                r = step(case, hist, e)
            except _Timeout:
                raise core.HarnessError("watchdog: step %r after %r exceeded %ss" % (e, hist, case.step_timeout))
            finally:
                signal.alarm(0)
            out.append((e, dev + c) + r)
    finally:
        signal.signal(signal.SIGALRM, old)
    return out


def explore(ctx, spec, depth, max_dev=99, max_states=None, label=None):
    """BFS to ``depth`` from the initial world of ``spec``.  Merging of worker
    results is done in frontier order, so the run is deterministic."""
    modname = ctx.module.__name__
    case = get_case(modname, spec)
    w0 = case.build()
    probs0 = case.check(w0, ("init",), None, None)
    for p in probs0:
        ctx.violation(p, {"engine": "seq", "spec": spec, "history": []})
    if probs0:
        # the initial state already violates the invariant: nothing reached
        # from it would be attributable to an event
        ctx.states += 1
        ctx.cap("initial state of %s violates the invariant: not expanded" % (label or core.sig_key(spec)[:80]))
        return set()
    seen = {case.canon(w0)}
    frontier = [([], 0)]
    label = label or core.sig_key(spec)[:80]
    done_depth = 0
    for d in range(1, depth + 1):
        if not frontier:
            break
        if ctx.out_of_time():
            ctx.cap("time budget hit before depth %d of %s (depth %d complete)" % (d, label, d - 1))
            break
        items = [(spec, h, dev) for h, dev in frontier]
        res = ctx.pmap("expand", items, common={"mod": modname, "max_dev": max_dev}, modname="mc.seq", chunk=max(1, min(16, len(items) // (ctx.workers * 3) or 1)))
        nxt = []
        for (h, hdev), outs in zip(frontier, res):
            if isinstance(outs, dict) and outs.get("__crash__"):
                ctx.violation(core.problem("worker process died (segfault/abort in compiled code?) while expanding state %r" % (h,), root="worker-crash", label=label), {"engine": "seq-expand", "spec": spec, "history": list(h)})
                continue
            for e, dev, status, key, probs, outcome, nontriv in outs:
                ctx.transitions += 1
                ctx.evaluations += 1
                ctx.traces += 1
                hist = list(h) + [e]
                if status == "reject":
                    ctx.reject(key)
                if probs:
                    for p in probs:
                        ctx.violation(p, {"engine": "seq", "spec": spec, "history": hist})
                    continue
                if status != "ok":
                    continue
                ctx.outcome(outcome)
                if key not in seen:
                    seen.add(key)
                    if nontriv:
                        ctx.nontrivial_keys.add(core.digest((core.sig_key(spec), key)))
                    nxt.append((hist, dev))
                    if (label, d) not in ctx._sampled and len(ctx.samples) < 12:
                        ctx._sampled.add((label, d))
                        ctx.samples.append(core.jsonable({"spec": spec, "history": hist}))
            if max_states and len(seen) > max_states:
                ctx.cap("state cap %d hit at depth %d of %s" % (max_states, d, label))
                break
        frontier = nxt
        done_depth = d
    ctx.states += len(seen)
    ctx.counters["seq.depth_completed[%s]" % label] = done_depth
    ctx.counters["seq.states[%s]" % label] = len(seen)
    return seen


def replay(modname, case_rec):
    """Replay a recorded history step by step on a fresh world with the oracle
    on; returns the problems of the first violating step."""
    spec = case_rec["spec"]
    hist = list(core.tuplify(case_rec["history"]))
    if case_rec.get("engine") == "seq-expand":
        # a recorded worker crash: run every enabled event from that state
        # (in a fresh interpreter this dies again if the crash is real)
        outs = expand((spec, hist, 0), {"mod": modname, "max_dev": 99})
        return [p for o in outs for p in o[4]]
    case = get_case(modname, spec)
    w0 = case.build()
    probs = case.check(w0, ("init",), None, None)
    if probs:
        return probs
    for i in range(len(hist)):
        status, key, probs, _, _ = step(case, hist[:i], hist[i])
        if probs:
            return probs
    return []

"""TaskScheduleExplorer (DESIGN 2.3): a deterministic executor seam for
quimb's thread-pool routines.

quimb's threaded code obtains a pool from ``get_thread_pool`` and submits a
fixed set of tasks, then waits (``cf.wait`` / ``wait`` / ``Future.result``).
``Seam`` replaces the accessor (harness-side monkeypatch, no repo change) by
one returning a ``DetPool`` whose futures are run - one at a time, in an order
chosen by the explorer - at the first wait.  ``np.empty`` as seen from the
patched modules NaN-fills its result so that an element no task wrote is
visible.  Around every task the ndarray arguments are snapshotted and the
write set recorded.
"""

from __future__ import annotations

import concurrent.futures as cf
import itertools
import math

import numpy as np


def order_policies(n_max):
    """Complete list of order policies for up to ``n_max`` tasks per flush:
    every permutation when n <= 4, otherwise identity, reversal and all
    rotations.  A policy maps n -> a permutation of range(n) (or None if it
    does not apply to that n)."""
    pol = []
    if n_max <= 4:
        for k in range(math.factorial(max(n_max, 1))):
            pol.append(("perm", k))
    else:
        pol.append(("id", 0))
        pol.append(("rev", 0))
        for s in range(1, n_max):
            pol.append(("rot", s))
    return pol


def apply_policy(policy, n):
    kind, k = policy
    if n <= 1:
        return list(range(n))
    if kind == "perm":
        perms = list(itertools.permutations(range(n)))
        return list(perms[k % len(perms)])
    if kind == "id":
        return list(range(n))
    if kind == "rev":
        return list(range(n))[::-1]
    if kind == "rot":
        s = k % n
        return list(range(s, n)) + list(range(s))
    raise KeyError(policy)


def _neq_mask(x, b):
    x = np.asarray(x)
    b = np.asarray(b)
    try:
        if x.dtype.kind in "fc":
            same = np.equal(x, b) | (np.isnan(x) & np.isnan(b))
        else:
            same = np.equal(x, b)
        return ~np.asarray(same, dtype=bool).ravel()
    except Exception:
        # exotic dtypes (object arrays of operators...): no element-wise
        # write information, treat as 'nothing written'
        return np.zeros(x.size, dtype=bool)


class DetFuture(cf.Future):
    def __init__(self, pool):
        super().__init__()
        self._pool = pool

    def result(self, timeout=None):
        if not self.done():
            self._pool.flush()
        return super().result(timeout=0)

    def exception(self, timeout=None):
        if not self.done():
            self._pool.flush()
        return super().exception(timeout=0)


class DetPool:
    """Deterministic stand-in for ThreadPoolExecutor."""

    def __init__(self, seam, n):
        self._max_workers = n
        self.seam = seam
        self.tasks = []

    def submit(self, fn, *a, **k):
        f = DetFuture(self)
        self.tasks.append((f, fn, a, k))
        return f

    def map(self, fn, *iterables, timeout=None, chunksize=1):
        # same contract as Executor.map: zip stops at the shortest iterable
        fs = [self.submit(fn, *args) for args in zip(*iterables)]
        self.flush()
        return [f.result() for f in fs]

    def shutdown(self, *a, **k):
        pass

    def flush(self):
        tasks, self.tasks = self.tasks, []
        if not tasks:
            return
        n = len(tasks)
        order = apply_policy(self.seam.policy, n)
        self.seam.flush_sizes.append(n)
        # base addresses of all ndarray args to identify the same buffer
        # (views of one array count as that array) across tasks
        flush_log = []
        for i in order:
            f, fn, a, k = tasks[i]
            arrs = []
            for x in list(a) + list(k.values()):
                if isinstance(x, np.ndarray):
                    arrs.append(x)
            before = [x.copy() for x in arrs]
            exc = None
            try:
                f.set_result(fn(*a, **k))
            except BaseException as e:  # noqa
                exc = e
                f.set_exception(e)
            writes = []
            for x, b in zip(arrs, before):
                m = _neq_mask(x, b)
                if m.any():
                    # record absolute byte offsets so views are comparable
                    base = x.__array_interface__["data"][0]
                    idx = np.flatnonzero(m)
                    offs = _byte_offsets(x, idx)
                    writes.append(set((base + offs).tolist()))
            flush_log.append({"task": i, "exc": exc, "writes": set().union(*writes) if writes else set()})
        self.seam.log.append(flush_log)


def _byte_offsets(x, flat_idx):
    idx = np.unravel_index(flat_idx, x.shape) if x.ndim else (np.zeros(len(flat_idx), int),)
    off = np.zeros(len(flat_idx), dtype=np.int64)
    for ax, ii in enumerate(idx):
        off += np.asarray(ii, dtype=np.int64) * (x.strides[ax] if x.ndim else 0)
    return off


class _CFProxy:
    def __init__(self, seam):
        self._seam = seam

    def __getattr__(self, k):
        return getattr(cf, k)

    def wait(self, fs, *a, **k):
        return self._seam.wait(fs)


def _nanfill_numpy():
    """A module object that looks like numpy (same function objects, so numba
    can still type ``np.ceil`` etc. inside jitted code compiled while the seam
    is installed) but whose ``empty``/``empty_like`` NaN-fill floating
    outputs."""
    import types

    m = types.ModuleType("numpy")
    m.__dict__.update(np.__dict__)

    def empty(*a, **k):
        out = np.empty(*a, **k)
        if out.dtype.kind in "fc":
            out.fill(np.nan)
        return out

    def empty_like(*a, **k):
        out = np.empty_like(*a, **k)
        if out.dtype.kind in "fc":
            out.fill(np.nan)
        return out

    m.empty = empty
    m.empty_like = empty_like
    return m


class Seam:
    """Context manager installing the deterministic executor into quimb."""

    def __init__(self):
        self.policy = ("id", 0)
        self.log = []
        self.flush_sizes = []
        self.pool = None
        self._saved = []

    # -- what the patched modules call ---------------------------------- #
    def get_thread_pool(self, num_threads=None):
        import quimb.core as qc

        if num_threads is None:
            num_threads = qc._NUM_THREAD_WORKERS
        if self.pool is None or self.pool._max_workers != num_threads:
            self.pool = DetPool(self, num_threads)
        return self.pool

    def wait(self, fs):
        fs = list(fs)  # consumes the generator: tasks get submitted here
        if self.pool is not None:
            self.pool.flush()
        return set(fs), set()

    # -- install / remove ------------------------------------------------ #
    def _patch(self, mod, name, value):
        self._saved.append((mod, name, getattr(mod, name)))
        setattr(mod, name, value)

    def __enter__(self):
        import quimb
        import quimb.core as qc
        import quimb.gen.rand as qr

        npx = _nanfill_numpy()
        self._patch(qc, "get_thread_pool", self.get_thread_pool)
        self._patch(quimb, "get_thread_pool", self.get_thread_pool)
        self._patch(qc, "cf", _CFProxy(self))
        self._patch(qc, "np", npx)
        self._patch(qr, "get_thread_pool", self.get_thread_pool)
        self._patch(qr, "wait", self.wait)
        self._patch(qr, "np", npx)
        return self

    def __exit__(self, *exc):
        for mod, name, val in reversed(self._saved):
            setattr(mod, name, val)
        self._saved = []
        return False

    # -- running -------------------------------------------------------- #
    def run(self, fn, policy):
        """Run ``fn()`` with the given order policy; returns (result, log,
        flush_sizes)."""
        self.policy = policy
        self.log = []
        self.flush_sizes = []
        self.pool = None
        out = fn()
        if self.pool is not None and self.pool.tasks:
            # tasks submitted but never waited for
            self.pool.flush()
            self.log.append([{"task": -1, "exc": RuntimeError("tasks were never waited for"), "writes": set()}])
        return out, self.log, self.flush_sizes


def analyse(log):
    """Non-interference facts from one run's log: returns list of
    (kind, detail)."""
    probs = []
    for fi, flush in enumerate(log):
        for rec in flush:
            if rec["exc"] is not None:
                probs.append(("task-exception", "%s: %s" % (type(rec["exc"]).__name__, str(rec["exc"])[:80])))
        for a, b in itertools.combinations(flush, 2):
            if a["writes"] & b["writes"]:
                probs.append(("overlapping-writes", "tasks %d and %d of flush %d wrote %d common bytes-offsets" % (a["task"], b["task"], fi, len(a["writes"] & b["writes"]))))
    return probs

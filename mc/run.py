"""Entry point: python -m mc.run <ID> [--tier quick|thorough] [--replay f] [--json]"""

import argparse
import importlib
import json
import os
import sys
import traceback
import warnings

warnings.filterwarnings("ignore")


def main(argv=None):
    ap = argparse.ArgumentParser()
    ap.add_argument("prop")
    ap.add_argument("--tier", default=os.environ.get("VERIF_TIER", "quick"), choices=["quick", "thorough"])
    ap.add_argument("--replay", default=None)
    ap.add_argument("--json", action="store_true")
    ap.add_argument("--workers", type=int, default=int(os.environ.get("VERIF_WORKERS", "0")) or None)
    ap.add_argument("--budget", type=float, default=None, help="soft time budget in seconds")
    ap.add_argument("--opt", action="append", default=[], help="module specific key=value")
    a = ap.parse_args(argv)

    from . import core

    pid = a.prop.upper()
    seed = int(os.environ.get("VERIF_SEED", "0") or 0)
    os.environ["VERIF_SEED"] = str(seed)
    mod = importlib.import_module("mc.props." + pid.lower())

    if a.replay:
        with open(a.replay) as f:
            body = json.load(f)
        case = core.tuplify(body["case"])
        probs = mod.replay(case)
        if a.json:
            print("REPLAY-JSON " + json.dumps(sorted(core.sig_key(p["sig"]) for p in probs)))
            return 0
        known = core.load_known(pid)
        rc = 0
        for p in probs:
            e = core.match_known(p["sig"], known)
            if e is not None:
                print("KNOWN-FINDING: property=%s %s [%s] %s" % (pid, e["what"], e["id"], p["msg"][:300]))
            else:
                print("  reproduced: %s :: %s" % (core.sig_key(p["sig"]), p["msg"][:500]))
                rc = 1
        if rc:
            print("VIOLATION property=%s replay=%s" % (pid, a.replay))
        else:
            print("replay: property holds on this case" if not probs else "replay: only known findings")
        return rc

    import quimb

    if os.environ.get("QUIMB_SRC"):
        print("NOTE: checking quimb from %s" % os.path.dirname(quimb.__file__))
    ctx = core.Ctx(pid, tier=a.tier, seed=seed, workers=a.workers, budget_s=a.budget)
    ctx.module = mod
    ctx.opts = dict(o.split("=", 1) for o in a.opt)
    try:
        mod.run(ctx)
        rc = core.finish(ctx)
    except core.HarnessError as ex:
        print("HARNESS-ERROR property=%s %s" % (pid, ex))
        rc = 2
    except Exception:
        traceback.print_exc()
        print("HARNESS-ERROR property=%s (exception in harness, see traceback)" % pid)
        rc = 2
    finally:
        ctx.close()
    return rc


if __name__ == "__main__":
    sys.exit(main())

"""Data alphabet (DESIGN 2.4) and structure enumerators.

``fill(kind, shape, dtype, key)`` is a pure function of (VERIF_SEED, key,
kind, shape, dtype): process independent, reproducible, no global RNG.
"""

from __future__ import annotations

import hashlib
import itertools
import os

import numpy as np


def seed():
    return int(os.environ.get("VERIF_SEED", "0") or 0)


def rng_for(*key):
    h = hashlib.sha256(repr((seed(),) + tuple(key)).encode()).digest()
    return np.random.Generator(np.random.PCG64(int.from_bytes(h[:16], "little")))


def is_complex(dtype):
    return np.dtype(dtype).kind == "c"


def _generic(rng, shape, dtype):
    x = rng.uniform(-1.0, 1.0, size=shape)
    if is_complex(dtype):
        x = x + 1j * rng.uniform(-1.0, 1.0, size=shape)
    return x.astype(dtype)


def fill(kind, shape, dtype="complex128", key=(), **kw):
    """Named array kinds; see DESIGN 2.4."""
    shape = tuple(int(s) for s in shape)
    rng = rng_for(kind, shape, str(np.dtype(dtype)), *((key,) if not isinstance(key, tuple) else key))
    if kind == "generic":
        return _generic(rng, shape, dtype)
    if kind == "positive":
        return rng.uniform(0.1, 1.0, size=shape).astype(dtype)
    if kind == "ones":
        return np.ones(shape, dtype=dtype)
    if kind == "hermitian":
        n = shape[0]
        x = _generic(rng, (n, n), dtype)
        return ((x + x.conj().T) / 2).astype(dtype)
    if kind == "psd":
        n = shape[0]
        x = _generic(rng, (n, n), dtype)
        return (x @ x.conj().T + 0.1 * np.eye(n)).astype(dtype)
    if kind == "unitary":
        n = shape[0]
        x = _generic(rng, (n, n), dtype)
        q, r = np.linalg.qr(x)
        d = np.diag(r)
        q = q * (d / np.abs(d))
        return q.astype(dtype)
    if kind == "isometry":
        m, n = shape
        x = _generic(rng, (max(m, n), max(m, n)), dtype)
        q, _ = np.linalg.qr(x)
        return q[:m, :n].astype(dtype)
    if kind == "svals":
        # U diag(s) V^H with prescribed singular values
        m, n = shape
        s = np.asarray(kw["s"], dtype=float)
        k = len(s)
        u = fill("isometry", (m, k), dtype, key=(key, "u"))
        v = fill("isometry", (n, k), dtype, key=(key, "v"))
        return ((u * s) @ v.conj().T).astype(dtype)
    if kind == "spectrum":
        n = shape[0]
        lam = np.asarray(kw["lam"], dtype=float)
        u = fill("unitary", (n, n), dtype, key=(key, "u"))
        return ((u * lam) @ u.conj().T).astype(dtype)
    if kind == "diag":
        # generic values on the generalised diagonal of the first two axes
        x = np.zeros(shape, dtype=dtype)
        g = _generic(rng, shape, dtype)
        idx = np.indices(shape)
        mask = idx[0] == idx[1]
        x[mask] = g[mask] + (1.5 if not is_complex(dtype) else 1.5)
        return x
    if kind == "antidiag":
        x = np.zeros(shape, dtype=dtype)
        g = _generic(rng, shape, dtype)
        idx = np.indices(shape)
        mask = idx[0] + idx[1] == shape[0] - 1
        x[mask] = g[mask] + 1.5
        return x
    if kind == "onehot-column":
        # only index 0 of the last axis is non-zero
        x = np.zeros(shape, dtype=dtype)
        g = _generic(rng, shape[:-1], dtype)
        x[..., 0] = g
        return x
    if kind == "rank1":
        vs = [_generic(rng, (d,), dtype) for d in shape]
        x = vs[0]
        for v in vs[1:]:
            x = np.multiply.outer(x, v)
        return x.astype(dtype)
    raise KeyError(kind)


# --------------------------------------------------------------------------- #
#                            structure enumerators                            #
# --------------------------------------------------------------------------- #


def ordered_subsets(items, kmax, kmin=0):
    items = list(items)
    for k in range(kmin, kmax + 1):
        for c in itertools.permutations(items, k):
            yield c


def subsets(items, kmax=None, kmin=0):
    items = list(items)
    kmax = len(items) if kmax is None else kmax
    for k in range(kmin, kmax + 1):
        for c in itertools.combinations(items, k):
            yield c


def dims_lists(alphabet=(1, 2, 3), maxlen=3, maxD=36, minlen=1):
    for n in range(minlen, maxlen + 1):
        for d in itertools.product(alphabet, repeat=n):
            D = int(np.prod(d))
            if D <= maxD:
                yield d


def connected_graphs(n):
    """All connected simple graphs on n labelled nodes up to isomorphism
    (brute force; n <= 5)."""
    import networkx as nx

    nodes = list(range(n))
    pairs = list(itertools.combinations(nodes, 2))
    reps = []
    for k in range(n - 1, len(pairs) + 1):
        for es in itertools.combinations(pairs, k):
            g = nx.Graph()
            g.add_nodes_from(nodes)
            g.add_edges_from(es)
            if not nx.is_connected(g):
                continue
            if any(nx.is_isomorphic(g, h) for h in reps if h.number_of_edges() == k):
                continue
            reps.append(g)
    return [sorted(g.edges()) for g in reps]


def trees(n):
    """All unlabelled trees on n nodes as edge lists."""
    import networkx as nx

    if n == 1:
        return [[]]
    return [sorted(t.edges()) for t in nx.nonisomorphic_trees(n)]

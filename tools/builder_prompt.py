#!/usr/bin/env python3
"""Print the task prompt for a builder sub-agent: tools/builder_prompt.py C05 proto1.py proto2.py"""
import json, sys
pid = sys.argv[1]
protos = sys.argv[2:]
p = [json.loads(l) for l in open('/verif/properties.jsonl') if json.loads(l)['id'] == pid][0]
print(f"""Build the model-checking check for property {pid} of the quimb library.

Start by reading /verif/tools/BUILDER_GUIDE.md completely and follow it exactly (it states hard rules: do not touch /repo, no git commands, only write /verif/mc/props/{pid.lower()}.py (+ optional {pid.lower()}_*.py helpers) and /verif/known_findings.d/{pid}.json, run with --workers 6 under timeout).

Property {pid}: {p['title']}
Statement: {p['statement']}
Quantified over: {p['quantifier']['text']}
Why the existing tests cannot settle it: {p['why_tests_cant']}
Anchored code: {json.dumps(p['anchors']['mechanism'])}

The design for this check is in /verif/DESIGN.md, section "### {pid} -" (read it fully, plus sections 2, 4, 5 and 7: section 5 lists defects already confirmed for this property - validate your oracle against them first, they must show up as violations with a precise root-cause signature and then be listed in your known-findings fragment; section 7 lists API conventions that caused false alarms in prototypes). Design-phase prototypes for this property: {', '.join('/root/proto/'+x for x in protos) or 'none'} (throw-away quality, but they ran).

Deliver: a working /verif/mc/props/{pid.lower()}.py implementing as much of the DESIGN section as fits the budgets (quick <= ~120 s, thorough <= ~25 min on 16 cores), silent on the unchanged tree for VERIF_SEED=0,1,2 (apart from KNOWN-FINDING lines), non-vacuous, with detection demonstrated on at least 3 realistic mutations in a scratch copy via QUIMB_SRC. Prefer breadth of the enumerated alphabet and strength of the oracle over polish. Use /venv/bin/python for any probing (PYTHONPATH=/verif:/verif/.deps). Your final message must be the report described at the end of the guide (including, for each genuine defect: plain-quimb repro, root-cause signature used, and a proposed minimal fix as a unified diff against /repo - not applied).""")

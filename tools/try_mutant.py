#!/usr/bin/env python3
"""Try one source mutation against one check without touching /repo.

    tools/try_mutant.py C02 quimb/tensor/tensor_core.py 'OLD TEXT' 'NEW TEXT' [-- extra check args]
    tools/try_mutant.py C02 --patch some.diff [-- extra check args]

Copies /repo/quimb to a scratch dir, applies the replacement (must match
exactly once) or the patch, runs ./check <ID> with QUIMB_SRC pointing at the
copy, prints the last lines and whether a VIOLATION was reported, removes the
copy and any replay files the run wrote.
"""
import os
import shutil
import subprocess
import sys
import tempfile

VERIF = os.path.dirname(os.path.dirname(os.path.abspath(__file__)))


def main():
    args = sys.argv[1:]
    extra = []
    if "--" in args:
        i = args.index("--")
        args, extra = args[:i], args[i + 1 :]
    pid = args[0]
    tmp = tempfile.mkdtemp(prefix="mt_%s_" % pid, dir="/tmp")
    try:
        shutil.copytree("/repo/quimb", os.path.join(tmp, "quimb"), ignore=shutil.ignore_patterns("__pycache__"))
        if args[1] == "--patch":
            r = subprocess.run(["patch", "-p1", "-d", tmp, "-i", os.path.abspath(args[2])], capture_output=True, text=True)
            if r.returncode != 0:
                print("PATCH FAILED", r.stdout, r.stderr)
                return 3
        else:
            path, old, new = args[1], args[2], args[3]
            p = os.path.join(tmp, path)
            s = open(p).read()
            if s.count(old) != 1:
                print("MUTATION ERROR: pattern occurs %d times in %s" % (s.count(old), path))
                return 3
            open(p, "w").write(s.replace(old, new))
        before = set()
        rdir = os.path.join(VERIF, "replays", pid)
        if os.path.isdir(rdir):
            before = set(os.listdir(rdir))
        env = dict(os.environ, QUIMB_SRC=tmp)
        r = subprocess.run([os.path.join(VERIF, "check"), pid, "--tier", "quick", "--workers", os.environ.get("MUT_WORKERS", "6")] + extra, capture_output=True, text=True, env=env, timeout=int(os.environ.get("MUT_TIMEOUT", "3000")))
        lines = [l for l in r.stdout.splitlines() if not l.startswith("KNOWN-FINDING")]
        print("\n".join(l[:400] for l in lines[-8:]))
        caught = any(l.startswith("VIOLATION property=%s" % pid) for l in r.stdout.splitlines())
        print("==> exit=%d %s" % (r.returncode, "CAUGHT" if caught and r.returncode == 1 else "MISSED" if r.returncode == 0 else "OTHER(exit %d)" % r.returncode))
        if r.returncode not in (0, 1):
            print(r.stderr[-1500:])
        # restore evidence + replays written against the mutant
        subprocess.run(["git", "-C", VERIF, "checkout", "--", "evidence/%s.json" % pid], capture_output=True)
        if os.path.isdir(rdir):
            for f in set(os.listdir(rdir)) - before:
                os.remove(os.path.join(rdir, f))
        return 0
    finally:
        shutil.rmtree(tmp, ignore_errors=True)


if __name__ == "__main__":
    sys.exit(main())

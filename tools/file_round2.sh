#!/bin/sh
# tools/file_round2.sh <ID> <mN> <slug> "<verdict>"   - validate + file one round-2 blind change
# (worktree /tmp/mut2_<ID>; test files chosen per property).
ID=$1; M=$2; SLUG=$3; VERDICT=$4
T=tests/test_tensor
case $ID in
  C01) FILES="$T/test_tensor_core.py $T/test_contract.py" ;;
  C03) FILES="$T/test_tensor_core.py $T/test_tn1d/test_core.py" ;;
  C04) FILES="$T/test_tensor_core.py $T/test_tn1d/test_core.py $T/test_tnag/test_core.py" ;;
  C05) FILES="$T/test_decomp.py $T/test_tensor_core.py $T/test_tn1d/test_compress.py $T/test_tnag/test_compress.py" ;;
  C06) FILES="$T/test_gating.py $T/test_tensor_core.py $T/test_tn1d/test_core.py" ;;
  C07) FILES="$T/test_circuit" ;;
  C09) FILES="$T/test_tn1d/test_core.py $T/test_tn1d/test_compress.py $T/test_tnag/test_core.py" ;;
  C10) FILES="$T/test_tn1d/test_dmrg.py $T/test_tensor_spectral_approx.py" ;;
  C11) FILES="$T/test_tn1d/test_tebd.py $T/test_tnag/test_tebd.py $T/test_tn2d/test_core.py" ;;
  C12) FILES="$T/test_tn2d/test_core.py $T/test_tn3d/test_core.py $T/test_contract.py $T/test_tnag/test_compress.py $T/test_tensor_core.py" ;;
  C13) FILES="$T/test_tnag/test_core.py $T/test_tn1d/test_core.py $T/test_tn2d/test_core.py $T/test_belief_propagation/test_d2bp.py" ;;
  C14) FILES="$T/test_belief_propagation $T/test_tnag/test_compress.py" ;;
  C17) FILES="tests/test_matrix/test_linalg tests/test_matrix/test_core.py" ;;
  C19) FILES="tests/test_operator" ;;
  *) echo "no test set for $ID"; exit 2 ;;
esac
cd "$(dirname "$0")/.." || exit 2
VAL_N=${VAL_N:-4} python3 tools/validate_seeded.py /tmp/mut2_$ID /tmp/mut2_$ID/out/$M "$ID-r2-$SLUG" "$VERDICT" -- $FILES 2>&1 | tail -2

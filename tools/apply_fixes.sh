#!/bin/sh
# tools/apply_fixes.sh /tmp/fixes_CNN [pattern]  - apply each NN-*.diff to /repo and commit it with its .msg
set -e
D="$1"; PAT="${2:-[0-9]*}"
for f in "$D"/$PAT.diff; do
  m="${f%.diff}.msg"
  echo "== $(basename $f)"
  patch -p1 -d /repo --no-backup-if-mismatch < "$f" | tail -2
  (cd /repo && /venv/bin/python -W ignore -c "import quimb, quimb.tensor, quimb.operator" && git add -u quimb && git commit -q -F "$m" && git log --oneline | head -1)
done

#!/usr/bin/env python3
"""Run the repository's own suite (guard off) on a tree and compare with
/root/.vp/BASELINE.json:  tools/baseline_compare.py [--src DIR] [-n N] [pytest args...]

Prints the stable-pass tests that did not pass.  DIR defaults to /repo; with
another DIR (a scratch worktree) PYTHONPATH is pointed at it.
"""
import json
import os
import subprocess
import sys
import tempfile
import xml.etree.ElementTree as ET


def main():
    args = sys.argv[1:]
    src = "/repo"
    n = "8"
    if "--src" in args:
        i = args.index("--src")
        src = args[i + 1]
        del args[i : i + 2]
    if "-n" in args:
        i = args.index("-n")
        n = args[i + 1]
        del args[i : i + 2]
    base = json.load(open("/root/.vp/BASELINE.json"))
    stable = set(base["stable_pass"])
    out = tempfile.mktemp(suffix=".junit.xml", dir="/tmp")
    env = dict(os.environ)
    env.pop("QUIMB_VERIF", None)
    # keep BLAS single-threaded per xdist worker (does not change results;
    # avoids oversubscribing the machine with workers x cores threads)
    env.setdefault("OPENBLAS_NUM_THREADS", "1")
    env.setdefault("MKL_NUM_THREADS", "1")
    if src != "/repo":
        env["PYTHONPATH"] = src
    cmd = ["/venv/bin/python", "-m", "pytest", "-q", "-p", "no:cacheprovider", "--timeout=900", "--continue-on-collection-errors", "-n", n, "--junitxml=" + out] + args
    r = subprocess.run(cmd, cwd=src, env=env, capture_output=True, text=True)
    print(r.stdout.strip().splitlines()[-1] if r.stdout.strip() else r.stderr[-500:])
    passed, failed = set(), set()
    for tc in ET.parse(out).getroot().iter("testcase"):
        tid = (tc.get("classname") or "") + "::" + (tc.get("name") or "")
        if tc.find("failure") is not None or tc.find("error") is not None:
            failed.add(tid)
        elif tc.find("skipped") is None:
            passed.add(tid)
    os.remove(out)
    ran = passed | failed
    if args:
        # partial run: only compare the tests that were selected
        stable = {t for t in stable if t in ran}
    missing = sorted(stable - passed)
    print("stable baseline tests considered: %d; passed now: %d; NOT passing: %d" % (len(stable), len(stable & passed), len(missing)))
    for t in missing[:40]:
        print("  NOT PASSING:", t, "(failed)" if t in failed else "(not run/skipped)")
    return 1 if missing else 0


if __name__ == "__main__":
    sys.exit(main())

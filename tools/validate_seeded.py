#!/usr/bin/env python3
"""Validate one blind seeded change and file it under /verif/seeded/.

    tools/validate_seeded.py <worktree> <out/mN dir> <seeded-id> <check verdict text> -- <pytest files...>

In the scratch worktree: demo passes on the clean tree, patch applies, demo
fails with the patch, the selected test files still pass exactly the tests
that are stable in BASELINE.json; then the patch is reverted.  On success the
patch, demo and an extended meta.json are copied to /verif/seeded/<seeded-id>/.
"""
import json
import os
import shutil
import subprocess
import sys

VERIF = os.path.dirname(os.path.dirname(os.path.abspath(__file__)))
ENV = dict(os.environ, OPENBLAS_NUM_THREADS="1", MKL_NUM_THREADS="1", NUMBA_NUM_THREADS="2")


def run(cmd, cwd, env=None, timeout=7200):
    return subprocess.run(cmd, cwd=cwd, env=env or ENV, capture_output=True, text=True, timeout=timeout)


def main():
    a = sys.argv[1:]
    i = a.index("--")
    wt, mdir, sid, verdict = a[0], a[1], a[2], a[3]
    tests = a[i + 1 :]
    env = dict(ENV, PYTHONPATH=wt)
    patch = os.path.join(mdir, "patch.diff")
    demo = os.path.join(mdir, "demo.py")
    log = {}
    run(["git", "checkout", "--", "quimb"], wt)
    r = run(["/venv/bin/python", demo], wt, env)
    log["demo_clean_exit"] = r.returncode
    r = run(["git", "apply", patch], wt)
    if r.returncode != 0:
        print("patch does not apply:", r.stderr)
        return 1
    try:
        r = run(["/venv/bin/python", demo], wt, env)
        log["demo_patched_exit"] = r.returncode
        log["demo_patched_tail"] = (r.stdout + r.stderr)[-300:]
        r = run(["python3", os.path.join(VERIF, "tools", "baseline_compare.py"), "--src", wt, "-n", os.environ.get("VAL_N", "4")] + tests, wt, env)
        log["tests_cmd"] = "tools/baseline_compare.py --src <worktree> " + " ".join(tests)
        log["tests_out"] = r.stdout[-600:]
        log["tests_rc"] = r.returncode
    finally:
        run(["git", "checkout", "--", "quimb"], wt)
    ok = log["demo_clean_exit"] == 0 and log["demo_patched_exit"] != 0 and log["tests_rc"] == 0
    print(json.dumps(log, indent=1))
    if not ok:
        print("NOT VALIDATED")
        return 1
    dst = os.path.join(VERIF, "seeded", sid)
    os.makedirs(dst, exist_ok=True)
    shutil.copy(patch, os.path.join(dst, "patch.diff"))
    shutil.copy(demo, os.path.join(dst, "demo.py"))
    meta = json.load(open(os.path.join(mdir, "meta.json")))
    meta["validated_by_lead"] = {
        "demo_on_clean_tree": "exit 0",
        "demo_with_patch": "exit %d" % log["demo_patched_exit"],
        "suite": log["tests_cmd"],
        "suite_result": log["tests_out"].strip().splitlines()[-3:],
    }
    meta["check_verdict"] = verdict
    json.dump(meta, open(os.path.join(dst, "meta.json"), "w"), indent=1)
    print("VALIDATED ->", dst)
    return 0


if __name__ == "__main__":
    sys.exit(main())

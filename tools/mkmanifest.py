#!/usr/bin/env python3
"""Regenerate /verif/MANIFEST.json from the table below (run after adding a
property module).  A property is claimed iff mc/props/<id>.py exists and it is
listed in CLAIMED."""

import json
import os

HERE = os.path.dirname(os.path.dirname(os.path.abspath(__file__)))

SEQ = "explicit-state BFS over operation histories of the real objects (stateless rebuild per state, invariant = agreement with an independent numpy reference / fresh scan after every transition)"
TAB = "exhaustive enumeration of a bounded configuration x structure table on the real entry points, each cell compared with an independent numpy reference model"

CHECKS = {
    "C01": dict(engine="table+seq", technique="bounded exhaustive enumeration of networks x outputs x contraction routes + BFS over partial-contraction histories, vs einsum reference", design="3/C01",
                text="Every hypergraph network with <= 3 (quick) / 4 (thorough) tensors over a 4-label alphabet (dims incl. 1, hyper labels, scalars), every output-label subset in two orders, three stored exponents, is evaluated through every public contraction route and compared with one np.einsum; partial contractions are explored as histories and must keep the denoted value. Exhaustive within those bounds, silent about larger networks and other data. Also: values scaled to ~1e-15 / ~1e+15, overlap for every operand-type pair, input purity of every route.",
                note="trusted: numpy einsum as the denotation; data from the fixed alphabet; cotengra path finders assumed deterministic"),
    "C02": dict(engine="seq", technique="explicit-state BFS over mutation histories (depth-bounded), fresh-scan invariant in every state", design="3/C02",
                text="All histories up to depth 2 (quick) / 3 (thorough) of ~75 public mutation event kinds on five initial worlds (shared tensors, virtual views, repeated labels, colliding inner labels, hyper labels) are executed on real networks; after every transition every live network's ind_map/tag_map/inner/outer/owners/selection results are compared with a fresh scan, and combinations are checked to keep distinct bonds distinct and outer names unchanged. quimb.utils.oset is explored exhaustively over 3 keys against a list model.",
                note="trusted: the fresh scan; assumes data never influences bookkeeping; canonical-key merging argued in DESIGN 3/C02"),
    "C03": dict(engine="table", technique="reflection-driven exhaustive table: every (f, f_) pair x receiver x axis permutation x insertion order, purity by read-only arrays + fingerprints", design="3/C03",
                text="Every public plain/in-place method pair discovered by reflection on the tensor and network classes is run on small fixed receivers with a finite argument domain: the plain spelling must leave receiver and arguments bit-identical (arrays made read-only), agree with the in-place spelling on a copy, and be invariant under every axis permutation of every tensor involved and every insertion order (incl. mixed isel selectors and all simplifiers with default outputs on open chains of structured tensors).",
                note="trusted: dense labelled comparison; argument domains are hand-written finite lists; pairs without a domain are reported, not checked"),
    "C04": dict(engine="seq+table", technique="explicit-state BFS over compositions of representation-only rewrites, dense-value invariant after every transition; exhaustive 0/1 masks for the structure kernels", design="3/C04",
                text="From every small connected graph network (trees, loops, multibond, hyper-index, structured tensors) every composition up to depth 2 (quick) / 3 (thorough) of gauging, canonisation, norm-equalisation, fusing, squeezing, simplification and untruncated compression events is executed; the dense value over the same outer labels times 10^exponent must be unchanged after every step and promised forms (isometry, bond not larger, equal norms) must hold. Structure-detection kernels are checked on all 0/1 masks up to 3x3 / 2x2x2.",
                note="trusted: dense contraction by einsum reference; bounded to <= 4 tensors"),
    "C05": dict(engine="table", technique="exhaustive method x form x cutoff-mode x truncation-grid x shape x dtype x spectrum table vs numpy SVD reference rule", design="3/C05",
                text="The full decomposition table read from quimb's own registries is run on matrices with prescribed singular values: reconstruction when untruncated, isometry of factors reported isometric, kept rank = reference rule, Eckart-Young optimality, reported error = actual distance, renormalisation, and agreement of accelerated (numba) and generic implementations; exactly zero inputs and cutoffs that reject every value must still keep one value and stay finite.",
                note="trusted: numpy.linalg.svd; thresholds asserted only with a 10x margin; matrices <= 4x4"),
    "C06": dict(engine="table", technique="exhaustive geometry x operator x ordered-where x application-mode table vs dense embed reference, incl. second gate from a non-initial state", design="3/C06",
                text="Every application mode accepted for each geometry (open/cyclic MPS, MPO, PEPS, tree/ring, dense) x every ordered site tuple x generic non-symmetric operators (matrix/tensor, transposed/adjoint) is applied without truncation and compared with the dense embedded operator times the dense state; outer labels, site tags and class are checked to be preserved; the full transpose x dagger flag product, gate objects re-used for a second application, mixed physical dimensions.",
                note="trusted: numpy tensordot embedding; <= 6 sites, d <= 3"),
    "C07": dict(engine="seq+table", technique="explicit-state BFS over interleavings of gates, parameter updates, copies and queries on every simulator class vs a numpy statevector reference; exhaustive gate x placement table", design="3/C07",
                text="All interleavings up to a bounded number of mutations (with queries in between) on N=3 (quick) / 4 qubits for each circuit class are executed; every query after every step is compared with a numpy statevector built from the recorded gates, so a cache that survives a mutation is seen; every registered gate is checked unitary on a parameter grid and against textbook matrices, on every ordered placement. Both circuits of a copy() pair stay alive and are re-read after every event; one Gate object shared by two circuits; recorded gate lists compared with the gates applied.",
                note="trusted: hand-written gate matrices and numpy statevector simulator"),
    "C08": dict(engine="seq", technique="explicit-state BFS over MPS operation histories threading one info record, isometry + dense-state invariants after every transition", design="3/C08",
                text="All histories up to depth 2-3 (quick) / 3-4 (thorough) of canonicalise/shift/gate (every MPS mode)/swap/sub-MPO/compress-site/measure/query events on L=4 (5) states thread one info dict; after every transition the recorded centre range is checked against numpy isometry tests of every site, flagged tensors are checked isometric, and every returned quantity is compared with its dense-state definition.",
                note="trusted: numpy isometry test and dense state; unitary one-site gates only"),
    "C09": dict(engine="table", technique="exhaustive L x dims x bond x method x sweep-direction table vs dense linear algebra", design="3/C09",
                text="Round trips of every named generator, all arithmetic/apply/trace/partial-trace routes and every registered 1D compression method x sweep direction x input kind are run for L <= 4-5 and compared with dense numpy results; bond caps, canonical form and the discarded-weight error bound are asserted.",
                note="trusted: dense numpy; randomised methods with fixed seeds on exactly low-rank inputs"),
    "C10": dict(engine="table", technique="exhaustive Hamiltonian-family x DMRG-configuration table with per-update energy monitor vs exact diagonalisation", design="3/C10",
                text="All subsets (size <= 3) of an 8-term alphabet incl. genuinely complex terms x L x S x DMRG1/2 x bond schedules x sweep sequences: reported energy = <state|H|state>, state normalised, energy >= E0, monotone untruncated updates, bond cap respected, ED agreement when the cap admits the exact state; the documented dmrg.opts; multi-solve histories on one object with the monitor carried across solve() calls.",
                note="trusted: numpy eigh on the dense Hamiltonian built by an independent Kronecker-sum reference"),
    "C11": dict(engine="seq+table", technique="explicit-state enumeration of update-time histories x configuration table vs exact reference Trotter product", design="3/C11",
                text="LocalHam objects are compared term-by-term and gate-by-gate with numpy/scipy; every TEBD history (sequences of target times incl. non-multiples of dt and repeats) over L x cyclic x order x dt x imag x t0 must land exactly on T and reproduce the reference product formula to 1e-9; convergence order is checked on a ladder of step sizes; arbitrary-geometry simple update (sequential / parallel, every ordering of small graphs, 3+ layer colourings) vs the dense product of the local exponentials; constructor input purity.",
                note="trusted: reference product formula built from the library's schedule coefficients + independent expm"),
    "C12": dict(engine="table", technique="exhaustive lattice x direction-sequence x mode x option table; untruncated value vs exact contraction, bond-cap invariant at every hand-over", design="3/C12",
                text="Every boundary-contraction mode x direction sequence x option on 2D (<= 3x3 quick, 4x4 thorough) and 3D (2x2x2) lattices, every contraction tree of small arbitrary graphs, HOTRG/CTMRG, and all row/column/plaquette environments are run: exact value when untruncated, all compressed bonds <= chi when capped, environments close to the full value; explicit max_bond vs the chi stored in a contraction tree; total pair bond on periodic boundary lines; every caller-owned option dict fingerprinted and every entry called twice with the same option objects.",
                note="trusted: exact contraction of the same network"),
    "C13": dict(engine="table", technique="exhaustive state x operator x ordered-where x route table vs dense expectation / partial trace", design="3/C13",
                text="Every route to a reduced density matrix or local expectation (exact, cluster, loop expansions, 1D canonical/environment, 2D plaquette environments) on un-normalised small states with generic non-symmetric operators and every ordered site tuple is compared with the dense value; RDMs checked Hermitian, normalised, ordered; two- and three-step histories through one info / environment container (changed operator, changed cluster lists); equalize_norms x normalized on lattices where both plaquette routines run.",
                note="trusted: dense numpy state; <= 8 sites"),
    "C14": dict(engine="table", technique="exhaustive tree x flavour x schedule (all tensor insertion orders) table vs exact contraction and exact marginals", design="3/C14",
                text="Every unlabelled tree on <= 5-6 nodes, forests and hyper-trees x every BP flavour x update schedule (all n! insertion orders, sequential/parallel, damping) must converge to the exact value/norm and exact marginals; BP gauging/compression without truncation must keep the tensor (graded spectra, bond sizes unchanged); structured leaves whose message sums to exactly zero; no non-finite message after run().",
                note="trusted: exact contraction; loopy graphs outside the property"),
    "C15": dict(engine="table", technique="bounded-exhaustive enumeration of dimension lists x ordered subsets x formats x all ownership ranges vs explicit numpy kron/transpose/einsum", design="3/C15",
                text="All dims tuples over {1,2,3} up to length 3-4, every ordered index subset, dense and every sparse format, ket/bra/operator: ikron, pkron, permute, partial_trace, partial_transpose vs numpy; every ownership range 0<=ri<rf<=D of kron and the Hamiltonian builders equals the row slice of the full object.",
                note="trusted: numpy kron/einsum; D <= 36"),
    "C16": dict(engine="sched+table", technique="exhaustive partition-arithmetic grid + enumeration of all task completion orders through a deterministic executor seam with write-set non-interference check", design="3/C16",
                text="The work-partition arithmetic is checked on a complete grid (size x block size x thread count); every threaded kernel is run through a deterministic executor that executes the submitted tasks in every order (all n! for <= 4 tasks, rotations above), records per-task write sets (disjoint, covering, inputs untouched) and compares bit-for-bit with the serial numpy result.",
                note="trusted: the executor seam (monkeypatch of quimb.core.get_thread_pool / cf.wait); preemption inside nogil kernels covered by the non-interference argument"),
    "C17": dict(engine="table", technique="exhaustive operator-kind x size x k x which x sigma x backend x representation table vs dense numpy spectrum", design="3/C17",
                text="Every selection rule x backend x representation x k on Hermitian/general/degenerate/block-structured operators on both sides of the backend thresholds: residuals, orthonormality, ordering, exact selected subset; svd/expm/expm_multiply/sqrtm/norm identities; autoblock = direct; exact-zero / exact-eigenvalue targets in every spelling; every dense input in C / Fortran / transposed / strided layout; bitwise input purity and repeat-call equality on every evaluation.",
                note="trusted: numpy.linalg.eigh/eig/svd and an independent Taylor expm"),
    "C18": dict(engine="seq", technique="explicit-state enumeration of update-time histories over the method x state-kind x Hamiltonian-representation table vs eigh propagator", design="3/C18",
                text="Every method x ket/pure/mixed density operator x Hamiltonian representation x t0, driven through every sequence (depth <= 3) of update times incl. repeats and backwards steps: state and time equal the reference propagator, invariants conserved, unsupported combinations must be rejected, callbacks see reference states.",
                note="trusted: numpy eigh propagator; midpoint product for non-commuting H(t)"),
    "C19": dict(engine="table", technique="exhaustive rank enumeration for every (nsites, order, symmetry, sector) + term-list x representation table vs explicit Kronecker-sum reference", design="3/C19",
                text="Every rank of every sector for nsites <= 4-6 is unranked/ranked and compared with brute-force enumeration; every term list over the operator alphabet (locality <= 3, complex coefficients, repeated sites) is built in every representation, before and after Jordan-Wigner/Pauli rewrites and in every sector, and compared with an independent Kronecker reference; MPO and matrix-side builders agree; every accepted spelling of a sector denotes the same sector.",
                note="trusted: textbook operator matrices and numpy kron"),
    "C20": dict(engine="table", technique="bounded-exhaustive dims x state-kind x subsystem-choice x representation table vs textbook definitions in numpy", design="3/C20",
                text="Every measure on every dims list (D <= 16), state kind, ordered subsystem choice, dense/sparse and ket/projector representation is compared with its textbook definition in numpy and checked for invariances, bounds and pure-state identities.",
                note="trusted: numpy eigh/svd definitions"),
}


def main():
    props = [json.loads(l) for l in open(os.path.join(HERE, "properties.jsonl"))]
    checks, na = [], []
    for p in props:
        pid = p["id"]
        path = os.path.join(HERE, "mc", "props", pid.lower() + ".py")
        meta = CHECKS[pid]
        claimed = set(open(os.path.join(HERE, "tools", "claimed.txt")).read().split())
        if os.path.exists(path) and pid in claimed:
            checks.append(
                {
                    "property_id": pid,
                    "quick_cmd": "./check %s --tier quick" % pid,
                    "thorough_cmd": "./check %s --tier thorough" % pid,
                    "evidence_file": "/verif/evidence/%s.json" % pid,
                    "replay_cmd_template": "./check %s --replay {path}" % pid,
                    "engine": meta["engine"],
                    "level_claimed": {"category": "model_checking", "text": meta["text"], "design_ref": "DESIGN.md section " + meta["design"]},
                    "level_note": meta["note"],
                    "technique": meta["technique"],
                }
            )
        else:
            na.append({"property_id": pid, "reason": "check not built yet in this session (work in progress; design in DESIGN.md section %s) - not a statement that model checking cannot apply" % meta["design"]})
    man = {
        "version": 1,
        "setup_cmd": "./setup.sh",
        "notes": "All checks are bounded exhaustive explorations of the real quimb code in /repo (editable install: the working tree is what runs). No repository hooks are needed; QUIMB_VERIF is reserved as guard name.",
        "hooks": {
            "guard": "QUIMB_VERIF",
            "enable": "none needed: checks observe public attributes/return values only; harness-side seams are monkeypatches inside the check process",
            "baseline_off_cmd": "cd /repo && /venv/bin/python -m pytest -ra -q -p no:cacheprovider --timeout=900 --continue-on-collection-errors -n 16",
            "source_commits": [],
            "add_only": True,
        },
        "engines": [
            {"name": "seq", "path": "mc/seq.py", "serves_properties": [k for k, v in CHECKS.items() if "seq" in v["engine"]], "kind_free_text": SEQ},
            {"name": "table", "path": "mc/table.py", "serves_properties": [k for k, v in CHECKS.items() if "table" in v["engine"]], "kind_free_text": TAB},
            {"name": "sched", "path": "mc/sched.py", "serves_properties": ["C16"], "kind_free_text": "deterministic executor seam enumerating all task completion orders of quimb's thread-pool kernels"},
        ],
        "checks": checks,
        "not_applicable": na,
    }
    with open(os.path.join(HERE, "MANIFEST.json"), "w") as f:
        json.dump(man, f, indent=1)
    try:
        import jsonschema

        jsonschema.validate(man, json.load(open("/root/.vp/MANIFEST.schema.json")))
        print("MANIFEST valid: %d checks, %d not_applicable" % (len(checks), len(na)))
    except ImportError:
        print("written (jsonschema not importable here)")


if __name__ == "__main__":
    main()

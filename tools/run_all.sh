#!/bin/sh
# tools/run_all.sh [quick|thorough] [workers]  - run every claimed check, print one summary line each
TIER="${1:-quick}"; W="${2:-12}"
cd "$(dirname "$0")/.."
for p in $(cat tools/claimed.txt); do
  s=$(date +%s)
  out=$(./check $p --tier $TIER --workers $W 2>&1); rc=$?
  e=$(date +%s)
  nk=$(echo "$out" | grep -c "^KNOWN-FINDING")
  nv=$(echo "$out" | grep -c "^VIOLATION")
  echo "$p rc=$rc known=$nk violations=$nv wall=$((e-s))s :: $(echo "$out" | grep "tier=$TIER" | cut -c1-160)"
  [ $rc -ne 0 ] && echo "$out" | grep -v "^KNOWN" | tail -6
done

#!/usr/bin/env python3
"""Print the task prompt for a blind mutant-writing sub-agent: tools/mutant_prompt.py C02 /tmp/mut_C02 [n]"""
import json, sys
pid, wt = sys.argv[1], sys.argv[2]
n = int(sys.argv[3]) if len(sys.argv) > 3 else 3
p = [json.loads(l) for l in open('/verif/properties.jsonl') if json.loads(l)['id'] == pid][0]
print(f"""You are helping evaluate a verification effort on the Python library quimb (jcmgray/quimb). You have your own scratch git worktree of the repository at {wt} (work ONLY there; never touch /repo, and never read or list anything under /verif - your work must be independent of it). Run python as: cd {wt} && PYTHONPATH={wt} /venv/bin/python ... (this makes `import quimb` use your worktree; verify with `python -c "import quimb; print(quimb.__file__)"`). There is no network. networkx is not installed in /venv (some tests are skipped/failing for that reason at baseline: ignore tests that fail identically without your change).

Here is a semantic property that quimb is supposed to satisfy:

Property {pid}: {p['title']}
Statement: {p['statement']}
Quantified over: {p['quantifier']['text']}
Relevant code: {json.dumps(p['anchors']['mechanism'])}

Task: produce {n} DIFFERENT, independent, realistic source changes to quimb (each a small edit of the kind a maintainer could plausibly make by mistake during a refactor or optimisation) such that each change
 (1) BREAKS the property above (on some input / history / configuration), and
 (2) still imports fine and PASSES the repository's existing test-suite (the tests that passed before must still pass), and
 (3) needs something SPECIFIC to manifest - a particular multi-step sequence of operations, an unusual-but-legal input (e.g. a dimension-1 index, a hyper-index, complex dtype, reversed site order, a non-default option), or two cooperating sites that each look fine alone - NOT something ordinary use would expose at once (if it broke the common path the existing tests would catch it).
Spread the {n} changes over different mechanisms / code sites of the property (do not make {n} variants of one idea).

For each change i = 1..{n} create a directory {wt}/out/m<i>/ containing:
 - patch.diff : `git diff` of ONLY that change against the clean worktree (each patch must apply on its own to a clean checkout with `git apply`);
 - demo.py : a small standalone program (plain quimb + numpy, no test framework) that exits 0 and prints PASS on the clean tree and exits 1 and prints FAIL with the change applied - it demonstrates the property being violated by comparing against an independent computation (dense numpy / a fresh scan / a definition), not against hard-coded numbers produced by the library itself;
 - meta.json : {{"property": "{pid}", "summary": "...what was changed...", "needs": "...what specific input/sequence is needed to manifest...", "tests_run": "...exact pytest command(s) you ran and their pass/fail counts with and without the change..."}}.

How to check (2): run the most relevant test files with the change applied, at least: `cd {wt} && OPENBLAS_NUM_THREADS=1 MKL_NUM_THREADS=1 NUMBA_NUM_THREADS=2 PYTHONPATH={wt} /venv/bin/python -m pytest -q -p no:cacheprovider -x -n 3 <relevant test files>` (e.g. the files under tests/ that exercise the code you touched - find them with grep), and compare with the same command on the clean tree. The machine is shared and heavily loaded: ALWAYS set OPENBLAS_NUM_THREADS=1 MKL_NUM_THREADS=1 NUMBA_NUM_THREADS=2 for every python/pytest command, use at most -n 3, and run only the most relevant test files (not whole directories). Between changes always return to the clean tree with `git -C {wt} checkout -- quimb` (keep your out/ directory, it is untracked). Verify each demo on both the clean and the changed tree before you finish. Finish with the worktree clean (only the untracked out/ directory left) and reply with a short list: for each change its summary, what it needs to manifest, and the test commands/results.""")

#!/bin/sh
# Offline setup: install the two pure-python helper packages the harness needs
# into /verif/.deps (never into /venv, so the baseline suite is unaffected).
set -e
cd "$(dirname "$0")"
if [ ! -d .deps/networkx ] || [ ! -d .deps/jsonschema ]; then
  PIP_NO_INDEX=1 /venv/bin/pip install --quiet --disable-pip-version-check \
     --no-index --find-links /opt/veriftools/wheels --target .deps networkx jsonschema
fi
/venv/bin/python - <<'PY'
import sys; sys.path.insert(0, '/verif/.deps')
import networkx, jsonschema
print('setup ok: networkx', networkx.__version__, 'jsonschema', jsonschema.__version__)
PY
